"""C07 — TensorFrame row selection is coherent across all stypes and the target."""
from __future__ import annotations

# Every raise / assert / early return / special-case branch / dtype cast on the selection path of the anchored code
# (tensor_frame.py __getitem__/_apply/num_rows, multi_tensor.py select/_slice/narrow/index_select/_normalize_index), the
# generator stream that reaches it and the oracle key that notices when it is removed, loosened or defaulted.
ERROR_PATHS = [
    ("__getitem__: int -> [int] (keeps the row axis)", "index kind int incl. -n, n-1, n, -n-1 (boundary stream)", "wrong-len:*, no-raise:int, raises:*:int"),
    ("__getitem__: dict-valued feature: every entry indexed", "frames with text_tokenized", "incoherent-rows:*dict*, wrong-rows:*"),
    ("__getitem__: explicit _num_rows recomputed on a (n, 1) dummy (bounds checked)", "explicit num_rows, feature-less frames, "
     "stepped slices on them", "wrong-len:*, no-raise:featureless, props-wrong"),
    ("_apply: y indexed with the same index; assert on its type", "frames with float / long y", "incoherent-rows (y), wrong-rows"),
    ("num_rows: explicit / 0 when empty / first feature / first entry of a dict", "all frames; empty frame stream", "props-wrong, empty-frame-len"),
    ("select: int -> _single_index_select; IndexError out of range after wrapping", "int indices at and beyond both ends", "no-raise:int, raises:*:int"),
    ("select: slice -> _slice: step <= 0 -> ValueError; step > 1 -> index tensor; else clamp + narrow", "slices with steps "
     "None/1/2/3/0/-1/-2, overshooting / inverted / negative bounds", "no-raise:slice, wrong-len:*:slice, raises:*:slice"),
    ("narrow: start == 0 and covers everything -> self; length <= 0 -> _empty; else _row_narrow", "[0:n], [:n+1], [a:a], [n:], boundary stream",
     "wrong-rows:*, wrong-len:*, unreadable:*"),
    ("select: list / range -> torch.tensor(index, dtype=long) (a range enumerates its integers, negatives wrap)",
     "lists, ranges incl. through zero and decreasing, empty", "wrong-rows:*:range|list, incoherent-rows:*"),
    ("select: 1-D tensor -> index_select; bool -> nonzero with assert numel == size; long/int32 -> wrap negatives ON A CLONE; "
     "IndexError when out of range", "tensors int64/int32, strided, masks of length n-1/n/n+1, single True, shared index objects",
     "index-argument-modified, no-raise:tensor|mask, raises:*, wrong-rows:*"),
    ("index_select on an empty index -> _empty(dim)", "empty list / tensor / all-False mask, chains through empty frames", "wrong-len:*, unreadable:*"),
    ("torch dense indexing of features and y (IndexError / ValueError of torch itself)", "same streams; extra: primitive check", "primitive:torch-index, raises:*, no-raise:*"),
    ("not reachable from a frame: _normalize_dim errors, 2-D index tensors, assert index.dim() == 1", "outside the quantifier", "-"),
]

# Clause-by-clause coverage of the property statement (properties.jsonl C07): oracle keys that judge the clause and
# generator streams / drawn forms that exercise it.  stats() counts every form; sanity() fails closed when one is 0.
CLAUSES = [
    ("index with ANY row selection: int | slice | list | range | index tensor | bool mask",
     "keys raises:*, no-raise:*, wrong-rows:*", "gen_index kinds int/slice/list/range/tensor/mask; tensors as int64 and "
     "int32, contiguous and strided; ranges whose entries run through zero (negative entries wrap, unlike a slice); "
     "tf[ix] and tf.__getitem__(ix)"),
     ("returns a frame with the same columns", "keys names-changed, wrong-type, props-wrong (num_cols, stypes)", "every case"),
    ("every feature of every stype (dense / ragged / dict of ragged) and the target hold exactly the selected rows in order",
     "keys incoherent-rows:*, wrong-rows:*", "frames over random subsets of the nine stypes, with / without y"),
    ("agreeing row-for-row with selecting from each column separately (observe_at get_col_feat)",
     "key wrong-col-feat:* (return_stype=True and the plain form)", "read_cols on every result"),
    ("reported length = number selected, zero included", "keys wrong-len:*, props-wrong (len, num_rows, is_empty)",
     "empty selections, chains through empty frames, zero-row frames"),
    ("a slice that overshoots the end behaves like the list slice", "keys wrong-len:*, wrong-rows:*, raises:*",
     "overshooting slices (gen_chain), exhaustive bounds in the thorough tier"),
    ("the source frame is left unchanged", "keys source-modified, index-argument-modified",
     "deep snapshot of the frame and of the index object around every step; shared index objects"),
    ("RAISES backed by the statement: no-raise:int|list|tensor|range (out-of-range entry: the result cannot 'contain exactly "
     "the selected rows ... agreeing with selecting from each column separately'), no-raise:featureless ('reported length "
     "equals the number of selected rows'); raises:* (a valid selection must RETURN); NOT backed, relaxed to raise-or-"
     "coherent: wrong-length mask, slice step <= 0", "keys no-raise:*, raises:*", "bad stream of gen_index, boundary stream"),
    ("quantifier: explicit num_rows and no features; chains of selections",
     "keys no-raise:featureless, wrong-len:featureless:*", "feature-less frames, chains of 1-4 steps"),
    ("quantifier: all TensorFrames -- however constructed / handed over",
     "same keys", "constructor call forms pos/kw/allpos/defaults; frames passed through copy.copy, .to('cpu'), .cpu(), "
     ".to(device=...) before the chain"),
]

import itertools
import json

from harness import common as C
from harness import frames as F
from harness import ragged as R

PROP = "C07"
HEADER = "Require Import PF.Lib.PySlice PF.Model.Ragged PF.Model.RaggedRun PF.Model.Frame PF.Model.FrameRun PF.Gen.Tables."
MODEL_TARGETS = ["Model/FrameRun.vo"]
SHARD = 120
RULE = ("TensorFrames over random subsets of the nine stypes (dense / MultiNestedTensor / MultiEmbeddingTensor / "
        "dict of MultiNestedTensor storage), with or without y, with or without explicit num_rows, feature-less "
        "frames included, every scalar carrying the id of its row; chains of 1-4 row index expressions (int, slice, "
        "list, range, LongTensor, BoolTensor); distinct = distinct (storage kinds, has-y, explicit num_rows, number of "
        "rows, sequence of (index kind, ok/err, result length)); non-trivial = at least one step selected a non-empty "
        "result from a frame with columns or y, or raised as the list selection does")
TRUSTED = [
    "Coq 8.16.1 kernel + vm_compute (no native_compute)",
    "hand-written model coq/Model/Frame.v of tensor_frame.py (+ Model/Ragged.v for the ragged columns), tied to /repo "
    "by this run's observational correspondence",
    "modelled primitive: torch dense indexing x[index] along dim 0 = Python-list positions (Lib/PySlice.v "
    "py_positions), validated against torch by every case of this run",
    "the ragged columns use the C05 refinement lemmas (Proofs/MntProofs.v mnt_select_refines_proof, Proofs/MetProofs.v "
    "met_select_refines_proof) -- no section hypothesis is left; the theorem statement itself is additionally evaluated "
    "on every correspondence case (c07_stmt)",
    "chain law (Props/C07.v getitem_chain_composes): its executable form c07_compose_check compares the frame the "
    "implementation returned at the end of every chain with ONE selection of the composed positions on the model",
    "store model coq/Model/FrameStore.v of _normalize_index (clone, then in-place +=): its executable form "
    "c07_index_store_check is compared with the content of the caller's index tensor after every selection",
    "every index object passed to a selection is snapshotted and must be unchanged afterwards; one index object is "
    "reused across the steps of a chain and across two frames (shared_index cases)",
    "harness/c07.py + harness/frames.py + harness/ragged.py (generator, per-column nested-list oracle, Coq printer)",
]
ASSUMPTIONS = [
    "raises are demanded only where the statement forces them: an out-of-range integer / list / range / tensor entry "
    "cannot 'contain exactly the selected rows' (also on feature-less frames: 'reported length equals the number of "
    "selected rows'); a boolean mask of the wrong length and a slice with a non-positive step are 'raise or consistent': "
    "the current code raises, the oracle accepts a raise or any frame that is coherent across stypes and the target, and "
    "the Coq term is not compared when the implementation returned normally there",
    "index expressions are those the property lists and IndexSelectType declares: int, slice, list of ints, range, "
    "1-D integer (long) index tensor, 1-D bool mask tensor.  A Python LIST of bools, a uint8 tensor and a 0-dim index "
    "tensor are outside the quantifier (torch reads a bool list / uint8 tensor as a mask on dense tensors while the "
    "ragged containers read it as integer indices; a 0-dim tensor drops the row axis of dense tensors): they are not "
    "generated and not judged",
    "'the source frame is left unchanged' is observed (deep snapshot before/after every selection), not proved; "
    "storage aliasing (views) and device placement are outside the pure model",
    "scalars are opaque payloads (moved, never computed on)",
    "a TensorFrame({}, {}) with no feature, no target and no explicit num_rows has nothing to index: it answers every "
    "index expression with itself; the oracle only requires length 0 there",
]


# ------------------------------------------------------------------ generation
def near_arange_index(rng, n):
    """a list / tensor whose first entry is its minimum, whose last is its maximum and whose span equals its length --
    but which is NOT an arange: interior entries shuffled or duplicated (a 'contiguous run' fast path must not take it)"""
    L = rng.randint(3, max(3, n))
    if n < 3:
        return {"t": rng.pick(["list", "tensor"]), "l": [0, 0, n - 1][:max(n, 1) + 1] if n else []}
    a = rng.randint(0, n - L)
    run = list(range(a, a + L))
    mid = run[1:-1]
    if len(mid) >= 2 and rng.chance(0.6):
        i, j = rng.sample(range(len(mid)), 2)
        mid[i], mid[j] = mid[j], mid[i]
    else:
        mid[rng.randint(0, len(mid) - 1)] = rng.pick(run)
    out = [run[0]] + mid + [run[-1]]
    if rng.chance(0.3):
        out = [x - n for x in out]
    return {"t": rng.pick(["list", "tensor"]), "l": out, "near_arange": True}


def gen_chain(rng, n, clean_p=0.78, explicit=False):
    chain = []
    L = rng.wpick([(4, 1), (4, 2), (2, 3), (1, 4)])
    cur = n
    for _ in range(L):
        clean = rng.chance(clean_p)
        ix = R.gen_index(rng, cur, allow_bad=not clean)
        if rng.chance(0.12) and cur > 0:
            # the overshooting slice of a manual batching loop
            a = rng.randint(0, cur)
            ix = {"t": "slice", "a": a, "b": a + rng.randint(1, cur + 3), "s": None}
        if rng.chance(0.08) and cur > 0:
            # a range enumerates its literal integers: negative ones wrap as row indices (it is NOT a slice)
            if rng.chance(0.7):
                a = rng.randint(-cur, -1)
                ix = {"t": "range", "a": a, "b": rng.randint(a + 1, cur), "s": rng.pick([1, 1, 2])}
            else:
                a = rng.randint(0, cur - 1)
                ix = {"t": "range", "a": a, "b": rng.randint(-cur - 1, a - 1), "s": rng.pick([-1, -1, -2])}
        if rng.chance(0.12):
            ix = boundary_index(rng, cur)
        if rng.chance(0.06) and cur >= 3:
            ix = near_arange_index(rng, cur)
        if explicit and rng.chance(0.3):
            # stepped slices on frames with an explicit row count: spans divisible and not divisible by the step
            a = rng.pick([None, 0, rng.randint(0, max(cur, 1)), -rng.randint(1, cur + 1)])
            b = rng.pick([None, cur, cur + 1, rng.randint(0, cur + 1), -rng.randint(1, cur + 1)])
            ix = {"t": "slice", "a": a, "b": b, "s": rng.pick([2, 3]), "stepped_explicit": True}
        chain.append(ix)
        try:
            cur = len(R.ref_positions(ix, cur))
        except R.RefErr:
            break
    return chain


def boundary_index(rng, n):
    """index expressions AT the boundaries of the row axis: first / last / one-past row, the whole axis, nothing, a
    single True in a mask, slices that end exactly at / one past the end"""
    opts = [
        {"t": "int", "i": -n}, {"t": "int", "i": n - 1}, {"t": "int", "i": n}, {"t": "int", "i": -n - 1},
        {"t": "slice", "a": 0, "b": n, "s": None}, {"t": "slice", "a": None, "b": n + 1, "s": None},
        {"t": "slice", "a": n, "b": None, "s": None}, {"t": "slice", "a": n - 1, "b": n, "s": 1}, {"t": "slice", "a": -1, "b": None, "s": None},
        {"t": "slice", "a": -n, "b": None, "s": 2}, {"t": "slice", "a": 0, "b": 0, "s": None},
        {"t": "list", "l": [-n, n - 1]}, {"t": "tensor", "l": [n - 1, -n]}, {"t": "list", "l": [n]}, {"t": "tensor", "l": [-n - 1]},
        {"t": "list", "l": list(range(n))}, {"t": "tensor", "l": list(range(n - 1, -1, -1))}, {"t": "list", "l": []}, {"t": "tensor", "l": []},
        {"t": "range", "a": 0, "b": n, "s": 1}, {"t": "range", "a": n - 1, "b": -1, "s": -1}, {"t": "range", "a": 0, "b": n + 1, "s": 1},
        {"t": "range", "a": -n, "b": 0, "s": 1}, {"t": "range", "a": 0, "b": 0, "s": 1},
        {"t": "mask", "m": [True] * n}, {"t": "mask", "m": [False] * n},
        {"t": "mask", "m": [i == n - 1 for i in range(n)]}, {"t": "mask", "m": [i == 0 for i in range(n)]},
        {"t": "mask", "m": [True] * (n + 1)},
    ]
    ix = dict(rng.pick(opts))
    ix["boundary"] = True
    return ix


def gen_case(rng, tier):
    if rng.chance(0.02):
        fr = {"n": 0, "feats": [], "y": None, "ydtype": "float", "num_rows": None}
    elif rng.chance(0.04):
        # zero-row frame with dense columns only (ragged containers cannot be constructed with zero rows)
        fr = F.gen_frame(rng, n=1)
        fr["feats"] = [f for f in fr["feats"] if f["kind"] == "dense"]
        for f in fr["feats"]:
            f["cells"] = []
        fr["n"] = 0
        fr["y"] = None if fr["y"] is None else []
        if not fr["feats"] or fr["num_rows"] is not None:
            fr["num_rows"] = 0
    else:
        fr = F.gen_frame(rng)
    fr["ctor"] = rng.pick(F.CTORS)
    if fr["n"] > 0 and rng.chance(0.12):
        case = gen_shared_index_case(rng, fr)
    else:
        case = {"frame": fr, "chain": gen_chain(rng, fr["n"], explicit=fr["num_rows"] is not None)}
    case["via"] = rng.wpick([(5, None), (2, "copy"), (1, "to"), (1, "cpu"), (1, "to_kw")])
    case["call"] = rng.wpick([(4, "[]"), (1, "dunder")])
    if not case.get("shared_index"):
        # every representation torch offers for an index tensor / mask
        case["chain"] = [dict(ix, **({"dtype": "int32"} if ix["t"] == "tensor" and rng.chance(0.3) else {}),
                              **({"nc": True} if ix["t"] in ("tensor", "mask") and rng.chance(0.25) else {}))
                         for ix in case["chain"]]
    return case


def gen_shared_index_case(rng, fr):
    """ONE index object (tensor or list, mostly negative entries) used for several selections: a chain tf[idx][idx]..
    and / or the same object applied to a second frame afterwards.  The objects of equal JSON are shared in run()."""
    n = fr["n"]
    mode = rng.wpick([(3, "chain"), (3, "two-frames"), (2, "both")])
    kind = rng.pick(["tensor", "tensor", "list"])
    case = {"frame": fr, "shared_index": True}
    if mode in ("chain", "both"):
        L = n + rng.randint(0, 2)                       # at least n entries, so the index stays valid on its own result
        ix = {"t": kind, "l": [rng.randint(-n, -1) if rng.chance(0.8) else rng.randint(0, n - 1) for _ in range(L)]}
        case["chain"] = [ix] * rng.randint(2, 3)
    else:
        L = rng.randint(1, n + 1)
        ix = {"t": kind, "l": [rng.randint(-n, -1) if rng.chance(0.85) else rng.randint(0, n - 1) for _ in range(L)]}
        case["chain"] = [ix]
    if mode in ("two-frames", "both"):
        lo = max(-min(ix["l"]), max(ix["l"]) + 1, 1)    # smallest row count on which every entry is in range
        n2 = lo + rng.randint(0, 2) if rng.chance(0.85) else max(lo - 1, 1)
        fr2 = F.gen_frame(rng, n=n2, featureless_p=0.0)
        case["second"] = fr2
    return case


def exhaustive(rng):
    """all index expressions with bounds in [-n-2, n+2] on three small frames (thorough tier)"""
    out = []
    for n in (1, 2, 3):
        frs = [F.gen_frame(rng, n=n, featureless_p=0.0, min_feats=3, max_feats=4),
               F.gen_frame(rng, n=n, featureless_p=1.0)]
        rv = list(range(-n - 2, n + 3))
        idxs = [{"t": "int", "i": i} for i in rv]
        for a, b in itertools.product([None] + rv, repeat=2):
            for s in (None, 1, 2, 0, -1):
                idxs.append({"t": "slice", "a": a, "b": b, "s": s})
        for l in itertools.chain.from_iterable(itertools.product(rv, repeat=k) for k in range(0, 3)):
            idxs.append({"t": "tensor", "l": list(l)})
            idxs.append({"t": "list", "l": list(l)})
        for m in itertools.chain.from_iterable(itertools.product([False, True], repeat=k) for k in (n - 1, n, n + 1)):
            idxs.append({"t": "mask", "m": list(m)})
        for a, b in itertools.product(rv, repeat=2):
            for s in (1, 2, -1):
                idxs.append({"t": "range", "a": a, "b": b, "s": s})
        for fr in frs:
            for ix in idxs:
                out.append({"frame": fr, "chain": [ix]})
    return out


REQUIRED_SEED = 7070707
_REQUIRED = None


def required_stream():
    """deterministic greedy cover of every requirement of sanity() (constant seed; prepended in both tiers)"""
    global _REQUIRED
    if _REQUIRED is None:
        kept, left = F.greedy_required(lambda r: gen_case(r, "quick"), run, stats, problems, [], REQUIRED_SEED)
        _REQUIRED = [dict(c, required=True) for c in kept]
    return [dict(c) for c in _REQUIRED]


def write_required():
    """(re)write corpus/C07/req_*.json: the greedy cover is computed once (it needs ~1000 implementation runs) and kept
    as corpus cases, which ./check runs first under every seed and tier.  Run after changing the generator:
    PYTHONPATH=/repo PYTHONHASHSEED=0 /venv/bin/python -c "from harness import c07; c07.write_required()" """
    import os
    d = os.path.join(C.CORPUS, PROP)
    os.makedirs(d, exist_ok=True)
    for fn in os.listdir(d):
        if fn.startswith("req_"):
            os.remove(os.path.join(d, fn))
    for k, c in enumerate(required_stream()):
        with open(os.path.join(d, f"req_{k:03d}.json"), "w") as f:
            json.dump(c, f)


def generate(rng, tier):
    n = 740 if tier == "quick" else 20000
    cases = [gen_case(rng, tier) for _ in range(n)]
    if tier == "thorough":
        cases += exhaustive(rng)
    return cases


def extra(tier, rng):
    """The modelled primitive, validated directly: torch indexing x[index] along dim 0 of a dense tensor (2-D features,
    1-D target, and the (n, 1) dummy of __getitem__) against the positions the same index picks from a Python list --
    every index expression with bounds in [-n-2, n+2] for n <= 3 (quick) / n <= 4 (thorough)."""
    import torch
    fails, count = [], 0
    for n in range(0, 4 if tier == "quick" else 5):
        rv = list(range(-n - 2, n + 3))
        idxs = []
        for a, b in itertools.product([None] + rv, repeat=2):
            for s in (None, 1, 2, 3, 0, -1):
                idxs.append({"t": "slice", "a": a, "b": b, "s": s})
        for l in itertools.chain.from_iterable(itertools.product(rv, repeat=k) for k in range(0, 3)):
            idxs.append({"t": "tensor", "l": list(l)})
            idxs.append({"t": "list", "l": list(l)})
        for m in itertools.chain.from_iterable(itertools.product([False, True], repeat=k) for k in (max(n - 1, 0), n, n + 1)):
            idxs.append({"t": "mask", "m": list(m)})
        for a, b in itertools.product(rv, repeat=2):
            for s in (1, 2, -1, -2):
                idxs.append({"t": "range", "a": a, "b": b, "s": s})
        tensors = {"2d": torch.arange(n * 2).reshape(n, 2), "1d": torch.arange(n), "dummy": torch.empty((n, 1))}
        for ix in idxs:
            try:
                want = R.ref_positions(ix, n)
            except R.RefErr:
                want = None
            for name, x in tensors.items():
                count += 1
                try:
                    r = x[R.to_py_index(ix)]
                    got = r.size(0) if name == "dummy" else (r[:, 0] // 2 if name == "2d" else r).tolist()
                except Exception:
                    got = None
                exp = want if name != "dummy" or want is None else len(want)
                if got != exp:
                    fails.append(dict(key="primitive:torch-index", case=None,
                                      what=f"torch {name} tensor of {n} rows indexed with {ix} gives {got}, the Python "
                                           f"list semantics the model assumes give {exp}",
                                      expected=exp, observed=got))
    return fails[:3], {"torch_index_primitive_checks": count}


# ------------------------------------------------------------ implementation
def read_cols(tf):
    out = []
    for s, names in tf.col_names_dict.items():
        for nm in names:
            try:
                x, st = tf.get_col_feat(nm, return_stype=True)
                if F.read_feat(tf.get_col_feat(nm)) != F.read_feat(x):
                    out.append([nm, None, "get_col_feat(name) and get_col_feat(name, return_stype=True) differ"])
                    continue
                out.append([nm, st.value, F.read_feat(x)])
            except Exception as ex:
                out.append([nm, None, C.exc_name(ex)])
    return out


def index_snapshot(obj):
    import torch
    if isinstance(obj, torch.Tensor):
        return ("tensor", str(obj.dtype), obj.tolist())
    if isinstance(obj, list):
        return ("list", list(obj))
    return ("other", repr(obj))


def select_step(tf, obj, call="[]"):
    """tf[obj] with the frame AND the index argument snapshotted before and compared after"""
    snap, isnap = F.deep_snapshot(tf), index_snapshot(obj)
    try:
        r = tf[obj] if call == "[]" else tf.__getitem__(obj)
    except Exception as ex:
        return None, {"ok": False, "exc": C.exc_name(ex), "src_same": F.deep_snapshot(tf) == snap,
                      "index_same": index_snapshot(obj) == isnap, "index_after": index_snapshot(obj)[-1]}
    rec = {"ok": True, "src_same": F.deep_snapshot(tf) == snap, "index_same": index_snapshot(obj) == isnap,
           "index_after": index_snapshot(obj)[-1]}
    try:
        rec["frame"] = F.read_frame(r)
        rec["cols"] = read_cols(r)
        rec["props"] = F.read_props(r)
        rec["is_tf"] = type(r).__name__
    except Exception as ex:
        rec["read_exc"] = C.exc_name(ex) + ": " + str(ex)[:200]
    return r, rec


def run(case):
    tf = F.via(F.build_frame(case["frame"]), case.get("via"))
    obs = {"start": F.read_frame(tf), "start_props": F.read_props(tf), "steps": []}
    shared = {}

    def index_object(ix):
        if not case.get("shared_index"):
            return F.to_index_obj(ix)
        key = json.dumps(ix, sort_keys=True)
        if key not in shared:
            shared[key] = F.to_index_obj(ix)              # built once, the SAME object is passed again later
        return shared[key]

    for ix in case["chain"]:
        r, rec = select_step(tf, index_object(ix), case.get("call", "[]"))
        obs["steps"].append(rec)
        if r is None:
            break
        tf = r
    if case.get("second") is not None:
        tf2 = F.build_frame(case["second"])
        obs["second_start"] = F.read_frame(tf2)
        _, obs["second"] = select_step(tf2, index_object(case["chain"][0]))
    return obs


# ------------------------------------------------------------------- oracle
def kinds_of(fr):
    ks = sorted({f["kind"] for f in fr["feats"]})
    return "+".join(ks) if ks else ("featureless" if fr["num_rows"] is not None or fr["y"] is not None else "empty")


def ref_col(o, name):
    for s, names in o["names"]:
        if name in names:
            j = names.index(name)
            f = dict(o["feats"])[s]
            comps = [[k, n, 1, [[row[j]] for row in m]] for k, n, c, m in f["comps"]]
            return s, dict(f, comps=comps)
    return None, None


def check_rids(o, rids):
    """coherence observed directly: row i of every feature of every stype and y carries the id of the same original row"""
    for s, f in o["feats"]:
        for k, n, c, m in f["comps"]:
            if n != len(rids) or len(m) != len(rids):
                return f"{s}{'/' + k if k else ''} has {n} rows, {len(rids)} were selected"
            for i, row in enumerate(m):
                for cell in row:
                    for x in cell:
                        r = F.rid_of(x)
                        if r is not None and r != rids[i]:
                            return f"{s}{'/' + k if k else ''} row {i} holds data of original row {r}, expected row {rids[i]}"
    if o["y"] is not None:
        if len(o["y"]) != len(rids):
            return f"y has {len(o['y'])} rows, {len(rids)} were selected"
        for i, x in enumerate(o["y"]):
            r = F.rid_of(x)
            if r is not None and r != rids[i]:
                return f"y row {i} holds the target of original row {r}, expected row {rids[i]}"
    return None


# index expressions on which the current code raises but for which the statement demands nothing ("raise or consistent")
UNBACKED_RAISES = ("mask length", "non-positive step")


def coherent_any(g):
    """a returned frame whose expected rows are undefined must still be ONE set of rows: every feature of every stype and
    the target have len(frame) rows and row i carries the id of one original row everywhere; names are a dict of lists"""
    if "read_exc" in g:
        return "the result cannot be read: " + g["read_exc"]
    got = g["frame"]
    n = got["len"]
    ids = [set() for _ in range(n)]
    for s_, f in got["feats"]:
        for key, nr, c, m in f["comps"]:
            if nr != n or len(m) != n:
                return f"{s_} has {nr} rows, the frame reports {n}"
            for i, row in enumerate(m):
                for cell in row:
                    for x in cell:
                        if F.rid_of(x) is not None:
                            ids[i].add(F.rid_of(x))
    if got["y"] is not None:
        if len(got["y"]) != n:
            return f"y has {len(got['y'])} rows, the frame reports {n}"
        for i, x in enumerate(got["y"]):
            if F.rid_of(x) is not None:
                ids[i].add(F.rid_of(x))
    for i, st in enumerate(ids):
        if len(st) > 1:
            return f"row {i} mixes data of original rows {sorted(st)}"
    return None


def judge_step(k, ix, g, ref, rids, kd, where=""):
    """one selection against the per-column nested-list reference; returns (failure | None, new ref, new rids)"""
    if not g.get("src_same", True):
        return dict(key="source-modified", what=f"step {k}{where} ({ix['t']}) modified the frame it selected from"), ref, rids
    if not g.get("index_same", True):
        return dict(key="index-argument-modified",
                    what=f"step {k}{where}: tf[idx] rewrote the caller's index object in place: {ix['l'] if 'l' in ix else ix} "
                         f"became {g.get('index_after')}", expected=ix, observed=g.get("index_after")), ref, rids
    try:
        exp = F.ref_select(ref, ix)
        pos = R.ref_positions(ix if ix["t"] != "int" else {"t": "list", "l": [ix["i"]]}, ref["len"])
    except R.RefErr as ex:
        if g["ok"] and str(ex) in UNBACKED_RAISES:
            # the statement does not say what such an index selects: a raise OR any frame that is coherent across
            # stypes and the target is accepted; nothing further is judged on this chain
            bad = coherent_any(g)
            if bad:
                return dict(key=f"incoherent-rows:{kd}:{ix['t']}", what=f"step {k}{where}: tf[{ix}] ({ex}) returned a "
                            f"frame that is not coherent: {bad}", observed=g.get("frame")), ref, rids
            return None, None, rids
        if g["ok"]:
            if kd == "empty":
                if g.get("frame", {}).get("len") != 0:
                    return dict(key="empty-frame-len", what="selection from the empty frame reports rows", observed=g), ref, rids
                return None, None, rids
            return dict(key=f"no-raise:{'featureless' if kd == 'featureless' else ix['t']}",
                        what=f"step {k}{where}: tf[{ix}] returned a frame of {g.get('frame', {}).get('len')} rows from a "
                             f"frame of {ref['len']} rows where the same selection on a list of rows raises ({ex})",
                        expected="raise", observed=g), ref, rids
        return None, None, rids
    if not g["ok"]:
        return dict(key=f"raises:{kd}:{ix['t']}",
                    what=f"step {k}{where}: tf[{ix}] raised {g.get('exc')} on a frame of {ref['len']} rows "
                         f"({kd}); the list selection gives rows {pos}", expected=exp, observed=g), ref, rids
    if "read_exc" in g:
        return dict(key=f"unreadable:{kd}:{ix['t']}", what=f"step {k}{where}: result cannot be read ({g['read_exc']})",
                    expected=exp, observed=g), ref, rids
    got = g["frame"]
    rids = [rids[i] for i in pos]
    if got["len"] != len(pos):
        return dict(key=f"wrong-len:{kd}:{ix['t']}",
                    what=f"step {k}{where}: len(tf[{ix}]) = {got['len']} but {len(pos)} rows are selected",
                    expected=exp, observed=got), ref, rids
    bad = check_rids(got, rids)
    if bad:
        return dict(key=f"incoherent-rows:{kd}:{ix['t']}", what=f"step {k}{where}: tf[{ix}]: {bad}",
                    expected=exp, observed=got), ref, rids
    if F.canon_obs(got)["names"] != F.canon_obs(exp)["names"]:
        return dict(key="names-changed", what=f"step {k}{where}: column names changed by a row selection",
                    expected=exp["names"], observed=got["names"]), ref, rids
    if not F.obs_same(got, exp):
        return dict(key=f"wrong-rows:{kd}:{ix['t']}",
                    what=f"step {k}{where}: tf[{ix}] differs from selecting rows {pos} from every column separately",
                    expected=exp, observed=got), ref, rids
    if g.get("is_tf") != "TensorFrame":
        return dict(key="wrong-type", what=f"step {k}{where}: result is a {g.get('is_tf')}"), ref, rids
    if g.get("props") != F.ref_props(exp):
        return dict(key="props-wrong", what=f"step {k}{where}: num_rows / num_cols / stypes / is_empty / len of tf[{ix}] "
                    "do not describe the selected frame", expected=F.ref_props(exp), observed=g.get("props")), ref, rids
    for nm, st, colobs in g["cols"]:
        es, ecol = ref_col(exp, nm)
        if st != es or colobs != ecol:
            return dict(key=f"wrong-col-feat:{kd}", what=f"step {k}{where}: tf[{ix}].get_col_feat({nm!r}) is not that "
                        f"column of the selected rows", expected=[es, ecol], observed=[st, colobs]), ref, rids
    return None, exp, rids


def oracle(case, obs):
    if "harness_exc" in obs:
        return dict(key="harness-exc", what="harness failed to run the case: " + obs["harness_exc"], tb=obs.get("tb"))
    fr = case["frame"]
    kd = kinds_of(fr)
    ref = F.ref_of_desc(fr)
    if not F.obs_same(obs["start"], ref):
        return dict(key="build-mismatch", what="the frame read back differs from the data it was built from",
                    expected=ref, observed=obs["start"])
    if obs.get("start_props") != F.ref_props(ref):
        return dict(key="props-wrong", what="num_rows / num_cols / stypes / is_empty / len do not describe the frame",
                    expected=F.ref_props(ref), observed=obs.get("start_props"))
    rids = list(range(fr["n"]))
    steps = obs["steps"]
    for k, ix in enumerate(case["chain"]):
        if k >= len(steps):
            return dict(key="short-run", what="implementation run stopped early", observed=steps)
        f, ref, rids = judge_step(k, ix, steps[k], ref, rids, kd)
        if f is not None:
            return f
        if ref is None:
            break
    if case.get("second") is not None and "second" in obs:
        fr2 = case["second"]
        ref2 = F.ref_of_desc(fr2)
        if not F.obs_same(obs["second_start"], ref2):
            return dict(key="build-mismatch", what="the second frame read back differs from its description")
        f, _, _ = judge_step(0, case["chain"][0], obs["second"], ref2, list(range(fr2["n"])), kinds_of(fr2),
                             where=" (the same index object, applied to a second frame afterwards)")
        if f is not None:
            return f
    return None


def shrink(case):
    ch = case["chain"]
    for k in range(len(ch)):
        if len(ch) > 1:
            yield dict(case, chain=ch[:k] + ch[k + 1:])
    fr = case["frame"]
    for k in range(len(fr["feats"])):
        if len(fr["feats"]) > 1:
            yield dict(case, frame=dict(fr, feats=fr["feats"][:k] + fr["feats"][k + 1:]))
    if fr["y"] is not None and fr["feats"]:
        yield dict(case, frame=dict(fr, y=None))
    if fr["num_rows"] is not None and fr["feats"]:
        yield dict(case, frame=dict(fr, num_rows=None))
    # drop the last row when no index of the chain can notice
    n = fr["n"]
    if n > 1:
        def cut(f):
            if f["kind"] == "dict":
                return dict(f, comps={k: m[:-1] for k, m in f["comps"].items()})
            return dict(f, cells=f["cells"][:-1])
        yield dict(case, frame=dict(fr, n=n - 1, feats=[cut(f) for f in fr["feats"]],
                                    y=None if fr["y"] is None else fr["y"][:-1],
                                    num_rows=None if fr["num_rows"] is None else n - 1))
    for f_i, f in enumerate(fr["feats"]):
        if len(f["names"]) > 1 and f["kind"] != "dict":
            g = dict(f, names=f["names"][:-1], cells=[row[:-1] for row in f["cells"]])
            yield dict(case, frame=dict(fr, feats=fr["feats"][:f_i] + [g] + fr["feats"][f_i + 1:]))


def nontrivial_sig(case, obs):
    steps = obs.get("steps", [])
    if not steps:
        return None
    fr = case["frame"]
    has_data = bool(fr["feats"]) or fr["y"] is not None
    nontriv = any((s["ok"] and has_data and s.get("frame", {}).get("len", 0) > 0) or not s["ok"] for s in steps)
    if not nontriv:
        return None
    sig = [sorted(f["kind"] for f in fr["feats"]), fr["y"] is not None, fr["num_rows"] is not None, fr["n"]]
    for ix, s in zip(case["chain"], steps):
        sig.append((ix["t"], s["ok"], s.get("frame", {}).get("len")))
    return json.dumps(sig)


def stats(cases, obss):
    d = {"total": 0, "kinds": {}, "stypes": {}, "with_y": 0, "explicit_num_rows": 0, "featureless": 0, "rows": {},
         "index_kinds": {}, "chain_len": {}, "error_cases": 0, "through_empty": 0, "overshooting_slices": 0,
         "shared_index_cases": 0, "second_frame_cases": 0, "ctor_forms": {}, "via": {}, "call": {},
         "index_repr": {"int32": 0, "strided": 0, "int64-contiguous": 0}, "wrapping_ranges": 0,
         "near_arange_indices": 0, "stepped_slices_explicit_num_rows": 0, "boundary_indices": 0, "single_true_masks": 0, "one_row_frames_selected": 0, "single_column_stypes": 0}
    for c, o in zip(cases, obss):
        if c is None or not isinstance(o, dict):
            continue
        fr = c["frame"]
        d["total"] += 1
        for f in fr["feats"]:
            d["kinds"][f["kind"]] = d["kinds"].get(f["kind"], 0) + 1
            d["stypes"][f["stype"]] = d["stypes"].get(f["stype"], 0) + 1
        d["with_y"] += fr["y"] is not None
        d["shared_index_cases"] += bool(c.get("shared_index"))
        for k, v in (("ctor_forms", fr.get("ctor", "pos")), ("via", str(c.get("via"))), ("call", c.get("call", "[]"))):
            d[k][v] = d[k].get(v, 0) + 1
        d["one_row_frames_selected"] += fr["n"] == 1 and bool(c["chain"])
        d["single_column_stypes"] += any(len(f["names"]) == 1 for f in fr["feats"])
        for ix in c["chain"]:
            d["boundary_indices"] += bool(ix.get("boundary"))
            d["near_arange_indices"] += bool(ix.get("near_arange"))
            d["stepped_slices_explicit_num_rows"] += bool(ix.get("stepped_explicit"))
            d["single_true_masks"] += ix["t"] == "mask" and sum(ix["m"]) == 1
            if ix["t"] == "range":
                ents = list(range(ix["a"], ix["b"], ix["s"]))
                d["wrapping_ranges"] += bool(ents) and min(ents) < 0 <= max(ents)
            if ix["t"] in ("tensor", "mask"):
                d["index_repr"]["int32"] += ix.get("dtype") == "int32"
                d["index_repr"]["strided"] += bool(ix.get("nc"))
                d["index_repr"]["int64-contiguous"] += not ix.get("nc") and ix.get("dtype") != "int32"
        d["second_frame_cases"] += c.get("second") is not None
        d["explicit_num_rows"] += fr["num_rows"] is not None
        d["featureless"] += not fr["feats"]
        d["rows"][fr["n"]] = d["rows"].get(fr["n"], 0) + 1
        d["chain_len"][len(c["chain"])] = d["chain_len"].get(len(c["chain"]), 0) + 1
        n = fr["n"]
        for ix, s in zip(c["chain"], o.get("steps", [])):
            d["index_kinds"][ix["t"]] = d["index_kinds"].get(ix["t"], 0) + 1
            if ix["t"] == "slice" and ix["b"] is not None and ix["b"] > n and s["ok"]:
                d["overshooting_slices"] += 1
            if s["ok"] and "frame" in s:
                n = s["frame"]["len"]
        steps = o.get("steps", [])
        d["error_cases"] += any(not s["ok"] for s in steps)
        d["through_empty"] += any(s["ok"] and s.get("frame", {}).get("len") == 0 for s in steps[:-1])
    return d


def sanity(cases, obss):
    """Fail-closed distribution check (DESIGN 3.5).  Every requirement is met by the deterministic required_stream()
    alone (checked here too), so that the run's seed only drives the additional random stream."""
    req = [(c, o) for c, o in zip(cases, obss) if isinstance(c, dict) and c.get("required")]
    probs = problems(stats(cases, obss))
    if req:
        probs += ["required stream alone: " + p_ for p_ in problems(stats([c for c, _ in req], [o for _, o in req]))]
    else:
        probs.append("the deterministic required stream is missing")
    return probs


def problems(d):
    probs = []
    if not d["total"]:
        return ["no case was run"]
    if d["error_cases"] > 0.6 * d["total"]:
        probs.append(f"{d['error_cases']} of {d['total']} chains end in an error")
    for k in ("int", "slice", "list", "range", "tensor", "mask"):
        if d["index_kinds"].get(k, 0) == 0:
            probs.append(f"index kind {k} never drawn")
    for k in ("dense", "mnt", "met", "dict"):
        if d["kinds"].get(k, 0) == 0:
            probs.append(f"storage kind {k} never drawn")
    for st in F.STYPES:
        if d["stypes"].get(st, 0) == 0:
            probs.append(f"stype {st} never drawn")
    for k, what in (("with_y", "no frame with a target"), ("explicit_num_rows", "no frame with explicit num_rows"),
                    ("featureless", "no feature-less frame"), ("through_empty", "no chain passes through an empty frame"),
                    ("overshooting_slices", "no overshooting slice"),
                    ("shared_index_cases", "no case reuses one index object"),
                    ("wrapping_ranges", "no range running from negative to non-negative entries"),
                    ("boundary_indices", "no index expression at a boundary of the row axis"),
                    ("near_arange_indices", "no shuffled / duplicated index with the span of a contiguous run"),
                    ("stepped_slices_explicit_num_rows", "no stepped slice on a frame with explicit num_rows"),
                    ("single_true_masks", "no mask with exactly one True"),
                    ("one_row_frames_selected", "no selection from a one-row frame"),
                    ("single_column_stypes", "no stype with a single column"),
                    ("second_frame_cases", "no index object applied to a second frame")):
        if d[k] == 0:
            probs.append(what)
    if d["with_y"] == d["total"]:
        probs.append("no frame without a target")
    for k, forms in (("ctor_forms", F.CTORS), ("via", [str(v) for v in F.VIAS]), ("call", ["[]", "dunder"]),
                     ("index_repr", ["int32", "strided", "int64-contiguous"])):
        for f_ in forms:
            if d[k].get(f_, 0) == 0:
                probs.append(f"{k} form {f_} never drawn")
    if not any(int(k) >= 2 for k in d["chain_len"]):
        probs.append("no chain of two or more selections")
    return probs


# ------------------------------------------------------------------ Coq side
def coq_term(case, obs):
    if "steps" not in obs or any("read_exc" in s for s in obs["steps"]):
        return None
    expr = F.coq_frame(case["frame"])
    steps = list(obs["steps"])
    n_ = obs["start"]["len"]
    for k_, (ix, st) in enumerate(zip(case["chain"], steps)):
        try:
            R.ref_positions(ix if ix["t"] != "int" else {"t": "list", "l": [ix["i"]]}, n_)
        except R.RefErr as ex:
            if st["ok"] and str(ex) in UNBACKED_RAISES:
                steps = steps[:k_]          # the model mirrors the current raise: not compared where the code returned normally
            break
        if not st["ok"] or "frame" not in st:
            break
        n_ = st["frame"]["len"]
    chain = C.clist(case["chain"][:len(steps)], R.coq_index)
    o = C.clist([obs["start"]] + [s.get("frame") if s["ok"] else None for s in steps], F.coq_obs)
    term = f"(c07_check {expr} {chain} {o} && c07_stmt {expr} {chain})"
    # executable form of Props/C07.v getitem_chain_composes: the END of the chain = one selection of the composed positions
    full = obs["steps"]
    if len(steps) == len(full) and full and (len(full) == len(case["chain"]) or not full[-1]["ok"]):
        used = C.clist(case["chain"][:len(full)], R.coq_index)
        final = F.coq_obs(full[-1].get("frame") if full[-1]["ok"] else None)
        term = f"({term} && c07_compose_check {expr} {used} {final})"
    # executable form of Props/C07.v getitem_leaves_caller_index: the store model's content of the caller's index
    # tensor after the selection = what the implementation left in it
    containers = sum(len(f["keys"]) if f["kind"] == "dict" else (1 if f["kind"] in ("mnt", "met") else 0)
                     for f in case["frame"]["feats"])
    n = obs["start"]["len"]
    for ix, st in zip(case["chain"], steps):
        if ix["t"] == "tensor" and isinstance(st.get("index_after"), list):
            term = (f"({term} && c07_index_store_check {C.clist(ix['l'], C.cz)} {containers}%nat {n}%nat "
                    f"{C.clist(st['index_after'], C.cz)})")
        if st["ok"] and "frame" in st:
            n = st["frame"]["len"]
    if case.get("second") is not None and "second" in obs and "read_exc" not in obs["second"]:
        e2 = F.coq_frame(case["second"])
        c2 = C.clist([case["chain"][0]], R.coq_index)
        o2 = C.clist([obs["second_start"], obs["second"].get("frame") if obs["second"]["ok"] else None], F.coq_obs)
        term = f"({term} && c07_check {e2} {c2} {o2})"
    return term
