"""C20 — GBDT adapters preserve the table; metrics and guards follow their definitions.

Case kinds
  "adapter": a TensorFrame written out cell by cell (any subset of categorical /
      numerical / embedding, plus ignored stypes, missing cells as -1 / NaN, with or
      without y, unique-id payloads); the three _to_*_input conversions are run.
  "history": several frames of different stype layouts converted in one process, through long-lived
      and fresh adapter objects of the three libraries, interleaved; every call is judged against the
      per-frame definition and earlier return values are read again at the end (no aliasing).
  "metric":  compute_metric for RMSE / MAE / accuracy on written-out vectors.
  "pair":    GBDT(task_type, metric=...) for one (task, metric | None) pair.
  "guard":   a sequence of tune / failing tune / predict / save / load on a stub subclass.

Numbers are exact: [num, den] pairs (float32-exact dyadic rationals), None = NaN.
"""
from __future__ import annotations

import itertools
import json
import math
import os
import shutil
from fractions import Fraction

import numpy as np
import torch

from harness import common as C

# Clause-by-clause coverage of the property text (properties.jsonl C20): clause -> oracle key(s) -> generator.
CLAUSES = [
    ("converting a TensorFrame preserves every value and its position",
     "adapter:<lib>:value:<region>, adapter:<lib>:shape, history:<lib>:value:*", "adapter, history"),
    ("categorical columns come first and are flagged as categorical",
     "adapter:xgb:types, adapter:<lib>:cat_features, adapter:<lib>:columns, adapter:<lib>:value:categorical, history:*",
     "adapter / history with any subset, feat_dict key order shuffled"),
    ("missing -1 turned into NaN for XGBoost and kept as -1 for CatBoost/LightGBM",
     "adapter:<lib>:value:categorical", "adapter: missing pattern none / some / all, a -2 code, a numerical -1"),
    ("numerical columns follow unchanged", "adapter:<lib>:value:numerical", "adapter: NaN patterns, float32 / float64 block"),
    ("embedding columns are flattened in column order", "adapter:<lib>:value:embedding",
     "adapter: 1-3 embedding columns of dims 1-3, from_tensor_list / column slice of a wider container / constructor"),
    ("rows stay in order", "adapter:<lib>:value:*, adapter:<lib>:index",
     "adapter: unique-id payloads, 0-4 rows, frames selected from a bigger frame by slice / range / list / index / mask"),
    ("the target is passed through", "adapter:<lib>:y", "adapter: y None / long / float32 / float64"),
    ("a frame with none of these stypes is rejected",
     "adapter:<lib>:accepts-empty, history:<lib>:accepts-empty  [MUST-RAISE, backed by: \"a frame with none of these "
     "stypes is rejected\"]", "adapter subset 'none' + ignored stypes"),
    ("ignored stypes (quantifier: plus ignored stypes)", "adapter:<lib>:* (same expectation with and without them)",
     "adapter: timestamp / multicategorical / sequence_numerical / text_tokenized blocks"),
    ("x the three adapters", "all adapter keys per lib", "adapter runs xgb, cat, lgbm; history interleaves them on "
     "shared and fresh objects, positional and keyword call"),
    ("metrics equal their textbook definitions (RMSE, MAE)", "metric:rmse:value, metric:mae:value, metric:*:raised",
     "metric: dyadic vectors n=1..8, float32 / float64 / mixed dtypes, positional and keyword call"),
    ("accuracy with a 0.5 threshold on binary scores", "metric:acc_bin:value[:score-0.5], metric:acc_multi:value",
     "metric: scores at / around 0.5, targets long / int32 / float / bool; multiclass labels long / int32 / float"),
    ("the default metric follows the task type", "pair:default:<task>:None", "pair (all 4 tasks, metric None)"),
    ("unsupported metric/task pairs are rejected",
     "pair:accepted:<task>:<metric>  [MUST-RAISE, backed by: \"unsupported metric/task pairs are rejected\"; NOT "
     "demanded for (task without default, metric=None): relaxed], pair:request:*",
     "pair: all 4 x 5 pairs, num_classes None / 2 / 3 / 10, positional / keyword / mixed constructor call"),
    ("predicting or saving before tuning raises",
     "guard:predict:no-raise, guard:save:no-raise  [MUST-RAISE, backed by: \"predicting or saving before tuning "
     "raises\"; a tune() that itself raises is NOT demanded: relaxed], guard:*:raised",
     "guard: all sequences up to length 3 + random longer ones; tune positional / keyword / extra kwargs; failing "
     "tune by _tune raising or y None; save(str / Path / keyword / path without directory), load(str / Path / keyword)"),
]

# Every raise / assert / try-except / special-case branch / dtype cast / exact float comparison of the anchored code
# (gbdt.py, tuned_xgboost.py, tuned_catboost.py, tuned_lightgbm.py): site -> generator kind -> oracle key.
ERROR_PATHS = [
    ("GBDT.__init__: DEFAULT_METRIC[task_type] (KeyError for a task without default)", "pair: multilabel x every metric",
     "pair:accepted:multilabel_classification:*"),
    ("GBDT.__init__: metric.supports_task_type(task_type) else ValueError", "pair: all 4 x 5 pairs", "pair:accepted:*, pair:request:*"),
    ("tune: tf_train.y / tf_val.y is None -> RuntimeError; _is_fitted = True only after _tune returned",
     "guard op tune_fail (forms noy_train / noy_val / raise)", "guard:tune_fail:no-raise, guard:predict:no-raise"),
    ("predict: not is_fitted -> RuntimeError; asserts on pred.ndim / len(pred)", "guard (all sequences <= 3, forms pos / kw); "
     "the asserts concern the subclass' _predict (stub returns the right shape): outside the property",
     "guard:predict:no-raise, guard:predict:raised"),
    ("save: not is_fitted -> RuntimeError; os.makedirs(dirname(path))", "guard op save (str / Path / kw / no directory "
     "part while unfitted)", "guard:save:no-raise, guard:save:raised"),
    ("load: _is_fitted = True", "guard op load (str / Path / kw)", "guard:predict:raised after load"),
    ("compute_metric: metric dispatch; `else: raise ValueError` (dead: all metrics enumerated); ROCAUC / R2 via sklearn "
     "(out of scope)", "metric cases rmse / mae / acc_bin / acc_multi", "metric:*:value, metric:*:raised"),
    ("compute_metric: (pred - target).square().mean().sqrt() / .abs().mean()  -- float arithmetic",
     "float32 / float64 / mixed dtypes, n = 1, 2, perfect, symmetric errors", "metric:rmse:value, metric:mae:value"),
    ("compute_metric: pred > 0.5 (exact float comparison, binary only); target == pred; total_correct / len(target)",
     "scores 0.5, 0.5 +- 1 ulp (float32 / float64), targets long / int32 / float / bool; multiclass predictions long / "
     "int32 / float32", "metric:acc_bin:value[:score-0.5], metric:acc_multi:value"),
    ("neg_to_nan: x == -1; `if is_neg.any()` special case; copy.copy(x).to(float32); x[is_neg] = nan",
     "categorical block with no / some / all -1, -2 and 0 codes, boundaries cat_*; NOT generated: codes > 2^24 (the "
     "float32 cast rounds 16777217 to 16777216 -- clean-tree behaviour, reported)", "adapter:xgb:value:categorical"),
    ("torch.cat(feats, dim=-1): dtype promotion int64 / float32 / float64", "numerical float32 / float64 next to a "
     "categorical block with / without -1; boundaries num_f64_not_f32, num_f32_extremes (max, subnormal, -0.0), num_inf",
     "adapter:xgb:value:numerical / categorical"),
    ("feat.values.reshape(n, width) (embedding)", "embedding from_tensor_list / column slice / constructor, 0 rows, "
     "boundaries emb_f32_extremes, emb_inf", "adapter:<lib>:value:embedding, adapter:<lib>:shape"),
    ("len(feats) == 0 / len(dfs) == 0 -> ValueError", "subset 'none' (+ ignored stypes), history rejected-then-valid",
     "adapter:<lib>:accepts-empty, history:<lib>:raised"),
    ("tf.cpu(); y.numpy() if y is not None", "y None / long / float32 / float64, boundaries y_extremes, y_inf", "adapter:<lib>:y"),
    ("catboost / lightgbm: np.concatenate(cat_features) if len(cat_features) else np.array([]) / []",
     "frames without categorical columns; histories cat_then_nocat / nocat_then_cat", "adapter:<lib>:cat_features"),
    ("catboost / lightgbm: np.arange(offset, offset + width) with the running offset", "equal_widths, one_column_each",
     "adapter:<lib>:columns, adapter:<lib>:cat_features"),
]

PROP = "C20"
HEADER = "Require Import Coq.QArith.QArith PF.Gen.Tables PF.Model.Gbdt."
MODEL_TARGETS = ["Model/Gbdt.vo"]
SHARD = 150
RULE = ("TensorFrames with every subset of {categorical, numerical, embedding} x ignored stypes x key order x "
        "0-4 rows x 1-3 columns x missing patterns x with/without y, unique-id payloads, through the three "
        "adapters; histories of 3-8 adapter calls on 2-4 frames of different layouts through shared and fresh adapter "
        "objects; compute_metric on dyadic vectors (binary scores at and around 0.5); all (task, metric) "
        "pairs; all guard sequences up to length 3 plus random longer ones.  distinct = distinct (kind, "
        "present stypes, shape, missing pattern class, y, ignored set, key order | metric, n, hits-0.5 | pair "
        "| op sequence); non-trivial = adapter case with >= 1 row or an expected rejection, metric case, "
        "pair, guard sequence containing predict or save")
TRUSTED = [
    "Coq 8.16.1 kernel + vm_compute (no native_compute)",
    "hand-written model coq/Model/Gbdt.v of gbdt.py / tuned_xgboost.py / tuned_catboost.py / tuned_lightgbm.py "
    "(conversion functions, metric selection, guards, RMSE/MAE/accuracy), tied to /repo by this run's correspondence",
    "coq/Gen/Tables.v (supported_metrics, metric_supports_task, gbdt_default_metric, gbdt_metric_request dumped from "
    "the live objects on every run)",
    "modelled primitives: torch.cat / pd.concat along columns, MultiEmbeddingTensor.values layout (read back "
    "through the public cell API), numpy arange, torch mean/abs/square/compare on exact values",
    "harness/c20.py (generator, plain-Python references with fractions.Fraction, Coq literal printer)",
]
ASSUMPTIONS = [
    "a raise is demanded only where the statement demands one: a frame with none of the three stypes, predict / save "
    "before a tune() that returned or a load(), an unsupported (task, metric) pair; NOT demanded (either outcome "
    "accepted, model not compared when the code returns normally): GBDT(task without default metric, metric=None), "
    "tune() with y = None or with a failing _tune",
    "the boosters (xgboost / catboost / lightgbm / optuna) and ROC-AUC / R2 (sklearn) are out of scope",
    "float round-off: payloads are float32-exact; RMSE is compared squared within 1e-5 relative, MAE within 1e-6",
    "guards are exercised through a stub subclass whose _tune/_predict/_load are trivial",
    "device placement (tf.cpu()) and tensor aliasing are outside the model",
]

TASKS = ["regression", "multiclass_classification", "binary_classification", "multilabel_classification"]
METRICS = ["accuracy", "rocauc", "rmse", "mae", "r2"]
# textbook table of the property / class docstring (independent of torch_frame.typing)
REF_SUPPORTED = {
    "regression": {"rmse", "mae", "r2"},
    "binary_classification": {"accuracy", "rocauc"},
    "multiclass_classification": {"accuracy"},
    "multilabel_classification": set(),
}
REF_DEFAULT = {"regression": "rmse", "binary_classification": "rocauc", "multiclass_classification": "accuracy"}
IGNORED = ["timestamp", "multicategorical", "sequence_numerical", "text_tokenized"]
GOPS = ["tune", "tune_fail", "predict", "save", "load"]


# ----------------------------------------------------------------- generation
def gen_adapter(rng, tier, subset=None):
    ids = itertools.count(1)
    n = rng.wpick([(1, 0), (3, 1), (4, 2), (4, 3), (2, 4)])
    if subset is None:
        subset = [s for s in ("categorical", "numerical", "embedding") if rng.chance(0.6)]
        if not subset and rng.chance(0.6):
            subset = [rng.pick(["categorical", "numerical", "embedding"])]
    miss = rng.pick(["none", "some", "some", "all"])

    def missing():
        return miss == "all" or (miss == "some" and rng.chance(0.3))

    case = {"kind": "adapter", "n": n, "cat": None, "num": None, "emb": None}
    if "categorical" in subset:
        w = rng.randint(1, 3)
        case["cat"] = {"names": ["c%d" % j for j in range(w)],
                       "rows": [[-1 if missing() else next(ids) for _ in range(w)] for _ in range(n)]}
        if rng.chance(0.15) and n:      # other negative codes are not "missing"
            case["cat"]["rows"][rng.randrange(n)][rng.randrange(w)] = -2
    if "numerical" in subset:
        w = rng.randint(1, 3)
        case["num"] = {"names": ["n%d" % j for j in range(w)],
                       "rows": [[None if missing() else [2 * next(ids) + 1, 2] for _ in range(w)] for _ in range(n)]}
        if rng.chance(0.2) and n:       # a numerical -1 is an ordinary value
            case["num"]["rows"][rng.randrange(n)][rng.randrange(w)] = [-1, 1]
    if "embedding" in subset:
        w = rng.randint(1, 3)
        dims = [rng.randint(1, 3) for _ in range(w)]
        case["emb"] = {"names": ["e%d" % j for j in range(w)], "dims": dims,
                       "rows": [[[None if (miss == "some" and rng.chance(0.1)) else [4 * next(ids) + 1, 4]
                                  for _ in range(d)] for d in dims] for _ in range(n)]}
    case["ignored"] = [s for s in IGNORED if rng.chance(0.3)]
    if not subset and not case["ignored"]:
        case["ignored"] = [rng.pick(IGNORED)]     # a frame needs at least one stype to have rows
    order = list(subset) + case["ignored"]
    rng.shuffle(order)
    case["order"] = order
    if rng.chance(0.6):
        if rng.chance(0.5):
            case["y"] = {"dtype": "float", "v": [[2 * next(ids) + 1, 2] for _ in range(n)]}
        else:
            case["y"] = {"dtype": "long", "v": [[rng.randint(0, 3), 1] for _ in range(n)]}
    else:
        case["y"] = None
    # HOW the frame reaches the adapter (every accepted form of the `tf` argument)
    case["form"] = {
        "derive": rng.pick([None, None, "slice", "index", "mask", "range", "list"]),   # rows selected from a bigger frame
        "pad": [rng.randint(0, 2), rng.randint(0, 2)],
        "num_dtype": rng.pick(["float32", "float32", "float64"]),
        "y_float": rng.pick(["float32", "float64"]),
        "emb_form": rng.pick(["list", "list", "colslice", "ctor"]),
        "call": rng.pick(["pos", "kw"]),
    }
    return case


def _layout(f):
    return (ref_width(f), [k for k in ("cat", "num", "emb") if f[k]])


def gen_history(rng, tier, main=None):
    """2-4 frames of DIFFERENT stype layouts, converted in one process by long-lived ("shared") and fresh
    adapter objects of the three libraries, interleaved."""
    nf = rng.randint(2, 4)
    frames = []
    for _try in range(40):
        f = gen_adapter(rng, tier)
        if not (f["cat"] or f["num"] or f["emb"]) and rng.chance(0.8):
            continue
        if all(_layout(f) != _layout(g) for g in frames):
            frames.append(f)
        if len(frames) == nf:
            break
    # the categorical layout must vary: one frame without, one with categorical columns, where possible
    if len(frames) >= 2 and rng.chance(0.7):
        if all(f["cat"] for f in frames):
            frames[-1] = gen_adapter(rng, tier, rng.pick([["numerical"], ["embedding"], ["numerical", "embedding"]]))
        elif not any(f["cat"] for f in frames):
            frames[0] = gen_adapter(rng, tier, ["categorical"] + rng.pick([[], ["numerical"], ["embedding"]]))
    main = main or rng.pick(list(LIBS))
    order = list(range(len(frames)))
    rng.shuffle(order)
    steps = [{"frame": i, "lib": main, "obj": "shared"} for i in order]      # one object sees every layout
    for _ in range(rng.randint(1, 4)):
        steps.insert(rng.randint(0, len(steps)),
                     {"frame": rng.randrange(len(frames)), "lib": rng.pick(list(LIBS)),
                      "obj": rng.pick(["shared", "shared", "fresh"])})
    return {"kind": "history", "frames": frames, "steps": steps}


def _dy(rng, lo=-80, hi=80, den=8):
    return [rng.randint(lo, hi), den]


def gen_metric(rng, tier):
    m = rng.pick(["rmse", "mae", "acc_bin", "acc_bin", "acc_multi"])
    n = rng.randint(1, 8)
    if m in ("rmse", "mae"):
        target = [_dy(rng) for _ in range(n)]
        pred = [t if rng.chance(0.2) else _dy(rng) for t in target]
        if rng.chance(0.1):
            pred = list(target)
    elif m == "acc_bin":
        target = [rng.randint(0, 1) for _ in range(n)]
        around = [[1, 2], [1, 2], [2 ** 19 + 1, 2 ** 20], [2 ** 19 - 1, 2 ** 20], [1, 4], [3, 4], [0, 1], [1, 1],
                  [513, 1024], [511, 1024]]
        pred = [rng.pick(around) for _ in range(n)]
    else:
        k = rng.randint(2, 4)
        target = [rng.randint(0, k - 1) for _ in range(n)]
        pred = [t if rng.chance(0.5) else rng.randint(0, k - 1) for t in target]
    if m in ("rmse", "mae"):
        td, pd_ = rng.pick([("float32", "float32"), ("float64", "float64"), ("float32", "float64")])
    elif m == "acc_bin":
        td, pd_ = rng.pick(["long", "long", "int32", "float32", "bool"]), rng.pick(["float32", "float64"])
    else:
        td, pd_ = rng.pick([("long", "long"), ("long", "float32"), ("int32", "int32"), ("float32", "float32")])
    return {"kind": "metric", "metric": m, "target": target, "pred": pred,
            "form": {"call": rng.pick(["pos", "kw"]), "target_dtype": td, "pred_dtype": pd_}}


def guard_forms(rng, ops):
    """how each operation is called; the generator tracks `fitted` itself so that a path without a directory
    part is only passed to save() when the guard has to raise anyway"""
    forms, fitted = [], False
    for op in ops:
        if op == "tune":
            forms.append(rng.pick(["pos", "kw", "extra_kwargs"]))
            fitted = True
        elif op == "tune_fail":
            forms.append(rng.pick(["raise", "raise", "noy_train", "noy_val"]))
            fitted = True          # a tune() that need not raise may have fitted the model: no "nodir" save afterwards
        elif op == "predict":
            forms.append(rng.pick(["pos", "kw"]))
        elif op == "save":
            forms.append(rng.pick(["str", "path", "kw"] + ([] if fitted else ["nodir", "nodir"])))
        else:
            forms.append(rng.pick(["str", "path", "kw"]))
            fitted = True
    return forms


def gen_guard(rng, tier):
    ops = [rng.pick(GOPS) for _ in range(rng.randint(4, 7))]
    return {"kind": "guard", "ops": ops, "forms": guard_forms(rng, ops)}


# ----------------------------------------------------------------- boundary stream
# Boundaries of every dimension of QUANTIFIED OVER, hit DELIBERATELY in every run (name -> what).
BOUNDARIES = [
    ("rows_0, rows_1, rows_2", "frames with 0 / 1 / 2 rows, all three blocks present"),
    ("one_column_each", "exactly one categorical, one numerical, one embedding column of dimension 1"),
    ("equal_widths", "categorical, numerical and embedding blocks of the SAME width (offsets coincide)"),
    ("emb_dims_equal, emb_dims_differ", "embedding columns of equal / pairwise different dimensions"),
    ("cat_all_missing, cat_missing_first_cell, cat_missing_last_cell", "-1 everywhere / only in the first / last cell"),
    ("cat_minus2_and_zero", "category codes -2 and 0 next to -1 (only -1 is missing)"),
    ("cat_code_beyond_2^24_{with_minus1, next_to_float32, next_to_float64, next_to_embedding}",
     "codes 2^24+1, 2^24+3, 2^30+65: correspondence only -- the float32 model must reproduce the rounding the code does"),
    ("cat_code_2^24_{with_minus1, next_to_float32, next_to_float64, alone}",
     "codes 2^24 - 1, 2^24, -2^24: the largest that survive the float32 casts of the XGBoost adapter exactly"),
    ("num_minus1, num_nan_first_cell, num_nan_last_cell, num_all_nan", "a numerical -1; NaN first / last / everywhere"),
    ("num_f32_extremes, emb_f32_extremes, num_f64_not_f32, y_extremes",
     "float32 max / -max / smallest subnormal / -0.0 / 1+2^-23; float64 values that float32 cannot hold next to a "
     "categorical block with -1 (float32 after neg_to_nan)"),
    ("num_inf, emb_inf, y_inf", "+-inf in the numerical block, an embedding cell, the target (oracle only)"),
    ("y_all_equal", "a constant target"),
    ("only_ignored", "a frame with ignored stypes only (rejected)"),
    ("hist_same_frame_twice", "one adapter object converts the SAME frame object twice"),
    ("hist_equal_layout_other_values", "two frames of equal layout and different values through one object"),
    ("hist_rejected_then_valid", "an earlier rejected (empty) frame, then a valid one, through one object"),
    ("hist_valid_then_rejected", "a valid frame, then a rejected one, through one object"),
    ("hist_cat_then_nocat, hist_nocat_then_cat", "categorical columns disappear / appear between two calls"),
    ("metric_n1, metric_n2", "vectors of length 1 and 2, every metric"),
    ("metric_perfect, metric_all_wrong", "prediction equal to the target / wrong everywhere"),
    ("metric_symmetric_errors", "errors +d and -d (mean error 0, RMSE and MAE = d)"),
    ("acc_all_half, acc_half_plus_ulp, acc_half_minus_ulp", "binary scores exactly 0.5 / one float32 ulp above / below"),
    ("guard_*", "all operation sequences up to length 3 (exhaustive): first call, same call twice, failed tune then "
     "predict/save, load only"),
    ("pair_*", "all (task, metric | None) pairs (exhaustive)"),
]


def _bframe(n, wc, wn, dims, rng, y="float", ignored=(), derive=None):
    ids = itertools.count(1)
    f = {"kind": "adapter", "n": n,
         "cat": {"names": ["c%d" % j for j in range(wc)], "rows": [[next(ids) for _ in range(wc)] for _ in range(n)]} if wc else None,
         "num": {"names": ["n%d" % j for j in range(wn)],
                 "rows": [[[2 * next(ids) + 1, 2] for _ in range(wn)] for _ in range(n)]} if wn else None,
         "emb": {"names": ["e%d" % j for j in range(len(dims))], "dims": list(dims),
                 "rows": [[[[4 * next(ids) + 1, 4] for _ in range(d)] for d in dims] for _ in range(n)]} if dims else None,
         "ignored": list(ignored)}
    order = [k for k, v in (("categorical", wc), ("numerical", wn), ("embedding", dims)) if v] + list(ignored)
    rng.shuffle(order)
    f["order"] = order
    f["y"] = None if y is None else ({"dtype": "float", "v": [[2 * next(ids) + 1, 2] for _ in range(n)]}
                                     if y == "float" else {"dtype": "long", "v": [[1, 1]] * n})
    f["form"] = {"derive": derive, "pad": [1, 1], "num_dtype": "float32", "y_float": "float32",
                 "emb_form": "list", "call": "pos"}
    return f


def gen_boundary_cases(rng):
    out = []

    def A(name, f):
        f["boundary"] = name
        out.append(f)
        return f
    for n in (0, 1, 2):
        A(f"rows_{n}", _bframe(n, 2, 1, [2, 1], rng))
        A(f"rows_{n}", _bframe(n, 1, 2, [1], rng, derive="slice"))
    A("one_column_each", _bframe(3, 1, 1, [1], rng))
    A("equal_widths", _bframe(3, 2, 2, [1, 1], rng))
    A("equal_widths", _bframe(2, 3, 3, [3], rng, y=None))
    A("emb_dims_equal", _bframe(2, 1, 1, [2, 2, 2], rng))
    A("emb_dims_differ", _bframe(2, 1, 1, [3, 1, 2], rng))
    f = A("cat_all_missing", _bframe(3, 2, 1, [1], rng)); f["cat"]["rows"] = [[-1, -1]] * 3
    f = A("cat_missing_first_cell", _bframe(3, 2, 1, [1], rng)); f["cat"]["rows"][0][0] = -1
    f = A("cat_missing_last_cell", _bframe(3, 2, 1, [1], rng)); f["cat"]["rows"][-1][-1] = -1
    B24 = 2 ** 24
    f = A("cat_code_2^24_with_minus1", _bframe(3, 2, 0, [], rng)); f["cat"]["rows"] = [[B24, -1], [B24 - 1, -B24], [0, 1]]
    f = A("cat_code_2^24_next_to_float32", _bframe(2, 1, 1, [1], rng)); f["cat"]["rows"] = [[B24], [B24 - 1]]
    f = A("cat_code_2^24_next_to_float64", _bframe(2, 1, 1, [], rng)); f["cat"]["rows"] = [[B24], [-1]]
    f["form"]["num_dtype"] = "float64"
    f = A("cat_code_2^24_alone", _bframe(2, 1, 0, [], rng)); f["cat"]["rows"] = [[B24], [B24 - 1]]
    # beyond the bound: NOT judged by the oracle (outside the quantifier: a code is a rank below the number of
    # categories); the float32 model of Props/C20.v 5b must predict what the code really emits
    for nm, wn, dims, f64 in (("with_minus1", 0, [], False), ("next_to_float32", 1, [], False),
                              ("next_to_float64", 1, [], True), ("next_to_embedding", 0, [1], False)):
        f = A("cat_code_beyond_2^24_" + nm, _bframe(2, 2, wn, dims, rng))
        f["cat"]["rows"] = [[B24 + 1, -1 if nm != "next_to_float32" and nm != "next_to_embedding" else 5], [B24 + 3, 2 ** 30 + 65]]
        f["form"]["num_dtype"] = "float64" if f64 else "float32"
        f["model_only_f32"] = True
    f = A("cat_minus2_and_zero", _bframe(3, 1, 1, [], rng)); f["cat"]["rows"] = [[-2], [0], [-1]]
    f = A("num_minus1", _bframe(2, 1, 2, [], rng)); f["num"]["rows"][0][0] = [-1, 1]
    f = A("num_nan_first_cell", _bframe(2, 1, 2, [1], rng)); f["num"]["rows"][0][0] = None
    f = A("num_nan_last_cell", _bframe(2, 1, 2, [1], rng)); f["num"]["rows"][-1][-1] = None
    f = A("num_all_nan", _bframe(2, 0, 2, [], rng)); f["num"]["rows"] = [[None, None]] * 2
    # numeric representation: magnitude extremes, signed zero, inf (every place a float is moved or cast)
    F32MAX, TINY = [2 ** 128 - 2 ** 104, 1], [1, 2 ** 149]
    f = A("num_f32_extremes", _bframe(3, 1, 2, [1], rng))
    f["num"]["rows"] = [[F32MAX, [-(2 ** 128 - 2 ** 104), 1]], [TINY, ["negzero", 1]], [[0, 1], [2 ** 23 + 1, 2 ** 23]]]
    f["cat"]["rows"][0][0] = -1
    f = A("num_f64_not_f32", _bframe(2, 1, 2, [], rng)); f["form"]["num_dtype"] = "float64"
    f["num"]["rows"] = [[[2 ** 53 - 1, 1], [1, 2 ** 60]], [[2 ** 24 + 1, 1], [-(2 ** 53 - 1), 2 ** 30]]]
    f["cat"]["rows"][1][0] = -1
    f = A("emb_f32_extremes", _bframe(2, 0, 0, [2, 1], rng))
    f["emb"]["rows"] = [[[F32MAX, TINY], [["negzero", 1]]], [[[0, 1], [-1, 2 ** 149]], [[1, 1]]]]
    f = A("num_inf", _bframe(2, 1, 2, [1], rng)); f["num"]["rows"][0][1] = ["inf", 1]; f["num"]["rows"][1][0] = ["inf", -1]
    f = A("emb_inf", _bframe(2, 1, 0, [2], rng)); f["emb"]["rows"][1][0][1] = ["inf", -1]
    f = A("y_extremes", _bframe(3, 1, 1, [], rng)); f["form"]["y_float"] = "float64"
    f["y"]["v"] = [[2 ** 53 - 1, 1], ["negzero", 1], [1, 2 ** 60]]
    f = A("y_inf", _bframe(2, 1, 1, [], rng)); f["y"]["v"] = [["inf", 1], ["inf", -1]]
    A("y_all_equal", _bframe(3, 1, 1, [1], rng, y="long"))
    A("only_ignored", _bframe(2, 0, 0, [], rng, y=None, ignored=["timestamp", "multicategorical"]))

    def H(name, frames, steps):
        out.append({"kind": "history", "frames": frames, "steps": steps, "boundary": name})
    for lib in ("xgb", "cat", "lgbm"):
        sh = lambda i, lib=lib: {"frame": i, "lib": lib, "obj": "shared"}
        a, b = _bframe(2, 2, 1, [2], rng), _bframe(2, 2, 1, [2], rng)
        for r in b["cat"]["rows"]:
            r[0] += 500
        nocat = _bframe(2, 0, 2, [1], rng)
        empty = _bframe(2, 0, 0, [], rng, y=None, ignored=["timestamp"])
        H("hist_same_frame_twice", [a], [sh(0), sh(0)])
        H("hist_equal_layout_other_values", [a, b], [sh(0), sh(1), sh(0)])
        H("hist_rejected_then_valid", [empty, a], [sh(0), sh(1)])
        H("hist_valid_then_rejected", [a, empty], [sh(0), sh(1), sh(0)])
        H("hist_cat_then_nocat", [a, nocat], [sh(0), sh(1)])
        H("hist_nocat_then_cat", [nocat, a], [sh(0), sh(1)])

    def Mx(name, metric, target, pred, td=None, pd_=None):
        dflt = {"rmse": ("float32", "float32"), "mae": ("float32", "float32"), "acc_bin": ("long", "float32"),
                "acc_multi": ("long", "long")}[metric]
        out.append({"kind": "metric", "metric": metric, "target": target, "pred": pred, "boundary": name,
                    "form": {"call": "pos", "target_dtype": td or dflt[0], "pred_dtype": pd_ or dflt[1]}})
    q = lambda k: [k, 8]
    for m in ("rmse", "mae"):
        Mx("metric_n1", m, [q(5)], [q(-3)])
        Mx("metric_n2", m, [q(5), q(8)], [q(6), q(8)])
        Mx("metric_perfect", m, [q(5), q(-8), q(0)], [q(5), q(-8), q(0)])
        Mx("metric_all_wrong", m, [q(5), q(-8), q(0)], [q(6), q(-7), q(40)])
        Mx("metric_symmetric_errors", m, [q(0), q(0), q(16), q(16)], [q(12), q(-12), q(28), q(4)])
    half, up, down = [1, 2], [2 ** 23 + 1, 2 ** 24], [2 ** 24 - 1, 2 ** 25]
    Mx("metric_n1", "acc_bin", [1], [half]); Mx("metric_n1", "acc_multi", [2], [2])
    Mx("metric_n2", "acc_bin", [1, 0], [[3, 4], half]); Mx("metric_n2", "acc_multi", [2, 0], [2, 1])
    Mx("metric_perfect", "acc_bin", [1, 0, 1], [[3, 4], [1, 4], up]); Mx("metric_perfect", "acc_multi", [0, 1, 2], [0, 1, 2])
    Mx("metric_all_wrong", "acc_bin", [0, 1, 1], [[3, 4], [1, 4], half]); Mx("metric_all_wrong", "acc_multi", [0, 1, 2], [1, 2, 0])
    for td in ("long", "float32", "bool"):
        Mx("acc_all_half", "acc_bin", [1, 0, 1, 0], [half] * 4, td=td)
    for pd_ in ("float32", "float64"):
        Mx("acc_half_plus_ulp", "acc_bin", [1, 0, 1], [up, up, half], pd_=pd_)
        Mx("acc_half_minus_ulp", "acc_bin", [1, 0, 0], [down, down, half], pd_=pd_)
    return out


BOUNDARY_NAMES = sorted({c["boundary"] for c in gen_boundary_cases(C.Rng(0))})


def deterministic_prefix():
    """Everything sanity() requires, WITHOUT the run's seed: hand-written boundaries, the greedy required stream,
    every stype subset, every library as a long-lived history object, all (task, metric) pairs and all guard
    sequences up to length 3 (own constant seed; the same in both tiers)."""
    rng = C.Rng(REQUIRED_SEED + 1)
    cases = gen_boundary_cases(rng) + required_cases()
    for k in range(4):                               # every subset of the three stypes, incl. the empty one
        for sub in itertools.combinations(("categorical", "numerical", "embedding"), k):
            for _ in range(3):
                cases.append(gen_adapter(rng, "quick", list(sub)))
    for lib in LIBS:                                 # histories: every library as the long-lived object
        cases += [gen_history(rng, "quick", main=lib) for _ in range(4)]
    i = 0
    for t in TASKS:                                  # all (task, metric) pairs: finite, exhaustive
        for m in [None] + METRICS:
            cases.append({"kind": "pair", "task": t, "metric": m,
                          "form": {"num_classes": [None, 2, 3, 10][(i // 3) % 4], "style": ["pos", "kw", "mixed"][i % 3]}})
            i += 1
    for L in range(1, 4):                            # all guard sequences up to length 3
        for ops in itertools.product(GOPS, repeat=L):
            cases.append({"kind": "guard", "ops": list(ops), "forms": guard_forms(rng, list(ops))})
    for c in cases:
        c["det"] = True
    return cases


def generate(rng, tier):
    na, nm, ng = (600, 400, 60) if tier == "quick" else (8000, 6000, 1500)
    cases = deterministic_prefix()
    # the run's seed drives only this additional random stream
    cases += [gen_adapter(rng, tier) for _ in range(na)]
    cases += [gen_history(rng, tier) for _ in range(na // 5)]
    cases += [gen_metric(rng, tier) for _ in range(nm)]
    cases += [gen_guard(rng, tier) for _ in range(ng)]
    return cases


# ----------------------------------------------------------------- implementation side
def _fr(x):
    """exact value of a Python / numpy scalar as [num, den]; None for NaN"""
    x = float(x)
    if x != x:
        return None
    if x in (float("inf"), float("-inf")):
        return ["inf", 1 if x > 0 else -1]
    if x == 0 and math.copysign(1.0, x) < 0:
        return ["negzero", 1]
    f = Fraction(x)
    return [f.numerator, f.denominator]


def _tens(rows, w, dtype):
    if dtype == torch.long:
        return torch.tensor(rows, dtype=torch.long).reshape(len(rows), w)
    vals = [[_pyval(v) for v in r] for r in rows]
    return torch.tensor(vals, dtype=dtype).reshape(len(rows), w)


def _pyval(v):
    """a written-out value: [num, den] | None (NaN) | ["inf", sign] | ["negzero", 1]"""
    if v is None:
        return float("nan")
    if v[0] == "inf":
        return math.inf * v[1]
    if v[0] == "negzero":
        return -0.0
    return v[0] / v[1]


def build_tf(case):
    """the frame handed to the adapter: built directly, or selected from a bigger frame (slice / index tensor /
    bool mask / range / list of ints) whose other rows carry junk"""
    f = case.get("form") or {}
    if not f.get("derive"):
        return _build_tf(case)
    b, a = f["pad"]
    n = case["n"]
    big = dict(case, n=n + b + a)
    for key, junk in (("cat", lambda r: [7777] * len(r)), ("num", lambda r: [[15555, 2]] * len(r)),
                      ("emb", lambda r: [[[31111, 4]] * len(c) for c in r])):
        if case[key]:
            rows = case[key]["rows"]
            if key == "emb":
                proto = [[None] * d for d in case[key]["dims"]]
            else:
                proto = [None] * len(case[key]["names"])
            big[key] = dict(case[key], rows=[junk(proto)] * b + rows + [junk(proto)] * a)
    if case["y"] is not None:
        big["y"] = dict(case["y"], v=[[9, 1]] * b + case["y"]["v"] + [[9, 1]] * a)
    tf = _build_tf(big)
    idx = list(range(b, b + n))
    d = f["derive"]
    if d == "slice":
        return tf[b:b + n]
    if d == "range":
        return tf[range(b, b + n)]
    if d == "list":
        return tf[idx]
    if d == "index":
        return tf[torch.tensor(idx, dtype=torch.long)]
    mask = torch.zeros(n + b + a, dtype=torch.bool)
    mask[b:b + n] = True
    return tf[mask]


def _build_tf(case):
    from torch_frame import TensorFrame, stype
    form = case.get("form") or {}
    num_dt = torch.float64 if form.get("num_dtype") == "float64" else torch.float32
    from torch_frame.data.multi_embedding_tensor import MultiEmbeddingTensor
    from torch_frame.data.multi_nested_tensor import MultiNestedTensor
    n = case["n"]
    parts = {}
    if case["cat"]:
        parts["categorical"] = (stype.categorical, _tens(case["cat"]["rows"], len(case["cat"]["names"]), torch.long),
                                case["cat"]["names"])
    if case["num"]:
        parts["numerical"] = (stype.numerical, _tens(case["num"]["rows"], len(case["num"]["names"]), num_dt),
                              case["num"]["names"])
    if case["emb"]:
        e = case["emb"]
        tl = []
        for j, d in enumerate(e["dims"]):
            tl.append(_tens([r[j] for r in e["rows"]], d, torch.float32))
        ef = form.get("emb_form", "list")
        if ef == "colslice":       # a column slice of a wider container (non-contiguous values)
            wide = MultiEmbeddingTensor.from_tensor_list([torch.full((n, 2), 424242.0)] + tl)
            met = wide[:, 1:]
        elif ef == "ctor":         # the plain constructor: values and offsets given explicitly
            offs = [0]
            for d in e["dims"]:
                offs.append(offs[-1] + d)
            met = MultiEmbeddingTensor(n, len(e["dims"]), torch.cat(tl, dim=1) if tl else torch.zeros(n, 0),
                                       torch.tensor(offs))
        else:
            met = MultiEmbeddingTensor.from_tensor_list(tl)
        parts["embedding"] = (stype.embedding, met, e["names"])
    for s in case["ignored"]:
        if s == "timestamp":
            parts[s] = (stype.timestamp, torch.full((n, 1, 7), 3, dtype=torch.long), ["ts"])
        elif s == "multicategorical":
            parts[s] = (stype.multicategorical,
                        MultiNestedTensor.from_tensor_mat([[torch.tensor([7, 8])] for _ in range(n)])
                        if n else MultiNestedTensor(0, 1, torch.tensor([], dtype=torch.long), torch.tensor([0])),
                        ["mc"])
        elif s == "sequence_numerical":
            parts[s] = (stype.sequence_numerical,
                        MultiNestedTensor.from_tensor_mat([[torch.tensor([0.5, 9.5])] for _ in range(n)])
                        if n else MultiNestedTensor(0, 1, torch.tensor([]), torch.tensor([0])),
                        ["sq"])
        else:
            mk = (lambda: MultiNestedTensor.from_tensor_mat([[torch.tensor([1, 2])] for _ in range(n)])
                  if n else MultiNestedTensor(0, 1, torch.tensor([], dtype=torch.long), torch.tensor([0])))
            parts[s] = (stype.text_tokenized, {"input_ids": mk(), "attention_mask": mk()}, ["tt"])
    feat_dict, names = {}, {}
    for key in case["order"]:
        st, t, nm = parts[key]
        feat_dict[st] = t
        names[st] = list(nm)
    y = None
    if case["y"] is not None:
        if case["y"]["dtype"] == "long":
            y = torch.tensor([v[0] for v in case["y"]["v"]], dtype=torch.long)
        else:
            y = torch.tensor([_pyval(v) for v in case["y"]["v"]],
                             dtype=torch.float64 if form.get("y_float") == "float64" else torch.float32)
    return TensorFrame(feat_dict, names, y=y)


def _mat(a):
    a = np.asarray(a)
    return {"shape": list(a.shape), "rows": [[_fr(v) for v in r] for r in a.tolist()] if a.ndim == 2 else None}


def _yobs(y):
    return None if y is None else [_fr(v) for v in np.asarray(y).tolist()]


LIBS = {"xgb": ("XGBoost", "_to_xgboost_input"), "cat": ("CatBoost", "_to_catboost_input"),
        "lgbm": ("LightGBM", "_to_lightgbm_input")}


def new_adapter(lib):
    from torch_frame import TaskType
    import torch_frame.gbdt as G
    return getattr(G, LIBS[lib][0])(TaskType.REGRESSION)


def read_out(lib, raw):
    """observation of what an adapter returned (read again later to detect aliasing between calls)"""
    if lib == "xgb":
        feat, y, types = raw
        return {"ok": True, "feat": _mat(feat), "y": _yobs(y), "types": list(types)}
    df, y, cf = raw
    cols = [int(c) for c in df.columns.tolist()]
    rows = [[_fr(df.iloc[i, j]) for j in range(df.shape[1])] for i in range(df.shape[0])]
    return {"ok": True, "columns": cols, "shape": list(df.shape), "rows": rows,
            "index": [int(i) if isinstance(i, (int, np.integer)) else str(i) for i in df.index.tolist()],
            "y": _yobs(y), "cat_features": [int(v) for v in np.asarray(cf).tolist()],
            "dtypes": [str(t) for t in df.dtypes.tolist()]}


def call_adapter(obj, lib, tf, call="pos"):
    """-> (observation, raw return value or None)"""
    try:
        raw = getattr(obj, LIBS[lib][1])(tf=tf) if call == "kw" else getattr(obj, LIBS[lib][1])(tf)
        return read_out(lib, raw), raw
    except Exception as ex:
        return {"ok": False, "exc": C.exc_name(ex)}, None


def emb_readback(case, tf):
    from torch_frame import stype
    e = tf.feat_dict[stype.embedding]
    cells = [[[_fr(v) for v in e[i, j].reshape(-1).tolist()] for j in range(e.num_cols)]
             for i in range(e.num_rows)]
    return cells == case["emb"]["rows"]


def run_adapter(case):
    tf = build_tf(case)
    out = {}
    if case["emb"]:
        out["emb_cells_readback"] = emb_readback(case, tf)
    for lib in LIBS:
        out[lib], _ = call_adapter(new_adapter(lib), lib, tf, (case.get("form") or {}).get("call", "pos"))
    return out


def run_history(case):
    """several frames of different layouts converted in ONE process: through one long-lived adapter object per
    library ("shared") and through fresh objects, interleaved; earlier return values are read again at the end."""
    tfs = [build_tf(f) for f in case["frames"]]
    shared = {}
    steps, raws = [], []
    for st in case["steps"]:
        lib = st["lib"]
        if st["obj"] == "shared":
            obj = shared.setdefault(lib, new_adapter(lib))
        else:
            obj = new_adapter(lib)
        o, raw = call_adapter(obj, lib, tfs[st["frame"]], (case["frames"][st["frame"]].get("form") or {}).get("call", "pos"))
        steps.append(o)
        raws.append(raw)
    later = []
    for st, o, raw in zip(case["steps"], steps, raws):
        later.append(True if raw is None else read_out(st["lib"], raw) == o)
    rb = [emb_readback(f, tf) if f["emb"] else True for f, tf in zip(case["frames"], tfs)]
    return {"steps": steps, "unchanged_later": later, "emb_cells_readback": all(rb)}


class _Model:
    def __init__(self):
        self.saved = []

    def save_model(self, path):
        self.saved.append(path)


def _stub_class():
    from torch_frame.gbdt import GBDT

    class Stub(GBDT):
        fail_next = False

        def _tune(self, tf_train, tf_val, num_trials, *a, **k):
            if self.fail_next:
                raise ArithmeticError("stub: tuning failed")
            self.model = _Model()

        def _predict(self, tf_test):
            return torch.zeros(len(tf_test))

        def _load(self, path):
            self.model = _Model()
    return Stub


def _enum(cls, value):
    for m in cls:
        if m.value == value:
            return m
    raise KeyError(value)


def run(case):
    from torch_frame import Metric, TaskType
    kind = case["kind"]
    if kind == "adapter":
        return run_adapter(case)
    if kind == "history":
        return run_history(case)
    Stub = _stub_class()
    if kind == "pair":
        t = _enum(TaskType, case["task"])
        m = None if case["metric"] is None else _enum(Metric, case["metric"])
        try:
            fm = case.get("form") or {"num_classes": 3, "style": "mixed"}
            if fm["style"] == "pos":
                g = Stub(t, fm["num_classes"], m)
            elif fm["style"] == "kw":
                g = Stub(task_type=t, num_classes=fm["num_classes"], metric=m)
            else:
                g = Stub(t, num_classes=fm["num_classes"], metric=m)
            return {"ok": True, "metric": getattr(g.metric, "value", None)}
        except Exception as ex:
            return {"ok": False, "exc": C.exc_name(ex)}
    if kind == "metric":
        mk = case["metric"]
        fr = lambda v: v[0] / v[1]
        fm = case.get("form") or {"call": "pos", "target_dtype": None, "pred_dtype": None}
        DT = {"float32": torch.float32, "float64": torch.float64, "long": torch.long, "int32": torch.int32,
              "bool": torch.bool}
        try:
            if mk in ("rmse", "mae"):
                g = Stub(TaskType.REGRESSION, metric=Metric.RMSE if mk == "rmse" else Metric.MAE)
                target = torch.tensor([fr(v) for v in case["target"]], dtype=DT[fm["target_dtype"] or "float32"])
                pred = torch.tensor([fr(v) for v in case["pred"]], dtype=DT[fm["pred_dtype"] or "float32"])
            elif mk == "acc_bin":
                g = Stub(TaskType.BINARY_CLASSIFICATION, metric=Metric.ACCURACY)
                target = torch.tensor(case["target"], dtype=DT[fm["target_dtype"] or "long"])
                pred = torch.tensor([fr(v) for v in case["pred"]], dtype=DT[fm["pred_dtype"] or "float32"])
                assert [_fr(v) for v in pred.tolist()] == [list(Fraction(*v).as_integer_ratio()) for v in case["pred"]]
            else:
                g = Stub(TaskType.MULTICLASS_CLASSIFICATION, num_classes=4, metric=Metric.ACCURACY)
                target = torch.tensor(case["target"], dtype=DT[fm["target_dtype"] or "long"])
                pred = torch.tensor(case["pred"], dtype=DT[fm["pred_dtype"] or "long"])
            score = (g.compute_metric(target=target, pred=pred) if fm["call"] == "kw"
                     else g.compute_metric(target, pred))
            return {"ok": True, "score": _fr(score), "score_type": type(score).__name__}
        except Exception as ex:
            return {"ok": False, "exc": C.exc_name(ex), "tb": C.fmt_exc()}
    # guard
    from torch_frame import TensorFrame, stype
    tf = TensorFrame({stype.numerical: torch.tensor([[0.5], [1.5]])}, {stype.numerical: ["a"]},
                     y=torch.tensor([0.0, 1.0]))
    g = Stub(TaskType.REGRESSION)
    g.model = _Model()            # so that only the guard stands between an unfitted model and save()
    d = os.path.join(C.BUILD, f"c20_save_{os.getpid()}")
    steps = []
    try:
        import pathlib
        tf_noy = TensorFrame({stype.numerical: torch.tensor([[0.5], [1.5]])}, {stype.numerical: ["a"]})
        forms = case.get("forms") or [None] * len(case["ops"])
        full = os.path.join(d, "sub", "model.bin")
        for op, fm in zip(case["ops"], forms):
            try:
                if op == "tune":
                    g.fail_next = False
                    if fm == "pos":
                        g.tune(tf, tf, 1)
                    elif fm == "extra_kwargs":
                        g.tune(tf_train=tf, tf_val=tf, num_trials=1, num_boost_round=5, early_stopping_rounds=2)
                    else:
                        g.tune(tf, tf, num_trials=1)
                elif op == "tune_fail":
                    g.fail_next = fm in (None, "raise")
                    g.tune(tf_noy if fm == "noy_train" else tf, tf_noy if fm == "noy_val" else tf, num_trials=1)
                elif op == "predict":
                    p = g.predict(tf_test=tf) if fm == "kw" else g.predict(tf)
                    assert len(p) == 2
                elif op == "save":
                    if fm == "nodir":
                        g.save("c20_model_without_directory.bin")     # only drawn while the guard must raise
                    elif fm == "path":
                        g.save(pathlib.Path(full))
                    elif fm == "kw":
                        g.save(path=full)
                    else:
                        g.save(full)
                else:
                    if fm == "path":
                        g.load(pathlib.Path(full))
                    elif fm == "kw":
                        g.load(path=full)
                    else:
                        g.load(full)
                steps.append({"ok": True, "fitted": bool(g.is_fitted)})
            except Exception as ex:
                steps.append({"ok": False, "exc": C.exc_name(ex), "fitted": bool(g.is_fitted)})
    finally:
        shutil.rmtree(d, ignore_errors=True)
    return {"steps": steps}


# ----------------------------------------------------------------- direct oracle
def F(v):
    """written-out value -> comparable: None | "inf" / "-inf" | "negzero" | Fraction"""
    if v is None:
        return None
    if v[0] == "inf":
        return "inf" if v[1] > 0 else "-inf"
    if v[0] == "negzero":
        return "negzero"
    return Fraction(v[0], v[1])


def ref_matrix(case, lib):
    """categorical | numerical | flattened embedding, row by row"""
    rows = []
    for i in range(case["n"]):
        r = []
        if case["cat"]:
            for z in case["cat"]["rows"][i]:
                r.append(None if (lib == "xgb" and z == -1) else Fraction(z))
        if case["num"]:
            r += [F(v) for v in case["num"]["rows"][i]]
        if case["emb"]:
            for cell in case["emb"]["rows"][i]:
                r += [F(v) for v in cell]
        rows.append(r)
    return rows


def ref_width(case):
    wc = len(case["cat"]["names"]) if case["cat"] else 0
    wn = len(case["num"]["names"]) if case["num"] else 0
    we = sum(case["emb"]["dims"]) if case["emb"] else 0
    return wc, wn, we


def _obs_rows(rows):
    return [[F(v) for v in r] for r in rows]


def oracle_adapter(case, obs):
    if case.get("model_only_f32"):
        return None
    if obs.get("emb_cells_readback") is False:
        return dict(key="harness-emb-readback", what="embedding cells read back differ from the cells written")
    for lib in ("xgb", "cat", "lgbm"):
        f = judge_lib(case, lib, obs[lib])
        if f:
            return f
    return None


def judge_lib(case, lib, o):
    """one adapter call against the per-frame definition (feature matrix, target, types / cat indices)"""
    wc, wn, we = ref_width(case)
    empty = not (case["cat"] or case["num"] or case["emb"])
    expy = None if case["y"] is None else [F(v) for v in case["y"]["v"]]
    for _once in (0,):
        if empty:
            if o["ok"]:
                return dict(key=f"adapter:{lib}:accepts-empty",
                            what=f"{lib} adapter accepted a frame without categorical/numerical/embedding columns",
                            observed=o)
            return None
        if not o["ok"]:
            return dict(key=f"adapter:{lib}:raised", what=f"{lib} adapter raised {o['exc']} on a valid frame", observed=o)
        exp = ref_matrix(case, lib)
        if lib == "xgb":
            shape, got = o["feat"]["shape"], o["feat"]["rows"]
        else:
            shape, got = o["shape"], o["rows"]
        if shape != [case["n"], wc + wn + we]:
            return dict(key=f"adapter:{lib}:shape", what=f"{lib}: shape {shape}, expected {[case['n'], wc + wn + we]}",
                        expected=[case["n"], wc + wn + we], observed=shape)
        got = _obs_rows(got)
        if got != exp:
            for i, (gr, er) in enumerate(zip(got, exp)):
                for j, (g, e) in enumerate(zip(gr, er)):
                    if g != e:
                        region = "categorical" if j < wc else "numerical" if j < wc + wn else "embedding"
                        return dict(key=f"adapter:{lib}:value:{region}",
                                    what=f"{lib}: entry [{i},{j}] ({region} region) is {g}, the table has {e} there",
                                    expected=[[str(x) for x in r] for r in exp],
                                    observed=[[str(x) for x in r] for r in got])
            return dict(key=f"adapter:{lib}:value", what=f"{lib}: matrix differs", expected=str(exp), observed=str(got))
        gy = None if o["y"] is None else _obs_rows([o["y"]])[0]
        if gy != expy:
            return dict(key=f"adapter:{lib}:y", what=f"{lib}: target not passed through", expected=str(expy), observed=str(gy))
        if lib == "xgb":
            if o["types"] != ["c"] * wc + ["q"] * (wn + we):
                return dict(key="adapter:xgb:types", what="xgboost feature types do not flag exactly the categorical columns",
                            expected=["c"] * wc + ["q"] * (wn + we), observed=o["types"])
        else:
            if o["cat_features"] != list(range(wc)):
                return dict(key=f"adapter:{lib}:cat_features", what=f"{lib}: cat_features are not exactly the categorical columns",
                            expected=list(range(wc)), observed=o["cat_features"])
            if o["columns"] != list(range(wc + wn + we)):
                return dict(key=f"adapter:{lib}:columns", what=f"{lib}: column labels are not 0..width-1",
                            expected=list(range(wc + wn + we)), observed=o["columns"])
            if o["index"] != list(range(case["n"])):
                return dict(key=f"adapter:{lib}:index", what=f"{lib}: rows are not in order 0..n-1", observed=o["index"])
    return None


def oracle_history(case, obs):
    if obs.get("emb_cells_readback") is False:
        return dict(key="harness-emb-readback", what="embedding cells read back differ from the cells written")
    calls = {}
    for k, (st, o) in enumerate(zip(case["steps"], obs["steps"])):
        lib = st["lib"]
        tag = st["obj"]
        before = calls.get((lib, tag), 0) if tag == "shared" else 0
        f = judge_lib(case["frames"][st["frame"]], lib, o)
        if f:
            sub = f["key"].split(":", 2)[2] if f["key"].count(":") >= 2 else f["key"]
            f["key"] = f"history:{lib}:{sub}"
            f["what"] = (f"step {k} ({lib}, {tag} object, {before} earlier call(s) on it, frame {st['frame']}): "
                         + f["what"])
            f["step"] = k
            return f
        calls[(lib, tag)] = before + 1
    for k, (st, ok) in enumerate(zip(case["steps"], obs["unchanged_later"])):
        if not ok:
            return dict(key=f"history:{st['lib']}:aliasing",
                        what=f"the value returned by step {k} ({st['lib']}) changed after later adapter calls", step=k)
    return None


def ref_metric(case):
    mk = case["metric"]
    n = len(case["target"])
    if mk == "rmse":
        return sum((Fraction(*p) - Fraction(*t)) ** 2 for p, t in zip(case["pred"], case["target"])) / n   # MSE
    if mk == "mae":
        return sum(abs(Fraction(*p) - Fraction(*t)) for p, t in zip(case["pred"], case["target"])) / n
    if mk == "acc_bin":
        return Fraction(sum(1 for p, t in zip(case["pred"], case["target"])
                            if (1 if Fraction(*p) > Fraction(1, 2) else 0) == t), n)
    return Fraction(sum(1 for p, t in zip(case["pred"], case["target"]) if p == t), n)


def oracle(case, obs):
    if obs is None or "harness_exc" in obs:
        return dict(key="harness-exc", what="harness failed to run the case: " + str(obs and obs.get("harness_exc")),
                    tb=obs and obs.get("tb"))
    kind = case["kind"]
    if kind == "adapter":
        return oracle_adapter(case, obs)
    if kind == "history":
        return oracle_history(case, obs)
    if kind == "pair":
        t, m = case["task"], case["metric"]
        if m is None and t not in REF_DEFAULT:
            # NOT backed by the statement: constructing a model for a task that has no default metric, without
            # asking for one (the current code raises KeyError).  Either a raise or a model without a metric is
            # accepted; a metric the task does not support is not ("the default metric follows the task type").
            if obs["ok"] and obs["metric"] is not None and obs["metric"] not in REF_SUPPORTED[t]:
                return dict(key=f"pair:default:{t}:None", what=f"GBDT({t}) selected {obs['metric']}, which {t} does not support",
                            expected="a raise or no metric", observed=obs)
            return None
        if m is None:
            exp = REF_DEFAULT.get(t)
        else:
            exp = m if (m in REF_SUPPORTED[t] and t in REF_DEFAULT) else None
        got = obs["metric"] if obs["ok"] else None
        if got != exp:
            if exp is None:
                return dict(key=f"pair:accepted:{t}:{m}", what=f"GBDT({t}, metric={m}) was accepted with metric {got}",
                            expected="raise", observed=got)
            return dict(key=f"pair:{'default' if m is None else 'request'}:{t}:{m}",
                        what=f"GBDT({t}, metric={m}) selected {got if obs['ok'] else 'an exception (' + obs['exc'] + ')'}, "
                             f"expected {exp}", expected=exp, observed=obs)
        return None
    if kind == "metric":
        mk = case["metric"]
        if not obs["ok"]:
            return dict(key=f"metric:{mk}:raised", what=f"compute_metric raised {obs['exc']}", tb=obs.get("tb"))
        ref = ref_metric(case)
        got = obs["score"]
        if got is None or got[0] == "inf":
            return dict(key=f"metric:{mk}:value", what=f"{mk}: score is not finite", expected=str(ref), observed=got)
        g = Fraction(got[0], got[1])
        if mk == "rmse":
            bad = g < 0 or abs(g * g - ref) > Fraction(1, 100000) * (1 + ref)
        elif mk == "mae":
            bad = abs(g - ref) > Fraction(1, 1000000) * (1 + ref)
        else:
            bad = abs(g - ref) > Fraction(1, 10 ** 12)
        if bad:
            hits = mk == "acc_bin" and any(Fraction(*p) == Fraction(1, 2) for p in case["pred"])
            return dict(key=f"metric:{mk}:value" + (":score-0.5" if hits else ""),
                        what=f"{mk}: compute_metric returned {float(g)!r}, the definition gives "
                             f"{'sqrt of ' if mk == 'rmse' else ''}{ref} (= {float(ref)!r})",
                        expected=str(ref), observed=float(g))
        return None
    # guard
    # fitted: False / True / None (unknown: no demand until the next tune / load)
    fitted = False
    forms = case.get("forms") or [None] * len(case["ops"])
    for k, (op, fm, st) in enumerate(zip(case["ops"], forms, obs["steps"])):
        if op == "tune":
            exp_ok, fitted = True, True
        elif op == "tune_fail":
            # NOT backed by the statement: that tune() itself raises (because y is None, or because the subclass'
            # _tune raised).  A raise leaves the model as it was; a normal return with y = None means the model was
            # tuned; a normal return after a failing _tune leaves the state unknown.
            if st["ok"]:
                fitted = True if fm in ("noy_train", "noy_val") else None
            continue
        elif op == "load":
            exp_ok, fitted = True, True
        else:
            if fitted is None:
                continue
            exp_ok = fitted
        if st["ok"] != exp_ok:
            if exp_ok:
                return dict(key=f"guard:{op}:raised", what=f"step {k} {op} raised {st.get('exc')} on a fitted model",
                            expected="ok", observed=st)
            return dict(key=f"guard:{op}:no-raise", what=f"step {k}: {op} before a successful tune()/load() did not raise",
                        expected="raise", observed=st)
    return None


def shrink(case):
    kind = case["kind"]
    if kind == "history":
        steps = case["steps"]
        for k in range(len(steps)):
            yield dict(case, steps=steps[:k] + steps[k + 1:])
        used = sorted({st["frame"] for st in steps})
        if len(used) < len(case["frames"]):
            yield dict(case, frames=[case["frames"][i] for i in used],
                       steps=[dict(st, frame=used.index(st["frame"])) for st in steps])
        for k, st in enumerate(steps):
            if st["obj"] == "shared":
                yield dict(case, steps=steps[:k] + [dict(st, obj="fresh")] + steps[k + 1:])
        for i, f in enumerate(case["frames"]):
            for g in shrink(f):
                if g.get("kind") == "adapter":
                    yield dict(case, frames=case["frames"][:i] + [g] + case["frames"][i + 1:])
        return
    if kind == "guard":
        ops = case["ops"]
        for k in range(len(ops)):
            yield dict(case, ops=ops[:k] + ops[k + 1:])
    elif kind == "metric":
        n = len(case["target"])
        for k in range(n):
            if n > 1:
                yield dict(case, target=case["target"][:k] + case["target"][k + 1:], pred=case["pred"][:k] + case["pred"][k + 1:])
    elif kind == "adapter":
        if case["ignored"]:
            yield dict(case, ignored=[], order=[o for o in case["order"] if o not in IGNORED])
        if case["y"] is not None:
            yield dict(case, y=None)
        for key, full in (("cat", "categorical"), ("num", "numerical"), ("emb", "embedding")):
            if case[key]:
                yield dict(case, **{key: None}, order=[o for o in case["order"] if o != full])
        n = case["n"]
        for k in range(n):
            c = dict(case, n=n - 1)
            for key in ("cat", "num", "emb"):
                if case[key]:
                    c[key] = dict(case[key], rows=case[key]["rows"][:k] + case[key]["rows"][k + 1:])
            if case["y"] is not None:
                c["y"] = dict(case["y"], v=case["y"]["v"][:k] + case["y"]["v"][k + 1:])
            yield c
        for key in ("cat", "num"):
            if case[key] and len(case[key]["names"]) > 1:
                for j in range(len(case[key]["names"])):
                    yield dict(case, **{key: dict(names=case[key]["names"][:j] + case[key]["names"][j + 1:],
                                                  rows=[r[:j] + r[j + 1:] for r in case[key]["rows"]])})
        if case["emb"] and len(case["emb"]["names"]) > 1:
            e = case["emb"]
            for j in range(len(e["names"])):
                yield dict(case, emb=dict(names=e["names"][:j] + e["names"][j + 1:], dims=e["dims"][:j] + e["dims"][j + 1:],
                                          rows=[r[:j] + r[j + 1:] for r in e["rows"]]))


def nontrivial_sig(case, obs):
    if obs is None or "harness_exc" in obs:
        return None
    kind = case["kind"]
    if kind == "adapter":
        present = [k for k in ("cat", "num", "emb") if case[k]]
        if case["n"] == 0 and present:
            return None
        has_m1 = bool(case["cat"]) and any(-1 in r for r in case["cat"]["rows"])
        has_nan = bool(case["num"]) and any(None in r for r in case["num"]["rows"])
        return json.dumps(["adapter", present, case["n"], ref_width(case), has_m1, has_nan,
                           None if case["y"] is None else case["y"]["dtype"], case["ignored"], case["order"]])
    if kind == "history":
        return json.dumps(["history", [_layout(f) for f in case["frames"]],
                           [(st["frame"], st["lib"], st["obj"]) for st in case["steps"]]])
    if kind == "metric":
        hits = case["metric"] == "acc_bin" and any(Fraction(*p) == Fraction(1, 2) for p in case["pred"])
        return json.dumps(["metric", case["metric"], len(case["target"]), hits, obs.get("score")])
    if kind == "pair":
        return json.dumps(["pair", case["task"], case["metric"]])
    if not any(o in ("predict", "save") for o in case["ops"]):
        return None
    return json.dumps(["guard", case["ops"]])


# every call form / representation that sanity() requires to be drawn (name -> values)
NEED = {"tf_derive": ("None", "slice", "index", "mask", "range", "list"), "tf_call": ("pos", "kw"),
        "num_dtype": ("float32", "float64"), "emb_form": ("list", "colslice", "ctor"),
        "y": ("none", "long", "float32", "float64"), "metric_call": ("pos", "kw"),
        "metric_dtypes:rmse": ("float32/float32", "float64/float64", "float32/float64"),
        "metric_dtypes:mae": ("float32/float32", "float64/float64", "float32/float64"),
        "metric_dtypes:acc_bin": ("long/float32", "long/float64", "int32/float32", "float32/float32", "bool/float32"),
        "metric_dtypes:acc_multi": ("long/long", "long/float32", "int32/int32", "float32/float32"),
        "init_style": ("pos", "kw", "mixed"), "init_num_classes": ("None", "2", "3", "10"),
        "op:tune": ("pos", "kw", "extra_kwargs"), "op:tune_fail": ("raise", "noy_train", "noy_val"),
        "op:predict": ("pos", "kw"), "op:save": ("str", "path", "kw", "nodir"), "op:load": ("str", "path", "kw"),
        "hist_step": ("shared", "fresh")}


def form_tokens(c):
    """(name, value) pairs of the call forms / representations a case exercises"""
    out = []
    k = c["kind"]
    for fcase in ([c] if k == "adapter" else c["frames"] if k == "history" else []):
        f = fcase.get("form")
        if f:
            out.append(("tf_derive", str(f["derive"])))
            out.append(("tf_call", f["call"]))
            if fcase["num"]:
                out.append(("num_dtype", f["num_dtype"]))
            if fcase["emb"]:
                out.append(("emb_form", f["emb_form"]))
            out.append(("y", "none" if fcase["y"] is None else
                        ("long" if fcase["y"]["dtype"] == "long" else f["y_float"])))
    if k == "history":
        out += [("hist_step", st["obj"]) for st in c["steps"]]
    if k == "metric" and c.get("form"):
        out.append(("metric_call", c["form"]["call"]))
        out.append(("metric_dtypes:" + c["metric"], c["form"]["target_dtype"] + "/" + c["form"]["pred_dtype"]))
    if k == "pair" and c.get("form"):
        out.append(("init_style", c["form"]["style"]))
        out.append(("init_num_classes", str(c["form"]["num_classes"])))
    if k == "guard" and c.get("forms"):
        out += [("op:" + op, str(fm)) for op, fm in zip(c["ops"], c["forms"])]
    return out


REQUIRED_SEED = 20200020


def required_cases():
    """A DETERMINISTIC stream (own constant seed, independent of VERIF_SEED and of the tier) that covers, greedily,
    every call form sanity() requires.  Together with the hand-written boundary cases and the exhaustive
    enumerations it satisfies sanity() alone; the run's seed only drives the additional random stream."""
    rng = C.Rng(REQUIRED_SEED)
    pool = ([gen_adapter(rng, "quick") for _ in range(150)] + [gen_history(rng, "quick") for _ in range(40)]
            + [gen_metric(rng, "quick") for _ in range(300)] + [gen_guard(rng, "quick") for _ in range(60)]
            + [{"kind": "guard", "ops": ["save", "tune", "save", "load", "predict"],
                "forms": ["nodir", "extra_kwargs", "path", "kw", "kw"]}])
    need = {(n, v) for n, vals in NEED.items() for v in vals if not n.startswith("init_")}
    chosen = []
    for c in pool:
        new = set(form_tokens(c)) & need
        if new:
            chosen.append(dict(c, required=True))
            need -= new
    if need:
        raise AssertionError(f"required stream does not cover {sorted(need)}")
    return chosen


def stats(cases, obss):
    d = {"total": 0, "kinds": {}, "adapter_subsets": {}, "adapter_rows": {}, "with_y": 0, "with_ignored": 0,
         "with_minus1": 0, "with_nan": 0, "rejected_empty": 0, "metric_kinds": {}, "binary_with_exact_half": 0,
         "guard_lengths": {}, "guard_error_steps": 0, "guard_ok_steps": 0, "pairs_accepted": 0, "pairs_rejected": 0}
    for c, o in zip(cases, obss):
        if c is None or o is None or "harness_exc" in o:
            continue
        d["total"] += 1
        if c.get("boundary"):
            d.setdefault("boundaries", {})
            d["boundaries"][c["boundary"]] = d["boundaries"].get(c["boundary"], 0) + 1
        k = c["kind"]
        d["kinds"][k] = d["kinds"].get(k, 0) + 1
        fr = d.setdefault("forms", {})
        for name, val in form_tokens(c):
            fr.setdefault(name, {})
            fr[name][val] = fr[name].get(val, 0) + 1
        if k == "adapter":
            sub = "+".join(x for x in ("cat", "num", "emb") if c[x]) or "none"
            d["adapter_subsets"][sub] = d["adapter_subsets"].get(sub, 0) + 1
            d["adapter_rows"][c["n"]] = d["adapter_rows"].get(c["n"], 0) + 1
            d["with_y"] += c["y"] is not None
            d["with_ignored"] += bool(c["ignored"])
            d["with_minus1"] += bool(c["cat"]) and any(-1 in r for r in c["cat"]["rows"])
            d["with_nan"] += bool(c["num"]) and any(None in r for r in c["num"]["rows"])
            d["rejected_empty"] += not o["xgb"]["ok"]
            d["zero_rows_with_embedding"] = d.get("zero_rows_with_embedding", 0) + (c["n"] == 0 and bool(c["emb"]))
        elif k == "history":
            h = d.setdefault("history", {"steps": 0, "shared_steps": 0, "fresh_steps": 0, "libs_as_long_lived": {},
                                         "shared_object_sees_cat_layout_change": 0, "with_frame_without_cat": 0})
            h["steps"] += len(c["steps"])
            seen = {}
            changed = False
            for st in c["steps"]:
                h["shared_steps" if st["obj"] == "shared" else "fresh_steps"] += 1
                if st["obj"] == "shared":
                    wc = ref_width(c["frames"][st["frame"]])[0]
                    if st["lib"] in seen and seen[st["lib"]] != wc:
                        changed = True
                        h["libs_as_long_lived"][st["lib"]] = h["libs_as_long_lived"].get(st["lib"], 0) + 1
                    seen.setdefault(st["lib"], wc)
            h["shared_object_sees_cat_layout_change"] += changed
            h["with_frame_without_cat"] += any(not f["cat"] for f in c["frames"])
        elif k == "metric":
            d["metric_kinds"][c["metric"]] = d["metric_kinds"].get(c["metric"], 0) + 1
            d["binary_with_exact_half"] += c["metric"] == "acc_bin" and any(Fraction(*p) == Fraction(1, 2) for p in c["pred"])
        elif k == "pair":
            d["pairs_accepted" if o["ok"] else "pairs_rejected"] += 1
        else:
            d["guard_lengths"][len(c["ops"])] = d["guard_lengths"].get(len(c["ops"]), 0) + 1
            d["guard_error_steps"] += sum(1 for s in o["steps"] if not s["ok"])
            d["guard_ok_steps"] += sum(1 for s in o["steps"] if s["ok"])
    return d


def sanity(cases, obss):
    """Fail-closed distribution check.  Every coverage requirement is evaluated over the DETERMINISTIC prefix
    alone (cases flagged det: boundaries, required stream, enumerations), so it cannot depend on the run's seed;
    the ratio checks look at the whole run."""
    det = [(c, o) for c, o in zip(cases, obss) if c is not None and c.get("det")]
    d_all = stats(cases, obss)
    d = stats([c for c, _ in det], [o for _, o in det])
    probs = []
    if d_all["total"] - d["total"] <= 0:
        probs.append("no random stream besides the deterministic prefix")
    na_all = max(1, d_all["kinds"].get("adapter", 0))
    if d_all["rejected_empty"] > 0.2 * na_all:
        probs.append("too many rejected (empty) frames in the whole run")
    for b in BOUNDARY_NAMES:
        if d.get("boundaries", {}).get(b, 0) == 0:
            probs.append(f"boundary {b} not hit")
    for sub in ("none", "cat", "num", "emb", "cat+num", "cat+emb", "num+emb", "cat+num+emb"):
        if d["adapter_subsets"].get(sub, 0) == 0:
            probs.append(f"stype subset {sub} never drawn")
    for n in (0, 1, 2, 3):
        if d["adapter_rows"].get(n, 0) == 0:
            probs.append(f"no frame with {n} rows")
    if d.get("zero_rows_with_embedding", 0) == 0:
        probs.append("no zero-row frame with an embedding block")
    for k in ("with_y", "with_ignored", "with_minus1", "with_nan", "rejected_empty", "binary_with_exact_half"):
        if d[k] == 0:
            probs.append(f"{k} is 0")
    na = max(1, d["kinds"].get("adapter", 0))
    if d["rejected_empty"] > 0.2 * na:
        probs.append("too many rejected (empty) frames")
    if d["with_y"] == na:
        probs.append("no frame without y")
    need = NEED
    for name, vals in need.items():
        for v in vals:
            if d.get("forms", {}).get(name, {}).get(v, 0) == 0:
                probs.append(f"call form {name}={v} never drawn")
    h = d.get("history")
    if not h or h["fresh_steps"] == 0 or h["shared_steps"] == 0:
        probs.append("no multi-frame histories (shared and fresh adapter objects)")
    else:
        for lib in LIBS:
            if h["libs_as_long_lived"].get(lib, 0) == 0:
                probs.append(f"no history in which one {lib} object converts frames with different categorical widths")
        if h["with_frame_without_cat"] == 0:
            probs.append("no history with a frame without categorical columns")
    for m in ("rmse", "mae", "acc_bin", "acc_multi"):
        if d["metric_kinds"].get(m, 0) == 0:
            probs.append(f"metric {m} never drawn")
    if d["kinds"].get("pair", 0) != len(TASKS) * (len(METRICS) + 1):
        probs.append("the (task, metric) table is not enumerated completely")
    if d["pairs_accepted"] == 0 or d["pairs_rejected"] == 0:
        probs.append("(task, metric) pairs all accepted or all rejected")
    if sum(v for k, v in d["guard_lengths"].items() if int(k) <= 3) < sum(len(GOPS) ** L for L in (1, 2, 3)):
        probs.append("guard sequences up to length 3 are not enumerated completely")
    if d["guard_error_steps"] == 0 or d["guard_ok_steps"] == 0:
        probs.append("guard steps all ok or all errors")
    return probs


# ----------------------------------------------------------------- Coq side
def cq(v):
    return f"(Qmake {C.cz(v[0])} {v[1]}%positive)"


def cval(v):
    if v is None:
        return "None"
    if v[0] == "inf":
        raise ValueError("infinite observation")
    if v[0] == "negzero":
        return "(Some (Qmake 0 1))"                  # the model is value-level: -0.0 = 0
    return f"(Some {cq(v)})"


def cnat(n):
    return f"{n}%nat"


def coq_dict(case):
    """the frame as the dictionary the code holds: feat_dict in insertion order, ignored stypes included"""
    def feat(f, pr):
        return (f"{{| f_names := {cnat(len(f['names']))}; f_width := {cnat(len(f['names']))}; "
                f"f_rows := {C.clist(f['rows'], lambda r: C.clist(r, pr))} |}}")
    ents = []
    for key in case["order"]:
        if key == "categorical":
            ents.append(f"(st_categorical, PCat {feat(case['cat'], C.cz)})")
        elif key == "numerical":
            ents.append(f"(st_numerical, PNum {feat(case['num'], cval)})")
        elif key == "embedding":
            e = case["emb"]
            ents.append(f"(st_embedding, PEmb {{| e_names := {cnat(len(e['names']))}; e_dims := {C.clist(e['dims'], cnat)}; "
                        f"e_rows := {C.clist(e['rows'], lambda r: C.clist(r, lambda c: C.clist(c, cval)))} |}})")
        else:
            assert key in IGNORED, key
            ents.append(f"(st_{key}, POther)")
    y = "None" if case["y"] is None else "(Some " + C.clist(case["y"]["v"], cval) + ")"
    return "[" + "; ".join(ents) + "]", y


def _has_inf(case):
    vals = []
    if case["num"]:
        vals += [v for r in case["num"]["rows"] for v in r]
    if case["emb"]:
        vals += [v for r in case["emb"]["rows"] for c in r for v in c]
    if case["y"] is not None:
        vals += case["y"]["v"]
    return any(v is not None and v[0] == "inf" for v in vals)


def coq_with_tf(case, body):
    """bind `tf` to the model's view of the dictionary (frame_of_dict) and evaluate `body`"""
    d, y = coq_dict(case)
    return f"(match frame_of_dict {d} {y} with Some tf => {body} | None => false end)"


def coq_block(rows):
    return C.clist(rows, lambda r: C.clist(r, cval))


def coq_oy(y):
    return "None" if y is None else "(Some " + C.clist(y, cval) + ")"


def coq_lib_term(lib, o, frame=None):
    """model of one adapter on `tf` (bound by the caller) against one observed call"""
    f64 = C.cbool(bool(frame) and (frame.get("form") or {}).get("num_dtype") == "float64")
    if lib == "xgb":
        if o["ok"]:
            if o["feat"]["rows"] is None or any(t not in ("c", "q") for t in o["types"]):
                return "false"
            types = C.clist(o["types"], lambda t: {"c": "FC", "q": "FQ"}[t])
            ox = f"(Some ({coq_block(o['feat']['rows'])}, {coq_oy(o['y'])}, {types}))"
        else:
            ox = "None"
        # both the value-level model and the model with the float32 casts as written (Props/C20.v 5b)
        if frame and frame.get("model_only_f32"):
            return f"xgb_eqb (to_xgboost_input_f32 {f64} tf) {ox}"
        return f"(xgb_eqb (to_xgboost_input tf) {ox} && xgb_eqb (to_xgboost_input_f32 {f64} tf) {ox})"
    fn = "to_catboost_input" if lib == "cat" else "to_lightgbm_input"
    if o["ok"]:
        if any(c < 0 for c in o["columns"] + o["cat_features"]):
            return "false"
        oo = (f"(Some ({C.clist(o['columns'], cnat)}, {coq_block(o['rows'])}, {coq_oy(o['y'])}, "
              f"{C.clist(o['cat_features'], cnat)}))")
    else:
        oo = "None"
    return f"df_eqb ({fn} tf) {oo}"


def coq_term(case, obs):
    if obs is None or "harness_exc" in obs:
        return None
    kind = case["kind"]
    if kind == "adapter" and _has_inf(case):
        return None                                   # the model's values are rationals / NaN: inf is oracle-only
    if kind == "history" and any(_has_inf(f) for f in case["frames"]):
        return None
    if kind == "adapter":
        return coq_with_tf(case, " && ".join(coq_lib_term(lib, obs[lib], case) for lib in LIBS))
    if kind == "history":
        # every call of the history against the (stateless) model of its adapter on its own frame
        terms = [coq_with_tf(case["frames"][st["frame"]], coq_lib_term(st["lib"], o, case["frames"][st["frame"]]))
                 for st, o in zip(case["steps"], obs["steps"])]
        terms.append(C.cbool(all(obs["unchanged_later"])))
        return "(" + " && ".join(terms) + ")"
    if kind == "pair" and case["metric"] is None and case["task"] not in REF_DEFAULT and obs["ok"]:
        return None          # the model mirrors the current code's raise, which the statement does not demand
    if kind == "guard" and any(op == "tune_fail" and st["ok"] for op, st in zip(case["ops"], obs["steps"])):
        return None          # likewise for a tune() that did not raise
    if kind == "pair":
        m = "None" if case["metric"] is None else f"(Some met_{case['metric'].upper()})"
        o = f"(Some met_{obs['metric'].upper()})" if obs["ok"] else "None"
        return f"ometric_eqb (gbdt_init task_{case['task'].upper()} {m}) {o}"
    if kind == "metric":
        if not obs["ok"] or obs["score"] is None or obs["score"][0] == "inf":
            return "false"
        s = cq(obs["score"])
        mk = case["metric"]
        if mk in ("rmse", "mae"):
            t = C.clist(case["target"], cq)
            p = C.clist(case["pred"], cq)
            if mk == "rmse":
                return f"q_close (Qmake 1 100000) (Qmult {s} {s}) (mse {t} {p})"
            return f"q_close (Qmake 1 1000000) {s} (mae {t} {p})"
        t = C.clist(case["target"], C.cz)
        if mk == "acc_bin":
            return f"q_close (Qmake 1 1000000000000) {s} (accuracy_binary {t} {C.clist(case['pred'], cq)})"
        return f"q_close (Qmake 1 1000000000000) {s} (accuracy_labels {t} {C.clist(case['pred'], C.cz)})"
    ops = C.clist(case["ops"], lambda o: {"tune": "OTune true", "tune_fail": "OTune false", "predict": "OPredict",
                                          "save": "OSave", "load": "OLoad"}[o])
    o = C.clist(obs["steps"], lambda s: f"({'ROk' if s['ok'] else 'RErr'}, {C.cbool(s['fitted'])})")
    return f"list_eqb gres_eqb (grun false {ops}) {o}"
