"""C01 — materialization encodes every cell faithfully, for every semantic type."""
from __future__ import annotations

import json

from harness import common as C
from harness import dfgen as G

PROP = "C01"
STYPES = ["numerical", "categorical", "multicategorical", "sequence_numerical", "timestamp", "embedding"]
RULE = ("DataFrames of 1-10 rows with 1-7 columns drawn from six stypes (+ numerical/categorical target), "
        "missing patterns, both pandas string dtypes, separators/time formats, five index labelings; distinct = "
        "distinct (stype multiset, dtypes, n, missing pattern signature); non-trivial = at least one non-missing cell")
TRUSTED = [
    "Coq 8.16.1 kernel + vm_compute",
    "hand-written model coq/Model/Mapper.v of the TensorMapper pipelines (categorical merge, multicategorical "
    "split/explode/merge/offsets, sequence offsets, timestamp components via Lib/Calendar.v), tied to /repo by this "
    "run's correspondence",
    "modelled primitives: pandas merge/explode/value_counts/to_datetime (black boxes validated per run), "
    "string->float and strptime parsing (not modelled)",
    "harness/dfgen.py independent cell-by-cell encoder",
]
ASSUMPTIONS = ["float payloads are dyadic rationals so float32/float64 casts are exact",
               "date recognition/parsing is pandas'; the generator emits explicit formats or datetime64"]


def generate(rng, tier):
    n = 500 if tier == "quick" else 6000
    return [G.gen_frame(rng, stypes=STYPES) for _ in range(n)]


def run(case):
    try:
        ds, _ = G.build_dataset(case)
        ds.materialize()
    except Exception as ex:
        return {"ok": False, "exc": C.exc_name(ex), "msg": str(ex)[:300], "tb": C.fmt_exc()}
    return {"ok": True, "tf": G.read_tf(ds.tensor_frame), "stats": G.read_stats(ds.col_stats)}


def locate(tfj, col):
    parent = {"text_embedded": "embedding", "image_embedded": "embedding"}.get(col["stype"], col["stype"])
    names = tfj["names"].get(parent)
    if names is None or col["name"] not in names:
        return None
    return parent, names.index(col["name"])


def oracle(case, obs):
    if "harness_exc" in obs:
        return dict(key="harness-exc", what=obs["harness_exc"], tb=obs.get("tb"))
    if not obs["ok"]:
        sts = sorted({c["stype"] for c in case["cols"]})
        return dict(key=f"materialize-raises:{obs['exc']}", what=f"materialize raised {obs['exc']}: {obs['msg']}",
                    stypes=sts, tb=obs.get("tb"))
    tfj = obs["tf"]
    if tfj["num_rows"] != case["n"]:
        return dict(key="num-rows", what=f"frame has {tfj['num_rows']} rows, DataFrame has {case['n']}")
    for col in case["cols"]:
        stats = obs["stats"].get(col["name"], {})
        if col["name"] == case["target"]:
            if tfj["y"] is None:
                return dict(key="y-missing", what="target column not encoded into y")
            for i, cell in enumerate(col["cells"]):
                exp = G.expected_cell(col, cell, stats)
                if [tfj["y"][i]] != exp:
                    return dict(key=f"y-cell:{col['stype']}", what=f"y[{i}] = {tfj['y'][i]} but canonical encoding of "
                                f"{cell!r} is {exp}", col=col["name"], row=i)
            continue
        loc = locate(tfj, col)
        if loc is None:
            return dict(key="column-missing", what=f"column {col['name']} not in the TensorFrame")
        st, j = loc
        feat = tfj["feats"][st]
        for i, cell in enumerate(col["cells"]):
            exp = G.expected_cell(col, cell, stats)
            got = G.canon_sorted(feat[i][j], col["stype"])
            if got != exp:
                return dict(key=f"cell:{col['stype']}",
                            what=f"cell (row {i}, column {col['name']}, {col['stype']}, dtype {col['dtype']}) raw "
                                 f"{cell!r} encoded as {got}, canonical encoding is {exp}",
                            col=col["name"], row=i, stats=stats)
    return None


def shrink(case):
    # fewer columns, fewer rows
    cols = case["cols"]
    for k, c in enumerate(cols):
        if c["name"] != case["target"] and len(cols) > 1:
            rest = cols[:k] + cols[k + 1:]
            yield dict(case, cols=rest, col_order=[n for n in case["col_order"] if n != c["name"]])
    if case["n"] > 1:
        for k in range(case["n"]):
            yield dict(case, n=case["n"] - 1,
                       cols=[dict(c, cells=c["cells"][:k] + c["cells"][k + 1:]) for c in cols])
    if case["index"] != "range":
        yield dict(case, index="range")


def nontrivial_sig(case, obs):
    if not obs.get("ok"):
        return None
    if not any(cell is not None for c in case["cols"] for cell in c["cells"]):
        return None
    sig = [case["n"], case["index"], sorted((c["stype"], c["dtype"], str(c.get("sep")), str(c.get("fmt")),
                                              tuple(cell is None for cell in c["cells"])) for c in case["cols"])]
    return json.dumps(sig, default=str)


def stats(cases, obss):
    d = {"stypes": {}, "index": {}, "dtypes": {}, "rows": {}, "missing_cells": 0, "cells": 0, "raised": 0}
    for c, o in zip(cases, obss):
        if c is None:
            continue
        d["index"][c["index"]] = d["index"].get(c["index"], 0) + 1
        d["rows"][c["n"]] = d["rows"].get(c["n"], 0) + 1
        if not o.get("ok"):
            d["raised"] += 1
        for col in c["cols"]:
            d["stypes"][col["stype"]] = d["stypes"].get(col["stype"], 0) + 1
            d["dtypes"][col["dtype"]] = d["dtypes"].get(col["dtype"], 0) + 1
            d["cells"] += len(col["cells"])
            d["missing_cells"] += sum(1 for x in col["cells"] if x is None)
    return d
