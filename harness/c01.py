"""C01 — materialization encodes every cell faithfully, for every semantic type."""
from __future__ import annotations

import json

import datetime as dt
import os

os.environ.setdefault("TQDM_DISABLE", "1")   # silence the mapper progress bars (display only)

from harness import common as C
from harness import dfgen as G
from harness import matcoq as M

PROP = "C01"

# Clause-by-clause map of the property (statement + quantifier of properties.jsonl) to the oracle keys that judge it
# and the generator kinds that exercise it.  Kinds: frame (dfgen.gen_frame + vary + unlabel), family (gen_family),
# sibling (gen_sibling), calendar (gen_calendar / calendar_sweep), malformed (gen_malformed, outside the quantifier).
# "must raise / must not raise" audit.  C01's statement demands NO raise anywhere, so no oracle key demands one (the
# former guard-not-raised:* keys are gone: malformed inputs are observed, never judged).  The keys that demand a NORMAL
# return are backed by: "For every DataFrame and column-to-stype assignment, materializing yields a TensorFrame ..."
# (materialize-raises:*, by-name-raises:*, direct-mapper-raises:*), "String-valued cells are accepted whether pandas
# holds them as object or as its native string dtype" (materialize-raises on str dtype), "an unparseable timestamp
# counts as missing" (materialize-raises on 'garbage' cells), and for sibling-*-raises:* the clause "the frequency-rank
# index from the column's category statistics" applied to statistics that come from another dataset.
CLAUSES = [
    # statement
    ("entry (i, c) is the canonical encoding of df.iloc[i][c], read from the TensorFrame by name",
     ["cell:<stype>", "cell-by-name:<stype>", "by-name-raises:*", "by-name-stype", "column-missing", "num-rows"],
     ["frame", "family"]),
    ("numerical: the float value", ["cell:numerical", "direct-mapper:numerical"], ["frame", "family", "sibling"]),
    ("categorical: frequency-rank index from the column's category statistics",
     ["cell:categorical", "direct-mapper:categorical", "sibling-cell:categorical:*"], ["frame", "sibling"]),
    ("multicategorical: the set of such indices",
     ["cell:multicategorical", "direct-mapper:multicategorical", "multicat-int-token-minus-one-aliases-missing"],
     ["frame (sep / list cells, str / int tokens)"]),
    ("numerical sequences: the value sequence", ["cell:sequence_numerical", "direct-mapper:sequence_numerical"], ["frame"]),
    ("timestamps: seven calendar components", ["cell:timestamp", "direct-mapper:timestamp", "calendar-components"],
     ["frame", "calendar"]),
    ("embeddings: the given vector (also behind text_/image_embedded blocks)",
     ["cell:embedding", "cell:text_embedded", "cell:image_embedded", "direct-mapper:embedding"], ["frame", "family"]),
    ("missing -> NaN / -1 / empty sequence; unparseable timestamp counts as missing",
     ["cell:*", "y-cell:*", "calendar-components"], ["frame (miss_p, nan_kind none/nan/pynan, 'garbage' cells)", "calendar"]),
    ("the target column is encoded the same way into y", ["y-cell:<stype>", "y-missing", "sibling-cell:*"],
     ["frame (target numerical / categorical, unlabeled rows)", "sibling (integer-coded target)"]),
    ("string cells accepted as object or as native string dtype", ["materialize-raises:*", "cell:*"],
     ["frame (dtype object / str for categorical and delimiter-joined multicategorical)"]),
    # quantifier
    ("any mixture of the stypes, >= 1 row, ties / rare / repeated values, unicode / empty strings",
     ["cell:*"], ["frame (WORDS, weights, 1-10 rows)"]),
    ("delimiter-joined or list-valued cells with surrounding whitespace and repeated tokens",
     ["cell:multicategorical"], ["frame + vary (multi-char separators, unicode whitespace)"]),
    ("ragged numeric sequences containing NaN", ["cell:sequence_numerical"], ["frame"]),
    ("dates 1700-2200 in several explicit formats and as datetime64", ["cell:timestamp", "calendar-components"],
     ["frame (FMTS)", "calendar", "calendar_sweep (thorough)"]),
    ("any embedding width", ["cell:embedding"], ["frame (1-5)", "family (1, 4, 5 next to embedders of width 3 / 2)"]),
    ("any separator / time-format configuration (str, dict, partial dict, None); every other public parameter form",
     ["materialize-raises:*", "cache-reload", "cell:*"], ["forms (matcoq.draw_forms): see SIGNATURE"]),
    ("statistics may come from another dataset (materialize(col_stats=), fitted converter)",
     ["sibling-cell:*", "sibling-*-raises:*"], ["sibling"]),
]
# Every raise / assert / special-case branch / dtype cast of the anchored code that C01 reaches (mapper.py, and the
# parts of dataset.py / stats.py materialize() goes through), the generator kind that reaches it and the oracle key
# that notices if it is removed, loosened or replaced by a default.  (Dataset-level guards: harness/c02.py.)
ERROR_PATHS = [
    # mapper.py -- casts
    ("NumericalTensorMapper: ser.values.astype(default dtype) + from_numpy (a COPY, any float/int/nullable backing, "
     "any memory layout)", "frame/family/large with num_dtype x layout", ["cell:numerical", "y-cell:numerical",
                                                                        "materialize-raises:*", "aliases-dataframe"]),
    ("CategoricalTensorMapper: keys .astype(object), reset_index, merge; index[isnan] = -1; .to(long)",
     "frame (str/int categories, missing cells), sibling (int64/float64/object)", ["cell:categorical", "sibling-cell:*"]),
    ("MultiCategoricalTensorMapper: dtype gate ValueError (non object/str dtype)", "malformed float64-all-nan-multicat",
     ["observed only (no statement of C01 demands the raise); model predicts it when it happens"]),
    ("split_by_sep: assert sep is not None / assert sep is None / ValueError for a non-str non-iterable cell",
     "malformed str-without-sep / list-with-sep / multicat-number-cell", ["observed only"]),
    ("split_by_sep: missing -> {-1}; blank -> set(); strip; set()", "frame + vary", ["cell:multicategorical"]),
    ("multicat: index.astype(int64), value_counts/reindex/cumsum offsets", "frame (dup labels, empty / missing cells)",
     ["cell:multicategorical", "materialize-raises:*"]),
    ("NumericalSequenceTensorMapper.get_sequence_length: ValueError for a non-list cell", "malformed seq-string-cell",
     ["observed only"]),
    ("sequence: ser[offset != 0], values.astype(float32)", "frame (empty / missing / NaN-holding sequences)",
     ["cell:sequence_numerical"]),
    ("TimestampTensorMapper: to_datetime(errors='coerce'), month-1 / day-1, nan_to_num(-1).to(long)",
     "frame ('garbage' cells, format matching no / one cell, datetime64 + configured format), calendar",
     ["cell:timestamp", "calendar-components", "direct-mapper:timestamp"]),
    ("EmbeddingTensorMapper: np.stack(...).astype (raises on ragged / missing vectors: numpy's own check, no guard "
     "of the library -> nothing demanded)", "frame/family/large; malformed ragged-embedding, missing-embedding-cell",
     ["cell:embedding", "cell:text_embedded", "cell:image_embedded"]),
    ("TextTokenizationTensorMapper asserts on tensor ranks; the backward() NotImplementedErrors", "not C01 (C16 / out of scope)", []),
    # stats.py / dataset.py on the materialize() path
    ("compute_col_stats: TypeError 'Numerical series contains invalid entries' (object column with strings)",
     "malformed numerical-object-strings", ["observed only"]),
    ("compute_col_stats: to_datetime(errors='coerce'); all-null -> default statistics", "frame (all-missing columns, "
     "format-matches-none)", ["materialize-raises:*"]),
    ("materialize(col_stats=...): the two asserts on the supplied statistics; path= cache branch",
     "sibling; forms.path", ["sibling-*-raises:*", "cache-reload"]),
]
# Public signature the property speaks about, and where each parameter form is drawn (histogram in stats()['forms'],
# fail-closed in sanity()):
#   Dataset(df, col_to_stype, target_col, split_col, col_to_sep, col_to_text_embedder_cfg, col_to_text_tokenizer_cfg,
#           col_to_image_embedder_cfg, col_to_time_format): keyword / positional; col_to_stype order = / != frame order;
#           split_col absent / present; col_to_sep and col_to_time_format as dict / single value / partial dict / None;
#           embedder cfg as dict / single config (family frames).
#   Dataset.materialize(device, path, col_stats): device None / 'cpu' / torch.device; path None / cache file (written,
#           then re-loaded by a second dataset); col_stats None / a sibling's (sibling kind).
#   Dataset.convert_to_tensor_frame(df): sibling kind.   TensorFrame.get_col_feat(name, return_stype=False/True).
#   XTensorMapper(...).forward(ser, *, device): called directly on every column (direct-mapper:*), constructor
#           arguments positional / keyword, categories as list / tuple.
HEADER = M.HEADER
MODEL_TARGETS = M.MODEL_TARGETS
SHARD = 60
STYPES = ["numerical", "categorical", "multicategorical", "sequence_numerical", "timestamp", "embedding"]
RULE = ("(+ large frames of 255 / 256 / 257 / 300 / 513 / 1025 rows with row-id payloads; + boundaries: one-row frames, "
        "a time format matching no / exactly one cell, columns missing but for one cell, embedding width 1, tied "
        "categories under every labelling) (+ embedding-family frames: 1-3 plain embedding columns next to text_/image_embedded columns with stub "
        "embedders, every cell read by name through col_names_dict and get_col_feat) (+ histories: a sibling frame encoded with the statistics of an earlier dataset, integer-coded categorical "
        "columns held as int64 / float64-with-NaN / object independently on both sides, via materialize(col_stats=) "
        "and via the fitted converter) DataFrames of 1-10 rows with 1-7 columns drawn from six stypes (+ numerical/categorical target), "
        "missing patterns, both pandas string dtypes (object, str), separators/time formats, five index labelings, "
        "list-valued multicategorical cells with string or integer tokens (low rate: including the integer -1, the "
        "known finding); distinct = distinct (stype multiset, dtypes, n, missing pattern signature); non-trivial = "
        "at least one non-missing cell.  Outside the quantifier and only exercised by the malformed stream (the "
        "implementation raises, nothing is demanded): a multicategorical column held as all-NaN float64 (the "
        "mapper's dtype gate), a missing cell in an EMBEDDING column (embedding cells are 'the given vector'), cells "
        "that do not fit the separator configuration, vectors of different widths")
TRUSTED = [
    "Coq 8.16.1 kernel + vm_compute",
    "hand-written model coq/Model/Mapper.v of the TensorMapper pipelines (categorical merge, multicategorical "
    "split/explode/merge/offsets, sequence offsets, timestamp components via Lib/Calendar.v), tied to /repo by this "
    "run's correspondence",
    "modelled primitives: pandas values/apply/explode/merge(left, on index)/dropna/value_counts+reindex/"
    "reset_index, torch cumsum/cat/nan_to_num, np.stack, Python str.strip/str.split/set, the MultiNestedTensor/"
    "MultiEmbeddingTensor constructors (Model/Ragged.v); pandas .dt fields are modelled by Lib/Calendar.v, which "
    "is PROVED to be the proleptic Gregorian calendar on all of Z and validated against pandas on 1700-2200 "
    "(every day in the thorough tier)",
    "black box: pd.to_datetime(errors='coerce') (its per-cell result is an input of the model); string->float "
    "and strptime parsing are not modelled",
    "harness/dfgen.py independent cell-by-cell encoder",
]
ASSUMPTIONS = ["no raise is demanded anywhere (C01's statement demands none): on malformed columns the oracle accepts a raise or "
               "a normal return, and the model's predicted raise is compared only when the implementation raised",
               "float payloads are dyadic rationals so float32/float64 casts are exact",
               "date recognition/parsing is pandas' (pd.to_datetime is a per-column black box whose result enters the "
               "model cell by cell); the generator emits explicit formats or datetime64, one layout per column",
               "the category lists are the implementation's own COUNT / MULTI_COUNT statistics (inputs of the model; "
               "their definition is C03)",
               "an all-NaN float64 multicategorical column and a missing embedding cell raise at materialize and are "
               "outside the quantifier (string columns are object/str; embedding cells are the given vector)",
               "known finding multicat-int-token-minus-one-aliases-missing: the integer token -1 in a list-valued "
               "multicategorical cell collides with the library's missing marker (Props/C01.v "
               "multicategorical_minus_one_refuted)"]


WS_VARIANTS = ["\u00a0", "\u2003", "\n", "\x1f", "\u3000"]
SEP_VARIANTS = ["::", ";", ", ", "||", "-", "ab"]


def vary(case, rng):
    """Configurations beyond dfgen's defaults: multi-character separators and
    non-ASCII / control whitespace around the tokens (str.strip's full set)."""
    for col in case["cols"]:
        if col["stype"] == "multicategorical" and col["sep"] is None and rng.chance(0.35):
            # list-valued cells with INTEGER tokens; at low rate the pool contains -1 (known finding)
            ints = rng.sample([0, 1, 2, 3, 7, 12, -2, -5], len(G.TOKENS))
            if rng.chance(0.4):
                ints[rng.randrange(len(ints))] = -1
            m = dict(zip(G.TOKENS, ints))
            col["cells"] = [c if c is None else [m[t] for t in c] for c in col["cells"]]
            col["int_tokens"] = True
        if col["stype"] != "multicategorical" or col["sep"] is None:
            continue
        if rng.chance(0.3):
            new = rng.pick(SEP_VARIANTS)
            # tokens of dfgen.TOKENS contain none of the separators except "ab" vs "a","b": keep that one honest
            if not any(new in t or t in new for t in G.TOKENS):
                col["cells"] = [c if c is None else c.replace(col["sep"], new) for c in col["cells"]]
                col["sep"] = new
        if rng.chance(0.3):
            ws = rng.pick(WS_VARIANTS)
            col["cells"] = [c if c is None else c.replace(" ", ws, rng.randint(1, 2)) for c in col["cells"]]
    return case


def unlabel(case, rng):
    """missing TARGET cells also in the first / last / every row (dfgen's target_missing keeps the leading cells):
    a missing target cell is encoded like any missing cell, NaN / -1 in y"""
    tgt = next((c for c in case["cols"] if c["name"] == case["target"]), None)
    if tgt is None or not rng.chance(0.15):
        return case
    n = case["n"]
    idx = rng.pick([[0], [n - 1], list(range(n)) if tgt["stype"] == "numerical" else [n - 1]])
    new = [None if i in idx else v for i, v in enumerate(tgt["cells"])]
    if tgt["stype"] == "categorical" and len({str(v) for v in new if v is not None}) < 1:
        return case
    tgt["cells"] = new
    return case


CENTURIES = [1700, 1800, 1900, 2000, 2100, 2200]


def gen_calendar(rng, k=40):
    """Instants across 1700-2200 (leap days, century non-leap years, year and day
    boundaries, both sides of the epoch), with and without NaT in the series."""
    cells = []
    for _ in range(k):
        r = rng.random()
        if r < 0.1:
            cells.append(None)
            continue
        if r < 0.3:
            y = rng.pick(CENTURIES + [1968, 1969, 1970, 1972, 2024])
            m, d = rng.pick([(2, 28), (3, 1), (12, 31), (1, 1), (2, 29)])
            if (m, d) == (2, 29) and not (y % 4 == 0 and (y % 100 != 0 or y % 400 == 0)):
                d = 28
        else:
            y = rng.randint(1700, 2200)
            m = rng.randint(1, 12)
            d = rng.randint(1, [31, 29 if (y % 4 == 0 and (y % 100 != 0 or y % 400 == 0)) else 28, 31, 30, 31, 30,
                                31, 31, 30, 31, 30, 31][m - 1])
        hh, mm, ss = rng.pick([(0, 0, 0), (23, 59, 59), (rng.randint(0, 23), rng.randint(0, 59), rng.randint(0, 59))])
        cells.append([y, m, d, hh, mm, ss])
    if rng.chance(0.5):
        cells = [c for c in cells if c is not None]   # all-valid series: pandas keeps integer fields
    return {"kind": "calendar", "cells": cells}


def calendar_sweep(rng, chunk=500):
    """Thorough tier: EVERY day from 1700-01-01 to 2200-12-31, each at a pseudo-random
    time of day (the finite window the property names, enumerated exhaustively)."""
    d0, d1 = dt.date(1700, 1, 1), dt.date(2200, 12, 31)
    out, cur = [], []
    for k in range((d1 - d0).days + 1):
        d = d0 + dt.timedelta(days=k)
        cur.append([d.year, d.month, d.day, rng.randint(0, 23), rng.randint(0, 59), rng.randint(0, 59)])
        if len(cur) == chunk:
            out.append({"kind": "calendar", "cells": cur})
            cur = []
    if cur:
        out.append({"kind": "calendar", "cells": cur})
    return out


MALFORMED_KINDS = ["str-without-sep", "list-with-sep", "ragged-embedding", "float64-all-nan-multicat",
                   "missing-embedding-cell", "multicat-number-cell", "seq-string-cell", "numerical-object-strings"]


def gen_malformed(rng, kind=None):
    """Low-rate stream OUTSIDE the property's quantifier: a column that does not fit its configuration
    (string cells without a separator, list cells with one, vectors of different widths).  Nothing is
    demanded of the implementation here (the oracle is silent); the correspondence checks that the model
    predicts the raise (theorems multicategorical_ill_typed_raises / np.stack)."""
    kind = kind or rng.pick(MALFORMED_KINDS)
    n = rng.randint(2, 4)
    good = G.gen_col(rng, "alpha", "numerical", n, 0.2)
    if kind == "ragged-embedding":
        bad = {"name": "beta", "stype": "embedding", "dtype": "object", "sep": None, "fmt": None, "width": 2,
               "cells": [[1.0, 2.0]] + [[0.5] * rng.pick([1, 3]) for _ in range(n - 1)]}
    elif kind == "missing-embedding-cell":
        bad = {"name": "beta", "stype": "embedding", "dtype": "object", "sep": None, "fmt": None, "width": 2,
               "cells": [[1.0, 2.0]] + [None] + [[0.5, 0.25] for _ in range(n - 2)]}
    elif kind == "multicat-number-cell":
        bad = {"name": "beta", "stype": "multicategorical", "dtype": "object", "fmt": None, "width": None,
               "nan_kind": "none", "sep": "|", "cells": ["a|b"] + [5] * (n - 1)}
    elif kind == "seq-string-cell":
        bad = {"name": "beta", "stype": "sequence_numerical", "dtype": "object", "fmt": None, "width": None, "sep": None,
               "nan_kind": "none", "cells": [[1.0, 2.0]] + ["abc"] * (n - 1)}
    elif kind == "numerical-object-strings":
        bad = {"name": "beta", "stype": "numerical", "dtype": "object", "fmt": None, "width": None, "sep": None,
               "cells": [1.5] + ["x"] * (n - 1)}
    elif kind == "float64-all-nan-multicat":
        bad = {"name": "beta", "stype": "multicategorical", "dtype": "float64", "fmt": None, "width": None,
               "nan_kind": "nan", "sep": rng.pick([None, ","]), "cells": [None] * n}
    else:
        bad = {"name": "beta", "stype": "multicategorical", "dtype": "object", "fmt": None, "width": None,
               "nan_kind": "none", "sep": None if kind == "str-without-sep" else "|",
               "cells": [("a|b" if kind == "str-without-sep" else ["a", "b"])] + [None] * (n - 1)}
    return {"n": n, "index": rng.pick(["range", "offset", "dup"]), "cols": [good, bad], "target": None,
            "col_order": ["alpha", "beta"], "malformed": kind}


FAMILY_NAMES = ["alpha", "beta", "gamma", "delta", "eps", "zeta", "eta", "theta", "iota", "kappa", "Alpha", "Zeta"]


def gen_family(rng):
    """The embedding family in one frame: 1-3 plain `embedding` columns (widths different from the embedders'
    widths 3 and 2), 1-3 text_embedded and 0-3 image_embedded columns (the user callables are dfgen's stubs), plus
    sometimes a numerical column / target.  _merge_feat puts all of them under stype.embedding; each cell is read
    BY NAME through the frame's own col_names_dict and through get_col_feat."""
    n = rng.randint(1, 6)
    kinds = (["embedding"] * rng.randint(1, 3) + ["text_embedded"] * rng.randint(1, 3) +
             ["image_embedded"] * rng.randint(0, 3) + ["numerical"] * rng.randint(0, 1))
    names = rng.sample(FAMILY_NAMES, len(kinds) + 1)
    cols = []
    for name, st in zip(names, kinds):
        col = G.gen_col(rng, name, st, n, rng.pick([0.0, 0.2]))
        while st == "embedding" and col["width"] in (2, 3):
            col = G.gen_col(rng, name, st, n, 0.0)
        cols.append(col)
    target = None
    if rng.chance(0.4):
        cols.append(G.gen_col(rng, names[-1], rng.pick(["numerical", "categorical"]), n, 0.0, for_target=True))
        target = names[-1]
    order = [c["name"] for c in cols]
    rng.shuffle(order)
    return {"n": n, "index": rng.pick(["range", "offset", "perm", "string", "dup"]), "cols": cols, "target": target,
            "col_order": order, "family": True}


LARGE_ROWS = [255, 256, 257, 300, 513, 1025]


def gen_large(rng, n):
    """Row counts at and beyond typical batch boundaries.  Cheap stypes only; every payload is a row id (embedding
    vectors, numerical values) or cycles with a period coprime to the batch sizes, so any row that receives another
    row's data is visible; the text_embedded stub works in batches of k with more than two chunks."""
    w = rng.pick([1, 2, 4])
    emb = {"name": "emb", "stype": "embedding", "dtype": "object", "sep": None, "fmt": None, "width": w,
           "cells": [[(i % 997) / 8.0 - 60.0] + [float((i * (j + 3)) % 251) for j in range(w - 1)] for i in range(n)]}
    num = {"name": "num", "stype": "numerical", "dtype": "float", "sep": None, "fmt": None, "width": None,
           "cells": [None if i % 89 == 7 else i / 8.0 for i in range(n)]}
    pool = ["a", "b", "c", "dd", "é"]
    cat = {"name": "cat", "stype": "categorical", "dtype": rng.pick(["object", "str"]), "sep": None, "fmt": None,
           "width": None, "nan_kind": "none", "cells": [None if i % 97 == 5 else pool[(i * i + i // 7) % 5] for i in range(n)]}
    txt = {"name": "Txt", "stype": "text_embedded", "dtype": "object", "sep": None, "fmt": None, "width": None,
           "nan_kind": "none", "batch_size": rng.pick([100, 64, 127]),
           "cells": [None if i % 101 == 3 else f"r{i}" for i in range(n)]}
    cols = [emb, num, cat, txt]
    target = None
    if rng.chance(0.5):
        cols.append({"name": "y", "stype": "numerical", "dtype": "float", "sep": None, "fmt": None, "width": None,
                     "cells": [float(i % 11) for i in range(n)]})
        target = "y"
    order = [c["name"] for c in cols]
    rng.shuffle(order)
    return {"n": n, "index": rng.pick(["range", "offset", "perm", "string", "dup"]), "cols": cols, "target": target,
            "col_order": order, "large": True}


def near_miss(cell, fmt):
    """a cell the configured format must reject although it is a perfectly good date in ANOTHER layout (pandas could
    infer it on its own): it counts as missing.  Missing cells become plain garbage text."""
    if isinstance(cell, list):
        return G.fmt_time(cell, "%d/%m/%Y" if fmt.startswith("%Y") else "%Y-%m-%d")
    return "garbage" if cell is None else cell


def boundary(case, rng):
    """Deliberate boundaries of the quantified dimensions (each at a low rate): a column that is entirely missing
    except one cell; a configured time format that matches NO cell / exactly ONE cell of its column."""
    for col in case["cols"]:
        if col["name"] == case["target"] or case["n"] < 2:
            continue
        r = rng.random()
        if col["stype"] == "timestamp" and col["fmt"] not in (None, "datetime64") and r < 0.12:
            keep = rng.randrange(case["n"]) if r < 0.06 else None
            col["cells"] = [c if (i == keep and isinstance(c, list)) else near_miss(c, col["fmt"])
                            for i, c in enumerate(col["cells"])]
            col["boundary"] = "format-matches-one" if keep is not None and isinstance(col["cells"][keep], list) \
                else "format-matches-none"
        elif col["stype"] in ("numerical", "categorical", "multicategorical", "sequence_numerical", "timestamp") and r > 0.95:
            live = [i for i, c in enumerate(col["cells"]) if c is not None and not isinstance(c, str)]
            if live:
                keep = rng.pick(live)
                col["cells"] = [c if i == keep else None for i, c in enumerate(col["cells"])]
                col["boundary"] = "all-missing-but-one"
    return case


def force_boundaries(cases):
    """the low-rate boundaries of `boundary` are guaranteed: the first eligible columns get them if chance did not"""
    have = {c.get("boundary") for case in cases if "cols" in case for c in case["cols"]}
    want = [b for b in ("format-matches-one", "format-matches-none", "all-missing-but-one") if b not in have]
    for case in cases:
        if not want:
            break
        if case.get("kind") or case.get("malformed") or case.get("large") or case.get("n", 0) < 2:
            continue
        for col in case["cols"]:
            if not want or col["name"] == case["target"] or col.get("boundary"):
                continue
            live = [i for i, c in enumerate(col["cells"]) if c is not None and not (col["stype"] == "timestamp"
                                                                                     and isinstance(c, str))]
            b = want[0]
            if b.startswith("format") and col["stype"] == "timestamp" and col["fmt"] not in (None, "datetime64") and live:
                keep = live[0] if b == "format-matches-one" else None
                col["cells"] = [c if i == keep else near_miss(c, col["fmt"]) for i, c in enumerate(col["cells"])]
                col["boundary"] = want.pop(0)
            elif b == "all-missing-but-one" and col["stype"] in ("numerical", "categorical", "sequence_numerical") and live:
                col["cells"] = [c if i == live[0] else None for i, c in enumerate(col["cells"])]
                col["boundary"] = want.pop(0)
    return cases


INT_DTYPES = ["int64", "float64", "object"]


def required_cases():
    """DETERMINISTIC stream (no randomness, every run, both tiers): everything sanity() demands -- all stypes incl.
    the embedding family under every index labelling, both string dtypes, list / delimiter-joined cells with str / int
    tokens, datetime64 with a configured format, unlabeled targets, every signature form (incl. the cache path),
    every numeric backing and memory layout, and the boundaries (one-row frame, a time format matching no / exactly
    one cell, a column missing but for one cell, embedding width 1, tied categories under every labelling)."""
    kinds = ["range", "offset", "perm", "string", "dup"]
    lay = [None] + M.RESTRIDES
    out = []
    for i in range(10):
        tk = ["numerical", "categorical", "none"][i % 3]
        fr, forms = M.template_frame(i, tk, ["first", None, None, "last"][i % 4] if tk != "none" else None, tokenized=False)
        forms["path"] = (i % 4 == 0)
        by = {c["name"]: c for c in fr["cols"]}
        if i == 3:      # the configured format matches exactly one cell; the others are good dates in another layout
            by["ts"]["cells"] = [[2020, 1, 2, 0, 0, 0], "02/01/2020", "31/12/1999", "garbage"]
            by["ts"]["boundary"] = "format-matches-one"
        if i == 4:
            by["ts"]["cells"] = ["03/02/2021", "02/01/2020", None, "31/12/1999"]
            by["ts"]["boundary"] = "format-matches-none"
        if i == 5:
            by["num"]["cells"] = [None, None, 3.0, None]
            by["num"]["boundary"] = "all-missing-but-one"
        out.append(dict(fr, index=kinds[i % 5], forms=forms, layout=lay[i % 5], family=True, required=True))
    fr, forms = M.template_frame(1, "none", None, tokenized=False, n_rows=1)        # a one-row frame
    out.append(dict(fr, index="offset", forms=forms, layout=None, family=True, required=True))
    return out


def required_siblings():
    """every pair of integer representations (A's statistics held as x, B's column as y), features and a target"""
    class Fixed:
        """a deterministic stand-in for the PRNG: a fixed arithmetic sequence"""
        def __init__(self, k): self.k = k
        def _n(self): self.k = (self.k * 1103515245 + 12345) % (2 ** 31); return self.k
        def randint(self, a, b): return a + self._n() % (b - a + 1)
        def randrange(self, n): return self._n() % n
        def random(self): return (self._n() % 10 ** 6) / 10 ** 6
        def chance(self, p): return self.random() < p
        def pick(self, seq): return seq[self._n() % len(seq)]
        def sample(self, seq, k):
            seq = list(seq); out = []
            for _ in range(k):
                out.append(seq.pop(self._n() % len(seq)))
            return out
        def shuffle(self, l):
            for i in range(len(l) - 1, 0, -1):
                j = self._n() % (i + 1); l[i], l[j] = l[j], l[i]
    out = []
    for k, (da, db) in enumerate([(a, b) for a in INT_DTYPES for b in INT_DTYPES]):
        out.append(gen_sibling(Fixed(1000 + k), pair=(da, db), target=(k % 2 == 0)))
    return out


def gen_sibling(rng, pair=None, target=None):
    """A HISTORY: dataset A is materialized, then a sibling frame B with the same columns is encoded with A's
    statistics (materialize(col_stats=A.col_stats) and A.convert_to_tensor_frame(df_B)).  The integer-coded
    categorical columns (features and target) are held by pandas as int64, as float64 (the only way a numeric
    column can hold a missing cell) or as object, independently in A and B: the value 1 is category 1 whichever
    way pandas holds it.  B also contains values A never saw (-> -1)."""
    na, nb = rng.randint(2, 6), rng.randint(1, 6)
    names = rng.sample(["alpha", "beta", "gamma", "delta", "eps", "zeta"], 4)
    cols = []
    k = rng.randint(1, 3)
    for i in range(k):
        pool = rng.sample(range(-3, 12), rng.randint(2, 4))
        is_target = (i == 0 and (rng.chance(0.5) if target is None else target))
        da, db = (rng.pick(INT_DTYPES), rng.pick(INT_DTYPES)) if pair is None or i > 0 else pair
        ca = [rng.pick(pool) for _ in range(na)]
        ca[0], ca[1] = pool[0], pool[1]                      # >= 2 classes in A
        if da != "int64" and not is_target:
            ca = [None if rng.chance(0.2) and j > 1 else v for j, v in enumerate(ca)]
        cb = [rng.pick(pool + [rng.randint(20, 25)]) if rng.chance(0.9) else rng.randint(20, 25) for _ in range(nb)]
        if db != "int64":
            cb = [None if rng.chance(0.3) else v for v in cb]
            if all(v is not None for v in cb):
                cb[rng.randrange(nb)] = None             # a missing cell: pandas holds the column as float64
        cols.append({"name": names[i], "stype": "categorical", "dtype": "object", "dtype_a": da, "dtype_b": db,
                     "cells_a": ca, "cells_b": cb, "sep": None, "fmt": None, "width": None, "is_target": is_target})
    cols.append({"name": names[3], "stype": "numerical", "dtype": "float", "dtype_a": "float64", "dtype_b": "float64",
                 "cells_a": [G.dyadic(rng) for _ in range(na)],
                 "cells_b": [None if rng.chance(0.2) else G.dyadic(rng) for _ in range(nb)],
                 "sep": None, "fmt": None, "width": None, "is_target": False})
    target = next((c["name"] for c in cols if c["is_target"]), None)
    order = [c["name"] for c in cols]
    rng.shuffle(order)
    return {"kind": "sibling", "n_a": na, "n_b": nb, "cols": cols, "target": target, "col_order": order,
            "index_b": rng.pick(["range", "offset", "dup", "string"])}


def sibling_series(cells, dtype):
    import numpy as np
    import pandas as pd
    if dtype == "int64":
        return pd.Series([int(c) for c in cells], dtype="int64")
    if dtype == "float64":
        return pd.Series([np.nan if c is None else float(c) for c in cells], dtype="float64")
    return pd.Series([None if c is None else c for c in cells], dtype=object)


def run_sibling(case):
    import pandas as pd
    import torch_frame
    from torch_frame.data import Dataset
    by = {c["name"]: c for c in case["cols"]}
    dfa = pd.DataFrame({n: sibling_series(by[n]["cells_a"], by[n]["dtype_a"]) for n in case["col_order"]})
    dfb = pd.DataFrame({n: sibling_series(by[n]["cells_b"], by[n]["dtype_b"]) for n in case["col_order"]})
    labels = G.index_labels(case["index_b"], case["n_b"])
    if labels is not None:
        dfb.index = labels
    c2s = {n: getattr(torch_frame, by[n]["stype"]) for n in case["col_order"]}
    out = {"ok": True}
    try:
        A = Dataset(dfa, c2s, target_col=case["target"]).materialize()
        out["stats_a"] = G.read_stats(A.col_stats)
    except Exception as ex:
        return {"ok": False, "exc": C.exc_name(ex), "msg": "dataset A: " + str(ex)[:300], "tb": C.fmt_exc()}
    for tag, f in (("col_stats", lambda: Dataset(dfb, c2s, target_col=case["target"]).materialize(
                        col_stats={k: dict(v) for k, v in A.col_stats.items()}).tensor_frame),
                   ("converter", lambda: A.convert_to_tensor_frame(dfb))):
        try:
            out[tag] = {"ok": True, "tf": G.read_tf(f())}
        except Exception as ex:
            out[tag] = {"ok": False, "exc": C.exc_name(ex), "msg": str(ex)[:300], "tb": C.fmt_exc()}
    return out


def sibling_cols(case):
    """the columns of frame B as dfgen-style column descriptions (cells = B's cells)"""
    return [dict(c, cells=c["cells_b"]) for c in case["cols"]]


def oracle_sibling(case, obs):
    if not obs["ok"]:
        return dict(key=f"sibling-raises:{obs['exc']}", what=f"materializing dataset A raised {obs['exc']}: {obs['msg']}")
    for tag in ("col_stats", "converter"):
        o = obs[tag]
        how = "materialize(col_stats=A.col_stats)" if tag == "col_stats" else "A.convert_to_tensor_frame(df_B)"
        if not o["ok"]:
            return dict(key=f"sibling-{tag}-raises:{o['exc']}", what=f"{how} raised {o['exc']}: {o['msg']}", tb=o.get("tb"))
        tfj = o["tf"]
        if tfj["num_rows"] != case["n_b"]:
            return dict(key="sibling-num-rows", what=f"{how}: {tfj['num_rows']} rows for {case['n_b']}")
        for col in sibling_cols(case):
            stats = obs["stats_a"].get(col["name"], {})
            rep_ = f"held as {col['dtype_b']}, statistics from a column held as {col['dtype_a']}"
            for i, cell in enumerate(col["cells"]):
                exp = G.expected_cell(col, cell, stats)
                if col["name"] == case["target"]:
                    got = None if tfj["y"] is None else [tfj["y"][i]]
                else:
                    loc = locate(tfj, col)
                    got = None if loc is None else tfj["feats"][loc[0]][i][loc[1]]
                if got != exp:
                    return dict(key=f"sibling-cell:{col['stype']}:{tag}",
                                what=f"{how}: row {i} of column {col['name']} ({rep_}) raw {cell!r} encoded as {got}; with "
                                     f"A's categories {stats.get('COUNT', [None])[0]} the canonical encoding is {exp}",
                                col=col["name"], row=i)
    return None


def with_forms(case, rng):
    case["forms"] = M.draw_forms(rng, case)
    for col in case["cols"]:
        if col["stype"] == "numerical":
            M.draw_num_backing(rng, col)            # float64/32/16, int64/32, nullable Float64/Float32/Int64
    case["layout"] = rng.pick([None, None] + M.RESTRIDES)      # memory layout of the (equal) DataFrame
    return case


def generate(rng, tier):
    n = 420 if tier == "quick" else 6000
    cases = [boundary(vary(unlabel(G.gen_frame(rng, stypes=STYPES, target_missing=0.3), rng), rng), rng) for _ in range(n)]
    cases = required_cases() + required_siblings() + [with_forms(c, rng) for c in force_boundaries(cases)]
    cases += [with_forms(gen_large(rng, r), rng) for r in (LARGE_ROWS if tier == "quick" else LARGE_ROWS * 4)]
    cases += [gen_malformed(rng, MALFORMED_KINDS[i % len(MALFORMED_KINDS)]) for i in range(max(n // 16, 16))]
    cases += [gen_sibling(rng) for _ in range(n // 10)]
    cases += [with_forms(gen_family(rng), rng) for _ in range(n // 8)]
    cases += [gen_calendar(rng) for _ in range(25 if tier == "quick" else 400)]
    if tier == "thorough":
        cases += calendar_sweep(rng)
    return cases


def run_calendar(case):
    import pandas as pd
    from torch_frame.data.mapper import TimestampTensorMapper
    vals = [pd.NaT if c is None else pd.Timestamp(year=c[0], month=c[1], day=c[2], hour=c[3], minute=c[4],
                                                   second=c[5]) for c in case["cells"]]
    ser = pd.Series(vals, dtype="datetime64[us]")
    return {"ok": True, "rows": TimestampTensorMapper.to_tensor(ser).tolist()}


def malformed_df(case):
    """frames dfgen cannot build: a float64 all-NaN multicategorical column, a None cell in an embedding column"""
    import numpy as np
    import pandas as pd
    custom = ("float64-all-nan-multicat", "missing-embedding-cell", "multicat-number-cell", "seq-string-cell",
              "numerical-object-strings")
    if case["malformed"] not in custom:
        return None
    good, bad = case["cols"]
    data = {good["name"]: G.build_series(good)}
    if case["malformed"] == "float64-all-nan-multicat":
        data[bad["name"]] = pd.Series([np.nan] * case["n"], dtype="float64")
    elif case["malformed"] == "missing-embedding-cell":
        data[bad["name"]] = pd.Series([None if c is None else list(c) for c in bad["cells"]], dtype=object)
    else:
        data[bad["name"]] = pd.Series(list(bad["cells"]), dtype=object)
    df = pd.DataFrame(data)
    labels = G.index_labels(case["index"], case["n"])
    if labels is not None:
        df.index = labels
    return df


def run(case):
    if case.get("kind") == "sibling":
        return run_sibling(case)
    if case.get("kind") == "calendar":
        try:
            return run_calendar(case)
        except Exception as ex:
            return {"ok": False, "exc": C.exc_name(ex), "msg": str(ex)[:300], "tb": C.fmt_exc()}
    forms = case.get("forms") or {}
    used, reloaded = {}, None
    try:
        df = malformed_df(case) if case.get("malformed") else None
        if df is None and not case.get("malformed"):
            df = M.restride(M.build_df(case), case.get("layout"))
        ds, stubs, used = M.make_dataset(case, df=df, forms=forms)
        used["layout"] = case.get("layout") or "plain"
        # the black box of the timestamp pipeline, recorded for the correspondence
        parsed = {c["name"]: M.parse_timestamps(ds.df, c) for c in case["cols"] if c["stype"] == "timestamp"}
        dev = M.device_arg(forms.get("device"))
        used["device"] = forms.get("device", "none")
        used["path"] = bool(forms.get("path"))
        if forms.get("path"):
            import tempfile
            with tempfile.TemporaryDirectory() as tmp:
                path = os.path.join(tmp, "tf.pt")
                ds.materialize(dev, path)                                  # positional form, writes the cache
                ds2, _, _ = M.make_dataset(case, df=df, forms=forms)
                ds2.materialize(path=path)                                 # a second dataset loads it back
                reloaded = G.read_tf(ds2.tensor_frame)
        elif dev is None:
            ds.materialize()
        else:
            ds.materialize(device=dev)
    except Exception as ex:
        return {"ok": False, "exc": C.exc_name(ex), "msg": str(ex)[:300], "tb": C.fmt_exc(), "used": used}
    # black box: what the user's embedders returned, cell by cell (recorded for the correspondence)
    embedded = {}
    for c in case["cols"]:
        if c["stype"] in ("text_embedded", "image_embedded"):
            w = 3 if c["stype"] == "text_embedded" else 2
            embedded[c["name"]] = [G.hash_vec(str(x), w) for batch in stubs[c["name"]].calls for x in batch]
    # every column the frame lists, read BY NAME
    by_name, by_name_stype = {}, {}
    rs = bool(forms.get("return_stype"))
    used["return_stype"] = rs
    for names in ds.tensor_frame.col_names_dict.values():
        for name in names:
            try:
                if rs:
                    feat, st_ = ds.tensor_frame.get_col_feat(name, return_stype=True)
                    by_name_stype[name] = st_.value
                else:
                    feat = ds.tensor_frame.get_col_feat(name)
                by_name[name] = G.read_feat(feat)
            except Exception as ex:
                by_name[name] = {"exc": C.exc_name(ex), "msg": str(ex)[:200]}
    out = {"ok": True, "tf": G.read_tf(ds.tensor_frame), "stats": G.read_stats(ds.col_stats), "parsed": parsed,
           "embedded": embedded, "by_name": by_name, "by_name_stype": by_name_stype, "used": used,
           "direct": direct_mappers(case, ds, forms)}
    if reloaded is not None:
        out["reloaded"] = reloaded
    try:
        out["aliasing"] = M.aliasing_probe(ds, G.read_tf)       # LAST: it edits the frame and the tensors
    except Exception as ex:
        out["aliasing"] = [f"aliasing probe crashed: {C.exc_name(ex)}: {ex}"]
    return out


def direct_mappers(case, ds, forms):
    """Alternative public entry point: the TensorMapper classes called directly on df[col] with the dataset's
    statistics (constructor arguments positional or by keyword, categories as list or tuple, device kw)."""
    from torch_frame.data import mapper as TM
    from torch_frame.data.stats import StatType
    kwform = forms.get("args") == "keyword"
    dev = M.device_arg(forms.get("device"))
    out = {}
    for c in case["cols"]:
        st, name = c["stype"], c["name"]
        try:
            ser = ds.df[name]
            if st == "numerical":
                m = TM.NumericalTensorMapper()
            elif st == "categorical":
                cats = ds.col_stats[name][StatType.COUNT][0]
                m = TM.CategoricalTensorMapper(categories=list(cats)) if kwform else TM.CategoricalTensorMapper(tuple(cats))
            elif st == "multicategorical":
                cats = ds.col_stats[name][StatType.MULTI_COUNT][0]
                m = TM.MultiCategoricalTensorMapper(categories=cats, sep=c["sep"]) if kwform else \
                    TM.MultiCategoricalTensorMapper(cats, c["sep"])
            elif st == "sequence_numerical":
                m = TM.NumericalSequenceTensorMapper()
            elif st == "timestamp":
                fmt = M.time_format_of(c)
                m = TM.TimestampTensorMapper(format=fmt) if kwform else TM.TimestampTensorMapper(fmt)
            elif st == "embedding":
                m = TM.EmbeddingTensorMapper()
            else:
                continue
            t = m.forward(ser) if dev is None else m.forward(ser, device=dev)
            if st in ("numerical", "categorical"):
                out[name] = [[G.fnum(v)] for v in t.tolist()]
            elif st == "timestamp":
                out[name] = [list(r) for r in t.tolist()]
            else:
                out[name] = [[G.fnum(v) for v in t[i, 0].tolist()] for i in range(t.num_rows)]
        except Exception as ex:
            out[name] = {"exc": C.exc_name(ex), "msg": str(ex)[:200]}
    return out


KNOWN_MINUS_ONE = "multicat-int-token-minus-one-aliases-missing"
GUARDED = ("str-without-sep", "list-with-sep", "float64-all-nan-multicat", "multicat-number-cell", "seq-string-cell",
           "numerical-object-strings")


def minus_one_situation(col):
    """exactly the known finding: a list-valued multicategorical column one of whose cells contains the INTEGER -1"""
    return (col["stype"] == "multicategorical" and col["sep"] is None and
            any(isinstance(c, list) and any(isinstance(t, int) and not isinstance(t, bool) and t == -1 for t in c)
                for c in col["cells"]))


def G_canon(tfj):
    out = json.loads(json.dumps(tfj))
    if "multicategorical" in out["feats"]:
        out["feats"]["multicategorical"] = [[sorted(c) for c in row] for row in out["feats"]["multicategorical"]]
    return out


def locate(tfj, col):
    parent = {"text_embedded": "embedding", "image_embedded": "embedding"}.get(col["stype"], col["stype"])
    names = tfj["names"].get(parent)
    if names is None or col["name"] not in names:
        return None
    return parent, names.index(col["name"])


def oracle(case, obs):
    if "harness_exc" in obs:
        return dict(key="harness-exc", what=obs["harness_exc"], tb=obs.get("tb"))
    if case.get("kind") == "calendar":
        return oracle_calendar(case, obs)
    if case.get("kind") == "sibling":
        return oracle_sibling(case, obs)
    if case.get("malformed"):
        # Outside the quantifier.  C01's statement demands no raise anywhere, so NOTHING is demanded here: a raise and a
        # normal return are both accepted (raise-or-consistent-result); what happened is only recorded
        # (stats()['malformed_raised']) and, when the implementation raised, the model must predict the raise.
        return None
    if not obs["ok"]:
        sts = sorted({c["stype"] for c in case["cols"]})
        return dict(key=f"materialize-raises:{obs['exc']}", what=f"materialize raised {obs['exc']}: {obs['msg']}",
                    stypes=sts, tb=obs.get("tb"))
    tfj = obs["tf"]
    if tfj["num_rows"] != case["n"]:
        return dict(key="num-rows", what=f"frame has {tfj['num_rows']} rows, DataFrame has {case['n']}")
    if obs.get("aliasing"):
        return dict(key="aliases-dataframe", what="; ".join(obs["aliasing"]))
    if "reloaded" in obs and G_canon(obs["reloaded"]) != G_canon(tfj):
        return dict(key="cache-reload", what="materialize(path=) of a second dataset loaded a different TensorFrame than "
                    "the one the first dataset materialized and saved")
    for name, st_ in obs.get("by_name_stype", {}).items():
        col = next(c for c in case["cols"] if c["name"] == name)
        want = {"text_embedded": "embedding", "image_embedded": "embedding"}.get(col["stype"], col["stype"])
        if st_ != want:
            return dict(key="by-name-stype", what=f"get_col_feat({name!r}, return_stype=True) says {st_}, the column is "
                        f"stored under {want}")
    for col in case["cols"]:
        got = obs.get("direct", {}).get(col["name"])
        if got is None or case.get("malformed"):
            continue
        stats = obs["stats"].get(col["name"], {})
        if isinstance(got, dict):
            return dict(key=f"direct-mapper-raises:{got['exc']}", what=f"{col['stype']} mapper called directly on column "
                        f"{col['name']} raised {got['exc']}: {got['msg']}")
        for i, cell in enumerate(col["cells"]):
            exp = G.expected_cell(col, cell, stats)
            if G.canon_sorted(got[i], col["stype"]) != exp:
                return dict(key=KNOWN_MINUS_ONE if minus_one_situation(col) else f"direct-mapper:{col['stype']}",
                            what=f"{col['stype']} mapper called directly: row {i} of column {col['name']} raw {cell!r} "
                                 f"encoded as {got[i]}, canonical encoding is {exp}", col=col["name"], row=i)
    for col in case["cols"]:
        stats = obs["stats"].get(col["name"], {})
        if col["name"] == case["target"]:
            if tfj["y"] is None:
                return dict(key="y-missing", what="target column not encoded into y")
            for i, cell in enumerate(col["cells"]):
                exp = G.expected_cell(col, cell, stats)
                if [tfj["y"][i]] != exp:
                    return dict(key=f"y-cell:{col['stype']}", what=f"y[{i}] = {tfj['y'][i]} but canonical encoding of "
                                f"{cell!r} is {exp}", col=col["name"], row=i)
            continue
        loc = locate(tfj, col)
        if loc is None:
            return dict(key="column-missing", what=f"column {col['name']} not in the TensorFrame")
        st, j = loc
        feat = tfj["feats"][st]
        named = obs.get("by_name", {}).get(col["name"])
        if isinstance(named, dict) and "exc" in named:
            return dict(key=f"by-name-raises:{named['exc']}", what=f"get_col_feat({col['name']!r}) raised {named['exc']}: "
                        f"{named['msg']}")
        for i, cell in enumerate(col["cells"]):
            exp = G.expected_cell(col, cell, stats)
            if named is not None and G.canon_sorted(named[i][0], col["stype"]) != exp:
                return dict(key=KNOWN_MINUS_ONE if minus_one_situation(col) else f"cell-by-name:{col['stype']}",
                            what=f"get_col_feat({col['name']!r}) row {i}: raw {cell!r} encoded as {named[i][0]}, canonical "
                                 f"encoding is {exp}", col=col["name"], row=i)
            got = G.canon_sorted(feat[i][j], col["stype"])
            if got != exp:
                if minus_one_situation(col):
                    return dict(key=KNOWN_MINUS_ONE,
                                what=f"list-valued multicategorical column {col['name']} holds the integer token -1, the "
                                     f"library's missing marker: row {i} raw {cell!r} encoded as {got}, canonical {exp}",
                                col=col["name"], row=i, stats=stats)
                return dict(key=f"cell:{col['stype']}",
                            what=f"cell (row {i}, column {col['name']}, {col['stype']}, dtype {col['dtype']}) raw "
                                 f"{cell!r} encoded as {got}, canonical encoding is {exp}",
                            col=col["name"], row=i, stats=stats)
    return None


def oracle_calendar(case, obs):
    if not obs["ok"]:
        return dict(key=f"calendar-raises:{obs['exc']}", what=f"TimestampTensorMapper.to_tensor raised {obs['exc']}")
    for i, c in enumerate(case["cells"]):
        exp = [-1] * 7 if c is None else [c[0], c[1] - 1, c[2] - 1, dt.date(c[0], c[1], c[2]).weekday(), c[3], c[4], c[5]]
        if obs["rows"][i] != exp:
            return dict(key="calendar-components", what=f"timestamp {c} decomposed as {obs['rows'][i]}, expected {exp}",
                        expected=exp, observed=obs["rows"][i])
    if len(obs["rows"]) != len(case["cells"]):
        return dict(key="calendar-rows", what="row count differs")
    return None


def shrink(case):
    if case.get("kind") == "sibling":
        cols = case["cols"]
        for k, c in enumerate(cols):
            if len(cols) > 1 and c["name"] != case["target"]:
                yield dict(case, cols=cols[:k] + cols[k + 1:], col_order=[n for n in case["col_order"] if n != c["name"]])
        if case["n_b"] > 1:
            for k in range(case["n_b"]):
                yield dict(case, n_b=case["n_b"] - 1,
                           cols=[dict(c, cells_b=c["cells_b"][:k] + c["cells_b"][k + 1:]) for c in cols])
        if case["index_b"] != "range":
            yield dict(case, index_b="range")
        return
    if case.get("kind") == "calendar":
        for k in range(len(case["cells"])):
            yield dict(case, cells=case["cells"][:k] + case["cells"][k + 1:])
        return
    # fewer columns, fewer rows
    cols = case["cols"]
    for k, c in enumerate(cols):
        if c["name"] != case["target"] and len(cols) > 1:
            rest = cols[:k] + cols[k + 1:]
            yield dict(case, cols=rest, col_order=[n for n in case["col_order"] if n != c["name"]])
    if case["n"] > 1:
        for k in range(case["n"]):
            yield dict(case, n=case["n"] - 1,
                       cols=[dict(c, cells=c["cells"][:k] + c["cells"][k + 1:]) for c in cols])
    if case["index"] != "range":
        yield dict(case, index="range")


def nontrivial_sig(case, obs):
    if case.get("kind") == "sibling":
        return json.dumps(["sibling", case["n_a"], case["n_b"], case["index_b"], case["target"] is not None,
                           [(c["stype"], c["dtype_a"], c["dtype_b"], [v is None for v in c["cells_b"]])
                            for c in case["cols"]]])
    if case.get("malformed"):
        return json.dumps(["malformed", case["malformed"], case["n"], case["index"], bool(obs.get("ok"))])
    if not obs.get("ok"):
        return None
    if case.get("kind") == "calendar":
        return json.dumps(["calendar", case["cells"][:50], len(case["cells"])])
    if not any(cell is not None for c in case["cols"] for cell in c["cells"]):
        return None
    sig = [case["n"], case["index"], sorted((c["stype"], c["dtype"], str(c.get("sep")), str(c.get("fmt")),
                                              tuple(cell is None for cell in c["cells"])) for c in case["cols"])]
    return json.dumps(sig, default=str)


def stats(cases, obss):
    d = {"stypes": {}, "index": {}, "dtypes": {}, "rows": {}, "missing_cells": 0, "cells": 0, "raised": 0}
    for c, o in zip(cases, obss):
        if c is None:
            continue
        if c.get("kind") == "calendar":
            d["calendar_instants"] = d.get("calendar_instants", 0) + len(c["cells"])
            continue
        if c.get("kind") == "sibling":
            d["sibling"] = d.get("sibling", 0) + 1
            d.setdefault("sibling_dtypes", {})
            for col in c["cols"]:
                if col["stype"] == "categorical":
                    k = f"{col['dtype_a']}->{col['dtype_b']}" + ("/target" if col["name"] == c["target"] else "")
                    d["sibling_dtypes"][k] = d["sibling_dtypes"].get(k, 0) + 1
            if not (o.get("ok") and o["col_stats"]["ok"] and o["converter"]["ok"]):
                d["raised"] += 1
            continue
        M.count_forms(d, (o or {}).get("used"))
        if c.get("large"):
            d.setdefault("large_rows", {})
            d["large_rows"][str(c["n"])] = d["large_rows"].get(str(c["n"]), 0) + 1
        b = d.setdefault("boundaries", {})
        if c["n"] == 1:
            b["one-row-frame"] = b.get("one-row-frame", 0) + 1
        for col in c["cols"]:
            if col.get("boundary"):
                b[col["boundary"]] = b.get(col["boundary"], 0) + 1
            if col["stype"] == "embedding" and col.get("width") == 1:
                b["embedding-width-1"] = b.get("embedding-width-1", 0) + 1
            if col["stype"] == "categorical":
                from collections import Counter
                cnt = sorted(Counter(str(v) for v in col["cells"] if v is not None).values(), reverse=True)
                if len(cnt) >= 2 and cnt[0] == cnt[1]:
                    b["tied-categories/" + c["index"]] = b.get("tied-categories/" + c["index"], 0) + 1
            if c["index"] == "dup" and c["n"] >= 2 and any(v is None for v in col["cells"]):
                b["dup-labels-with-missing-cells"] = b.get("dup-labels-with-missing-cells", 0) + 1
        if (o or {}).get("aliasing") is not None:
            d["aliasing_probes"] = d.get("aliasing_probes", 0) + 1
        if (o or {}).get("direct"):
            d["direct_mapper_calls"] = d.get("direct_mapper_calls", 0) + len(o["direct"])
        if "reloaded" in (o or {}):
            d["cache_reloads"] = d.get("cache_reloads", 0) + 1
        if c.get("family"):
            d["family"] = d.get("family", 0) + 1
            embs = [x["name"] for x in c["cols"] if x["stype"] == "embedding"]
            kids = [x["name"] for x in c["cols"] if x["stype"] in ("text_embedded", "image_embedded")]
            if embs and kids and max(embs) > min(kids):
                d["family_embedding_after_child"] = d.get("family_embedding_after_child", 0) + 1
        if c.get("malformed"):
            d.setdefault("malformed_kinds", {})
            d["malformed_kinds"][c["malformed"]] = d["malformed_kinds"].get(c["malformed"], 0) + 1
            d["malformed"] = d.get("malformed", 0) + 1
            d["malformed_raised"] = d.get("malformed_raised", 0) + (0 if o.get("ok") else 1)
        d["index"][c["index"]] = d["index"].get(c["index"], 0) + 1
        d["rows"][c["n"]] = d["rows"].get(c["n"], 0) + 1
        if not o.get("ok"):
            d["raised"] += 1
        for col in c["cols"]:
            if col["name"] == c["target"] and any(v is None for v in col["cells"]):
                d["unlabeled_target_frames"] = d.get("unlabeled_target_frames", 0) + 1
            if col.get("int_tokens"):
                d["int_token_columns"] = d.get("int_token_columns", 0) + 1
                d["minus_one_columns"] = d.get("minus_one_columns", 0) + (1 if minus_one_situation(col) else 0)
            if col["stype"] == "timestamp" and col["fmt"] == "datetime64" and col.get("cfg_fmt"):
                d["datetime64_with_configured_format"] = d.get("datetime64_with_configured_format", 0) + 1
            if col["stype"] == "multicategorical":
                k = "multicat_sep" if col["sep"] is not None else "multicat_list"
                d[k] = d.get(k, 0) + 1
            d["stypes"][col["stype"]] = d["stypes"].get(col["stype"], 0) + 1
            d["dtypes"][col["dtype"]] = d["dtypes"].get(col["dtype"], 0) + 1
            if not c.get("large"):      # the share of missing cells is judged on the small frames
                d["cells"] += len(col["cells"])
                d["missing_cells"] += sum(1 for x in col["cells"] if x is None)
    return d


# ------------------------------------------------------------------ Coq side
def column_cells(tfj, loc, st, n):
    parent, j = loc
    feat = tfj["feats"][parent]
    return [G.canon_sorted(feat[i][j], st) for i in range(n)]


def coq_term(case, obs):
    """Model/Mapper.v pipelines (through Converter.encode_col) and the canonical
    cell encoding of Model/MapperSpec.v evaluated on every column of the frame and
    compared with the cells the implementation produced."""
    if case.get("kind") == "sibling":
        if not (obs.get("ok") and obs["col_stats"]["ok"] and obs["converter"]["ok"]):
            return None
        lab = G.index_labels(case["index_b"], case["n_b"]) or list(range(case["n_b"]))
        parts = []
        for tag in ("col_stats", "converter"):
            tfj = obs[tag]["tf"]
            for col in sibling_cols(case):
                stats = dict(obs["stats_a"].get(col["name"], {}))
                if "COUNT" in stats:      # 1.0 and 1 are the same category value
                    stats["COUNT"] = [[int(v) if isinstance(v, float) and v == int(v) else v for v in stats["COUNT"][0]],
                                      stats["COUNT"][1]]
                raw = M.rawcol(col, stats)
                is_int = M.is_int_stype(col["stype"])
                if col["name"] == case["target"]:
                    cells = [[v] for v in tfj["y"]]
                else:
                    loc = locate(tfj, col)
                    if loc is None:
                        return "false"
                    cells = column_cells(tfj, loc, col["stype"], case["n_b"])
                parts.append(f"check_col pval_eqb idx ({raw}) {M.plist(cells, lambda c: M.pecell(c, is_int))}")
        return f"(let idx := {M.plist(lab, M.ppval)} in " + " && ".join(parts) + ")"
    if case.get("malformed") and not obs.get("ok"):
        bad = case["cols"][1]
        if case["malformed"] in ("missing-embedding-cell", "multicat-number-cell", "seq-string-cell",
                                 "numerical-object-strings"):
            return None     # not expressible through the printer (MCOther / SQOther / a vector by type)
        return f"col_raises pval_eqb {M.labels_of(case)} ({M.rawcol(bad, {'MULTI_COUNT': [[], []]})})"
    if case.get("malformed") or not obs.get("ok"):
        return None     # an implementation that tolerates a malformed column is not compared (outside the property)
    if case.get("kind") == "calendar":
        secs = [M.epoch_seconds(c) for c in case["cells"]]
        idx = M.plist(range(len(secs)), lambda i: "tt")
        rows = M.plist(obs["rows"], lambda r: M.pecell(r, True))
        return f"check_col unit_eqb {idx} (RTime {M.plist(secs, lambda s: M.popt(s, M.zs))}) {rows}"
    if case["n"] > 300:
        return None     # the oracle checks every cell of the large frames; the Coq evaluation stops at 300 rows
    tfj = obs["tf"]
    parts = []
    for col in case["cols"]:
        st = col["stype"]
        stats = obs["stats"].get(col["name"], {})
        raw = M.rawcol(col, stats, parsed=obs["parsed"].get(col["name"]), embedded=obs.get("embedded", {}).get(col["name"]))
        is_int = M.is_int_stype(st)
        if col["name"] == case["target"]:
            if tfj["y"] is None:
                return "false"
            cells = [[v] for v in tfj["y"]]
        else:
            loc = locate(tfj, col)
            if loc is None:
                return "false"
            cells = column_cells(tfj, loc, st, case["n"])
        obs_cells = M.plist(cells, lambda c: M.pecell(c, is_int))
        if st == "multicategorical" and col["sep"]:
            # Python's own split / strip against the model's primitives (Props/C01.v split_loses_nothing, strip_...)
            for c in {c for c in col["cells"] if isinstance(c, str)}:
                pieces = [t.strip() for t in c.split(col["sep"])]
                parts.append(f"check_split {M.pstr(c)} {M.pstr(col['sep'])} {M.plist(pieces, M.pstr)}")
        if minus_one_situation(col):
            # known finding (integer token -1 aliases the missing marker): nothing is demanded of the
            # implementation on such a column -- a harmless rewrite may alias differently, or not at all --
            # so it takes no part in the correspondence; the oracle classifies it under the known-finding key
            # and Props/C01.v `multicategorical_minus_one_refuted` records what the current pipeline does.
            continue
        else:
            parts.append(f"check_col pval_eqb idx ({raw}) {obs_cells}")
    if not parts:
        return None
    if obs.get("used", {}).get("_args"):
        parts.append(M.check_config_term(obs["used"]["_args"]))     # Dataset.__init__ model on this dataset's arguments
    return f"(let idx := {M.labels_of(case)} in " + " && ".join(parts) + ")"


def sanity(cases, obss):
    """Fail-closed distribution check: every stype, labeling, dtype and multicategorical cell kind must be drawn,
    the calendar stream must be there, and raising cases stay a small minority."""
    d = stats(cases, obss)
    probs = []
    total = len([c for c in cases if c is not None])
    if total and d["raised"] > 0.6 * total:
        probs.append(f"{d['raised']} of {total} cases raise")
    frames = sum(d["index"].values())
    if frames and (d["raised"] - d.get("malformed_raised", 0)) > 0.05 * frames:
        probs.append("more than 5 % of the well-formed frames raise")
    for st in STYPES + ["text_embedded", "image_embedded"]:
        if d["stypes"].get(st, 0) == 0:
            probs.append(f"stype {st} never drawn")
    for k in ("range", "offset", "perm", "string", "dup"):
        if d["index"].get(k, 0) == 0:
            probs.append(f"index labeling {k} never drawn")
    for k in ("object", "str", "float", "datetime64"):
        if d["dtypes"].get(k, 0) == 0:
            probs.append(f"dtype {k} never drawn")
    for a in INT_DTYPES:
        for b in INT_DTYPES:
            if d.get("sibling_dtypes", {}).get(f"{a}->{b}", 0) + d.get("sibling_dtypes", {}).get(f"{a}->{b}/target", 0) == 0:
                probs.append(f"sibling history with integer categories held as {a} then {b} never drawn")
    if not any(k.endswith("/target") for k in d.get("sibling_dtypes", {})):
        probs.append("sibling history with an integer-coded target never drawn")
    for k in ("multicat_sep", "multicat_list", "int_token_columns", "calendar_instants", "malformed", "sibling",
              "family", "family_embedding_after_child", "unlabeled_target_frames", "datetime64_with_configured_format"):
        if d.get(k, 0) == 0:
            probs.append(f"{k} never drawn")
    for k in GUARDED + ("ragged-embedding", "missing-embedding-cell"):
        if d.get("malformed_kinds", {}).get(k, 0) == 0:
            probs.append(f"malformed kind {k} never drawn")
    for r in LARGE_ROWS:
        if d.get("large_rows", {}).get(str(r), 0) == 0:
            probs.append(f"no frame with {r} rows")
    for k in (["one-row-frame", "format-matches-none", "format-matches-one", "all-missing-but-one", "embedding-width-1",
               "dup-labels-with-missing-cells"] + ["tied-categories/" + i for i in ("range", "offset", "perm", "string", "dup")]):
        if d.get("boundaries", {}).get(k, 0) == 0:
            probs.append(f"boundary {k} never drawn")
    for k in M.missing_forms(d, extra=["cfg=single", "cfg=dict"] + M.REQUIRED_BACKINGS +
                             ["layout=" + x for x in M.RESTRIDES + ["plain"]]):
        probs.append(f"signature form {k} never drawn")
    for k in ("direct_mapper_calls", "cache_reloads", "aliasing_probes"):
        if d.get(k, 0) == 0:
            probs.append(f"{k} never drawn")
    if d["cells"] and not (0.05 < d["missing_cells"] / d["cells"] < 0.6):
        probs.append("share of missing cells degenerate")
    return probs
