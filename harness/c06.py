"""C06 — ragged containers: construction, concatenation, clone, padding and fill laws.

A case is an expression tree over containers (bases built by the public
constructors, selections, cat along either axis through the static methods or
torch_frame.cat, fillna_col, clone) plus a final observation (cells / to_dense).
The oracle evaluates the same tree on plain nested lists."""
from __future__ import annotations

import json

import torch

import torch_frame
from torch_frame.data import MultiEmbeddingTensor, MultiNestedTensor

from harness import common as C
from harness import ragged as R

# CLAUSES of the property (properties.jsonl, C06), one line each:
#   clause                                         | oracle key(s) that judge it                       | generator kinds that exercise it
CLAUSES = [
    ("build from cells, read cells back = identity", "wrong-cells:*:from, raises:*:from, from-not-identity:*, ill-formed:*:from",
     "every base/ref node (from_tensor_mat list/tuple rows, from_tensor_list via cells and via explicit column "
     "tensors 'basecols', int64/int32/float64/float32); scenario 'from' incl. malformed input"),
    ("cat along rows = cells of the parts in order", "wrong-cells:*:cat0, raises:*:cat0, ill-formed:*:cat0, unreadable:*:cat0",
     "scenarios roundtrip/zero-total/cat/fill/dense/clone/dict/tensor; dim 0 and -3; dim keyword / positional / "
     "omitted (default 0); parts list / tuple; static method / torch_frame.cat"),
    ("cat along columns = rows appended pairwise", "wrong-cells:*:cat1, raises:*:cat1, ill-formed:*:cat1", "same, dim 1 and -2"),
    ("split by any partition (empty parts, parts that are selections) and cat restores an equal container",
     "generator-bug (sanity of the partition), roundtrip-not-allclose:*, not-allclose-rebuilt:*, wrong-cells:*:cat*",
     "scenario roundtrip (whole = base or selection of a base; spans as slice/list/tensor/range, via __getitem__, "
     "select(), select() with negative dim, narrow(), index_select()); zero-total (whole has 0 rows / 0 cols); "
     "thorough: all partitions into <= 3 parts of 16 small containers"),
    ("parts whose row (resp. column) counts disagree are rejected", "no-raise:*:cat0, no-raise:*:cat1, no-raise:dict:cat",
     "scenario reject (count mismatch), reject-widths (MET: equal num_cols, other widths), dict with foreign shape"),
    #   RAISE DEMANDS and the words of the statement that back them:
    #   no-raise:*:cat0/1 'column/row counts disagree'   <- "parts whose row (resp. column) counts disagree ... are rejected"
    #   no-raise:*:cat0/1 'empty argument list'          <- "... and empty argument lists are rejected"
    #   no-raise:met:cat0 'embedding widths disagree'    <- by necessity: "yields exactly the cells of the parts in order"
    #                                                       cannot hold for a returned MultiEmbeddingTensor (one width per column)
    #   no-raise:dict:cat (foreign SHAPE of a value)     <- the count clause above, per key
    #   NOT backed, hence raise-OR-consistent (keys from-not-identity / wrong-cells only if something wrong is returned):
    #   malformed constructor input (ragged rows, column tensors of other row counts, zero sizes, non-tensors, tuples),
    #   dict key sets that differ, mixed payload dtypes, mixed container classes, invalid dims, bad column numbers.
    ("empty argument lists are rejected", "no-raise:*:cat0/cat1", "scenario reject with xs = [] (static and torch_frame.cat)"),
    ("clone gives an equal container", "wrong-cells:*:clone, wrong-class:*:clone", "scenario clone, clone nodes inside cat/fill trees, store programs"),
    ("clone shares no storage", "clone-shares-storage:*, store-diff:* (writes to the clone / to the source do not show in the other)",
     "clone nodes (untyped_storage pointers), scenario store (fillna_col on clone or source, all variables re-read)"),
    ("padding to dense = every cell followed only by the fill value", "wrong-dense:mnt, raises:mnt:to_dense",
     "scenario dense + 10-15 % of roundtrip/fill/clone cases; fill positional / keyword; several fills incl. NaN"),
    ("fillna_col changes exactly the missing entries of one column", "wrong-cells:*:fill, fill-layout:*, raises:*:fill, store-diff:*",
     "scenario fill (every column, fill again), fill value scalar / 0-dim tensor, positional / keyword; "
     "scenario store (write-through to views and sources is predicted by the store model)"),
    ("arguments of cat / clone / to_dense are not modified", "source-modified:*, store-diff:*", "every cat node (snapshots), scenario store"),
    ("torch_frame.cat dispatch on tensor data (Tensor / MNT / MET / dict)", "same keys with kind dense / dict", "via=tf, scenarios tensor, dict"),
]

# BOUNDARIES of the dimensions in QUANTIFIED OVER; every name below is a tag of the dedicated stream
# boundary_cases() (drawn in EVERY run, both kinds x both payloads unless noted), counted in stats()['boundary']
# and required by sanity().
BOUNDARIES = [
    # containers (shape / cell lengths)
    "shape:1x1", "shape:1xN", "shape:Nx1", "shape:0xN(sel)", "shape:Nx0(sel)", "shape:0x0(sel)",
    "cells:all-empty", "cells:one-scalar", "cells:all-equal-length", "cells:longest-first", "cells:longest-last",
    "met:all-widths-0", "met:one-col-width-1",
    # partitions into 1..k parts, both axes (suffix :0 / :1)
    "part:k=1-whole-object", "part:k=1-copy", "part:k=n-singletons", "part:empty-first", "part:empty-last",
    "part:empty-middle-twice", "part:all-empty-but-one", "part:equal-sizes", "part:same-object-twice",
    "part:same-object-thrice", "part:selection-of-selection", "part:clone-and-original", "part:int-index-parts",
    # cat entry points at the one / two element boundary
    "cat:one-element-static", "cat:one-element-tf", "cat:two-elements-tf",
    # rejections: sizes n vs n+1, position of the odd part, zero vs one
    "reject:empty-list", "reject:count-n-vs-n+1-last", "reject:count-n-vs-n+1-first", "reject:count-0-vs-1",
    "reject:odd-part-is-empty-last", "reject:odd-part-is-empty-first",
    "reject:widths-permuted", "reject:widths-last-col+1", "accept:widths-equal-independent",
    # fill values and columns
    "fill:col-first", "fill:col-last", "fill:only-col", "fill:value=marker(no-op)", "fill:value=existing-value",
    "fill:no-missing-in-col", "fill:all-missing-in-col", "fill:col-all-cells-empty", "fill:zero-rows",
    "fill:marker-first-and-last-scalar", "fill:neighbours-of-marker(0,-2)", "fill:twice-same-col",
    # dense padding
    "dense:one-cell", "dense:L=0", "dense:L=1", "dense:no-padding-needed", "dense:fill=existing-value",
    # store / aliasing
    "store:fill-view-first-row", "store:fill-view-last-row", "store:view-of-view", "store:clone-of-view",
    "store:fill-after-same-object-cat", "store:whole-slice-is-same-object", "store:cat-reads-written-view",
    # numeric representation (magnitudes around 2**24, 2**31, 2**53, 2**62; every way to pass a fill value)
    "forms:call-forms", "numeric:width32-extremes", "numeric:big-int-fill-forms", "numeric:big-float-fill-forms", "numeric:big-cat-clone-dense", "numeric:mixed-dtype-cat",
    # error paths of the constructors and of the dispatch
    "errpath:from-nontensor", "errpath:from-ndim2", "errpath:from-tuple", "errpath:from-1d-column", "errpath:mixed-class",
]

# ERROR_PATHS: every raise / assert / special-case branch / dtype cast or promotion of the anchored code that the
# C06 operations pass through: (site, generator kind that reaches it, oracle key that notices a change).
ERROR_PATHS = [
    ("MNT.validate asserts (offset[0], offset[-1]==len(values), len(offset))", "every constructed / returned container; ident:todict",
     "raises:*:<op>, ill-formed:*:<op> (wf_report re-checks the same facts on every result)"),
    ("from_tensor_mat: row of another length -> RuntimeError", "from: ragged", "no-raise:mnt:from"),
    ("from_tensor_mat: element not a Tensor / not 1-D -> RuntimeError", "errpath: from-nontensor, from-ndim2", "from-not-identity:mnt"),
    ("from_tensor_mat: tensor_mat[0] of [] (IndexError), torch.cat([]) for zero columns", "from: norows, nocols", "from-not-identity:*"),
    ("from_tensor_list: assert list and len>0 / Tensor / dim()==2 / size(0) equal", "from: norows; errpath: from-tuple, from-1d-column; basecols ragged",
     "no-raise:met:from, from-not-identity:met"),
    ("cat: len(xs)==0 -> RuntimeError ; _cat_tensor_data [] -> ValueError ; torch_frame.cat([]) -> IndexError", "reject / boundary reject:empty-list", "no-raise:*:cat0/1"),
    ("cat: _normalize_dim (negative dims, dim=2/-1 -> IndexError)", "dims -3/-2 in every scenario", "wrong-cells:*:cat* (invalid dims: not claimed)"),
    ("MNT.cat: num_cols / num_rows mismatch -> RuntimeError", "reject, boundary reject:count-*, reject:odd-part-is-empty-*", "no-raise:mnt:cat0/1"),
    ("MET.cat: len(xs)==1 -> xs[0] ; num_cols / num_rows / offset mismatch -> RuntimeError", "boundary cat:one-element-*, reject, reject-widths", "no-raise:met:*, store-diff:met"),
    ("_cat_tensor_data: len==1 -> td_list[0] ; class mismatch -> RuntimeError ; dict key sets -> RuntimeError ; unknown type",
     "via=tf with 1 part, errpath: mixed-class, dict bad keys", "wrong-cells / no-raise:dict:cat / store-diff"),
    ("torch.cat promotion in cat (dim 0 of both, MET dim 1) ; MNT dim 1: values=empty(dtype of xs[0]) + index_put (dtype mismatch raises)",
     "numeric:mixed-dtype-cat (int32+int64, float32+float64, int+float; values exact in the promoted type)", "wrong-cells:*:cat* (a raise is tolerated)"),
    ("narrow(): start==0 and whole -> self ; length<=0 -> _empty ; _empty dtype=self.dtype", "zero-total, boundary shape:*(sel), store:whole-slice-is-same-object", "wrong-cells, store-diff"),
    ("fillna_col: is_floating_point branch (isnan vs == -1) ; masked assignment casts the fill to the values dtype",
     "fill (int and float, 32/64 bit) ; numeric:big-*-fill-forms (python int / integral python float / 0-dim int32 int64 float32 float64 tensors)",
     "wrong-cells:*:fill (untouched entries bit-identical), store-diff"),
    ("to_dense: count.max() of an empty tensor raises ; new_full(fill) casts the fill to the values dtype", "dense, boundary dense:* ; numeric fill forms", "wrong-dense:mnt, raises:mnt:to_dense"),
    ("clone: values.clone(), offset.clone() keep dtype", "clone nodes on 32/64 bit payloads and on big magnitudes", "wrong-cells:*:clone, clone-shares-storage"),
]

PROP = "C06"
HEADER = "Require Import PF.Lib.PySlice PF.Model.Ragged PF.Model.RaggedRun PF.Model.RaggedCat PF.Model.RaggedStore."
MODEL_TARGETS = ["Model/RaggedCat.vo", "Model/RaggedStore.vo"]
SHARD = 270
RULE = ("expression trees over MultiNestedTensor / MultiEmbeddingTensor (bases 1-5 x 1-4 with unique-id payloads, "
        "selections, cat on both axes via the static methods and torch_frame.cat, fillna_col, clone, to_dense); "
        "distinct = distinct (kind, dtype, scenario, tree shape with index kinds and part count, shapes of every "
        "node's result, ok/err); non-trivial = the root result has at least one cell or is an expected rejection")
TRUSTED = [
    "Coq 8.16.1 kernel + vm_compute (no native_compute)",
    "hand-written models coq/Model/RaggedCat.v and coq/Model/RaggedStore.v (+ Model/Ragged.v for constructors and "
    "selections) of "
    "multi_nested_tensor.py / multi_embedding_tensor.py / multi_tensor.py / utils/concat.py, tied to /repo by this "
    "run's observational correspondence",
    "modelled primitives: torch.cat of 1-D/2-D tensors, slice assignment, index_put_ (scatter) with bounds and "
    "length checks, torch.empty as arbitrary contents, cumsum, reshape, arange, integer // and %, "
    "contiguous row-major layout of the dense result",
    "harness/c06.py + harness/ragged.py (generator, nested-list oracle, Coq literal printer)",
]
ASSUMPTIONS = [
    "'clone shares no storage', 'cat does not modify its arguments' and 'fillna_col writes only the window of its "
    "object' are theorems over the store model coq/Model/RaggedStore.v (objects view numbered storages); which "
    "selections return views / the same object / fresh storage is part of that model and is tied to the library by "
    "the 'store' programs of every run (all variables re-read after in-place writes) and by untyped_storage "
    "pointers of clones; offset tensors are treated as immutable values (no operation in scope writes an "
    "existing offset tensor)",
    "in the expression-tree cases (all scenarios but 'store') every fill acts on storage no other node reads, so "
    "the pure model suffices there",
    "payload scalars are opaque: ints and float64 (NaN included) are moved and compared with the missing marker, "
    "never computed on",
    "fill values are drawn from the container's dtype only (ints for int64 containers, float64 incl. NaN for "
    "float containers): a fractional fill on an int container is truncated by torch and is outside the claim; "
    "fillna_col is exercised for the columns 0..num_cols-1 (negative or too large column numbers are not "
    "normalised by the library and are outside the claim)",
    "fill values given as Python scalars (int; integral float on an int container) must be accepted; a fill given "
    "as a 0-dim TENSOR whose dtype differs from the payload's may be refused (raise tolerated), but if the call "
    "returns the result is judged in full (exactly the missing entries of that column replaced, nothing else)",
    "a cat whose parts have DIFFERENT payload dtypes is outside the quantifier (each container is int or float); "
    "the numeric:mixed-dtype-cat stream is run as an observation only and never reported",
    "a raise is DEMANDED only for cat of an empty list, of parts with disagreeing row/column counts and (by necessity) "
    "of MultiEmbeddingTensors with disagreeing column widths; for every other input the current code rejects "
    "(malformed constructor input, differing dict key sets, mixed dtypes or container classes) the oracle accepts "
    "a raise or a result consistent with the remaining clauses, and the model is not compared when the library "
    "returned normally there",
    "to_dense on a container without cells raises (count.max() of an empty tensor); the property restricts "
    "padding to containers with at least one cell, so these are not compared",
]

BIG_INTS = [2 ** 24 + 1, 2 ** 31 + 3, 2 ** 53 + 1, 2 ** 62 + 1]
INT_FILLS = [0, 777, -1, -5, 31]
FLOAT_FILLS = [0.5, 123.5, None, -2.5, 0.0, 7.0]


# ---------------------------------------------------------------- generation
def _valid_index(rng, n):
    """an index expression valid for an axis of length n"""
    for _ in range(20):
        ix = R.gen_index(rng, n, allow_bad=False)
        try:
            R.ref_positions(ix, n)
            return ix
        except R.RefErr:
            continue
    return {"t": "slice", "a": None, "b": None, "s": None}


def _span(rng, a, b):
    """index expression selecting positions a..b-1 (possibly empty), in one of several forms"""
    k = rng.wpick([(6, "slice"), (2, "list"), (1, "tensor"), (1, "range")])
    if k == "slice":
        return {"t": "slice", "a": a, "b": b, "s": rng.pick([None, None, 1])}
    if k == "range":
        return {"t": "range", "a": a, "b": b, "s": 1}
    return {"t": k, "l": list(range(a, b))}


def _shape(node, bases, ctx):
    try:
        return ref_eval(node, bases, "x", ctx)
    except RefReject:
        return None


def gen_widths(rng, nc):
    return [0 if rng.chance(0.12) else rng.randint(1, 3) for _ in range(nc)]


def gen_container(rng, ctx, bases, nr=None, nc=None, ws=None, allow_ref=True):
    """a container built by the public constructor, inline or as a shared object of the case"""
    nr = nr if nr is not None else rng.randint(1, 5)
    nc = nc if nc is not None else (len(ws) if ws is not None else rng.randint(1, 4))
    cells = gen_cells(rng, ctx["kind"], ctx["dtype"], nr, nc, ws=ws)
    if allow_ref and rng.chance(0.5):
        bases.append(cells)
        return {"t": "ref", "k": len(bases) - 1}
    return {"t": "base", "cells": cells}


def _split(rng, n, k):
    """n as k positive consecutive chunks"""
    cuts = sorted(rng.sample(range(1, n), k - 1)) if k > 1 else []
    b = [0] + cuts + [n]
    return list(zip(b[:-1], b[1:]))


def gen_block(rng, ctx, bases, nr, nc, ws, depth, allow_ref=True):
    """a node denoting an nr x nc container (embedding widths ws): a base, or a cat of smaller blocks"""
    if depth > 0 and rng.chance(0.35):
        d = rng.pick([0, 1])
        n = nr if d == 0 else nc
        k = rng.randint(1, min(3, n))
        xs = []
        for (a, b) in _split(rng, n, k):
            if d == 0:
                xs.append(gen_block(rng, ctx, bases, b - a, nc, ws, depth - 1, allow_ref))
            else:
                xs.append(gen_block(rng, ctx, bases, nr, b - a, ws[a:b] if ws is not None else None, depth - 1, allow_ref))
        node = {"t": "cat", "xs": xs, "dim": pick_dim(rng, d), "via": rng.pick(["static", "tf"])}
    else:
        node = gen_container(rng, ctx, bases, nr, nc, ws, allow_ref)
    if rng.chance(0.06):
        node = {"t": "clone", "s": node}
    return node


_ID = [1]


def gen_cells(rng, kind, dtype, nr, nc, ws=None):
    """unique ids across all bases of a case"""
    start = _ID[0]
    _ID[0] += nr * nc * 3 + 5
    if kind == "met" and ws is not None:
        cid = [start]

        def scalar():
            cid[0] += 1
            if dtype == "float":
                return None if rng.chance(0.12) else cid[0] + 0.5
            if rng.chance(0.1):
                return -1
            return -cid[0] if rng.chance(0.08) else cid[0]
        return [[[scalar() for _ in range(w)] for w in ws] for _ in range(nr)]
    if kind == "dense":
        cid = [start]

        def scalar1():
            cid[0] += 1
            if dtype == "float":
                return None if rng.chance(0.1) else cid[0] + 0.5
            return cid[0]
        return [[[scalar1()] for _ in range(nc)] for _ in range(nr)]
    cells = R.gen_cells(rng, kind, dtype, nr, nc, start_id=start, all_empty=rng.chance(0.05))
    if dtype == "int":
        # ordinary negative values next to the missing marker -1 (ids stay unique)
        cells = [[[(-x if (x > 1 and rng.chance(0.08)) else x) for x in c] for c in row] for row in cells]
    if kind in ("mnt", "met") and rng.chance(0.12):
        # magnitudes float32 / int32 / float64 cannot hold exactly (the case then uses 64-bit payloads)
        def big(x):
            if x is None or x == -1 or not rng.chance(0.3):
                return x
            b = rng.pick(BIG_INTS) + 2 * int(abs(x))
            if dtype == "float":
                return float(rng.pick([2 ** 24 + 1, 2 ** 30 + 1, 2 ** 40 + 1]) + 2 * int(abs(x))) + 0.5
            return b if rng.chance(0.5) else -b
        cells = [[[big(x) for x in c] for c in row] for row in cells]
    return cells


def with_selection(rng, ctx, node, bases, dims=(0, 1), p=0.4, steps=(1, 2)):
    """with probability p wrap node in 1-2 valid selections along the allowed axes"""
    if not rng.chance(p):
        return node
    for _ in range(rng.randint(*steps)):
        st = _shape(node, bases, ctx)
        if st is None:
            return node
        d = rng.pick(list(dims))
        n = st["nr"] if d == 0 else st["nc"]
        ix = _valid_index(rng, n)
        if ix["t"] == "int" and rng.chance(0.5):
            continue
        node = {"t": "sel", "s": node, "dim": d, "idx": ix}
    return node


def gen_partition(rng, ctx, node, bases, d):
    """parts of `node` along axis d: consecutive spans (empty ones included) that concatenate to the identity"""
    st = _shape(node, bases, ctx)
    n = st["nr"] if d == 0 else st["nc"]
    k = rng.wpick([(2, 1), (4, 2), (4, 3), (2, 4), (1, 5)])
    cuts = sorted(rng.randint(0, n) for _ in range(k - 1))
    if rng.chance(0.25) and k > 1:           # force an empty part
        cuts[rng.randrange(len(cuts))] = rng.pick([0, n] + cuts)
        cuts.sort()
    bounds = [0] + cuts + [n]
    parts = []
    for a, b in zip(bounds[:-1], bounds[1:]):
        parts.append({"t": "sel", "s": node, "dim": d, "idx": _span(rng, a, b)})
    return parts


def pick_dim(rng, d):
    return rng.pick([d, d, d, d - 3])        # -3 / -2 are the negative spellings of 0 / 1


def gen_case(rng, tier):
    _ID[0] = 1
    kind = rng.pick(["mnt", "mnt", "mnt", "met", "met"])
    dtype = rng.pick(["int", "float"])
    bases = []
    scen = rng.wpick([(29, "roundtrip"), (8, "zero-total"), (21, "cat"), (8, "reject"), (13, "fill"),
                      (9, "dense"), (5, "clone"), (5, "from"), (4, "dict"), (4, "tensor"), (9, "store")])
    if scen == "dense":
        kind = "mnt"
    case = {"kind": kind, "dtype": dtype, "bases": bases, "scenario": scen, "final": {"op": "cells"}}
    ctx = {"kind": kind, "dtype": dtype}
    via = rng.pick(["static", "static", "tf"])
    fills = INT_FILLS if dtype == "int" else FLOAT_FILLS

    if scen == "store":
        case["prog"] = gen_prog(rng, ctx)
        case["expr"] = {"t": "prog"}
        return case

    if scen in ("roundtrip", "zero-total"):
        cells = gen_cells(rng, kind, dtype, rng.randint(1, 5), rng.randint(1, 4))
        bases.append(cells)
        whole = {"t": "ref", "k": 0}
        if scen == "zero-total":
            # the partitioned container itself has zero rows or zero columns (only reachable by selection)
            zd = rng.pick([0, 1, 1])
            n = len(cells) if zd == 0 else len(cells[0])
            a = rng.randint(0, n)
            empty_ix = rng.pick([{"t": "slice", "a": a, "b": a, "s": None}, {"t": "list", "l": []},
                                 {"t": "mask", "m": [False] * n}])
            whole = {"t": "sel", "s": whole, "dim": zd, "idx": empty_ix}
            if rng.chance(0.3):
                whole = with_selection(rng, ctx, whole, bases, dims=(1 - zd,), p=1.0, steps=(1, 1))
            d = rng.pick([zd, zd, 1 - zd])
        else:
            whole = with_selection(rng, ctx, whole, bases, p=0.4)
            d = rng.pick([0, 1])
        case["whole"] = whole
        case["expr"] = {"t": "cat", "xs": gen_partition(rng, ctx, whole, bases, d), "dim": pick_dim(rng, d), "via": via}
        if rng.chance(0.15) and kind == "mnt":
            case["final"] = {"op": "dense", "fill": rng.pick(fills)}
        return case

    if scen == "cat":
        case["expr"] = gen_cat(rng, ctx, bases, via, depth=0)
        return case

    if scen == "reject" and kind == "met" and rng.chance(0.45):
        # independently built MultiEmbeddingTensors, same num_cols, widths permuted / changed: row cat must raise
        nc = rng.randint(2, 4)
        ws = gen_widths(rng, nc)
        while len(set(ws)) < 2:
            ws = [rng.randint(0, 3) for _ in range(nc)]
        how = rng.pick(["permuted", "permuted", "same-total", "other-total"])
        ws2 = list(ws)
        if how == "permuted":
            while ws2 == ws:
                rng.shuffle(ws2)
        elif how == "same-total":
            i, j = rng.sample(range(nc), 2)
            if ws2[i] == 0:
                i, j = j, i
            if ws2[i] == 0:
                ws2[i] += 1
            else:
                ws2[i] -= 1
                ws2[j] += 1
        else:
            ws2[rng.randrange(nc)] += 1
        k = rng.randint(2, 4)
        odd = rng.randrange(1, k) if rng.chance(0.7) else 0
        xs = []
        for i in range(k):
            node = gen_container(rng, ctx, bases, rng.randint(1, 3), nc, ws2 if i == odd else ws)
            xs.append(with_selection(rng, ctx, node, bases, dims=(0,), p=0.3, steps=(1, 1)))
        case["expr"] = {"t": "cat", "xs": xs, "dim": pick_dim(rng, 0), "via": via}
        case["scenario"] = "reject-widths"
        return case

    if scen == "reject":
        d = rng.pick([0, 1])
        if rng.chance(0.3):
            xs = []
        else:
            a, b = rng.randint(1, 4), rng.randint(1, 4)
            if a == b:
                b = a + 1
            if d == 0:
                shapes = [(rng.randint(1, 4), a), (rng.randint(1, 4), b)]
            else:
                shapes = [(a, rng.randint(1, 3)), (b, rng.randint(1, 3))]
            if rng.chance(0.4):
                shapes.insert(rng.randint(0, 2), shapes[rng.randint(0, 1)])
            xs = []
            for (nr, nc) in shapes:
                node = gen_container(rng, ctx, bases, nr, nc, gen_widths(rng, nc) if kind == "met" else None)
                xs.append(with_selection(rng, ctx, node, bases, dims=(d,), p=0.3, steps=(1, 1)))
        case["expr"] = {"t": "cat", "xs": xs, "dim": pick_dim(rng, d), "via": via}
        return case

    if scen in ("fill", "dense", "clone"):
        if rng.chance(0.45):
            node = with_selection(rng, ctx, gen_container(rng, ctx, bases, allow_ref=False), bases, p=0.5)
        else:
            node = gen_cat(rng, ctx, bases, via, depth=1, allow_ref=False)
        if scen == "clone" or (scen == "fill" and rng.chance(0.2)):
            node = {"t": "clone", "s": node}
        if scen == "fill":
            st = _shape(node, bases, ctx)
            cols = list(range(st["nc"])) if st else [0]
            rng.shuffle(cols)
            for j in cols[:4]:
                node = {"t": "fill", "s": node, "col": j, "value": rng.pick(fills)}
            if cols and rng.chance(0.3):      # fill a column again with another value
                node = {"t": "fill", "s": node, "col": cols[0], "value": rng.pick(fills)}
        if kind == "mnt" and (scen == "dense" or rng.chance(0.1)):
            case["final"] = {"op": "dense", "fill": rng.pick(fills)}
        case["expr"] = node
        return case

    if scen == "from":
        nr, nc = rng.randint(1, 5), rng.randint(1, 4)
        cells = gen_cells(rng, kind, dtype, nr, nc)
        bad = rng.wpick([(5, None), (3, "ragged"), (1, "norows"), (1, "nocols")])
        case["expr"] = {"t": "base", "cells": cells}
        if bad == "ragged" and nr > 1 and kind == "mnt":
            # from_tensor_mat: a row with another number of cells
            i = rng.randint(1, nr - 1)
            cells[i] = cells[i][:-1] if (nc > 1 and rng.chance(0.5)) else cells[i] + [list(cells[i][0])]
        elif bad == "ragged" and nr > 1 and kind == "met":
            # from_tensor_list: a column tensor with another number of rows
            cols = [[row[j] for row in cells] for j in range(nc)]
            j = rng.randrange(nc)
            cols[j] = cols[j][:-1] if rng.chance(0.5) else cols[j] + [list(cols[j][0])]
            case["expr"] = {"t": "basecols", "cols": cols}
        elif bad is None and kind == "met" and rng.chance(0.6):
            case["expr"] = {"t": "basecols", "cols": [[row[j] for row in cells] for j in range(nc)]}
        elif bad == "norows":
            case["expr"] = {"t": "base", "cells": []}
        elif bad == "nocols":
            case["expr"] = {"t": "base", "cells": [[] for _ in range(nr)]}
        return case

    if scen == "dict":
        case["kind"] = "mnt"
        ctx = {"kind": "mnt", "dtype": dtype}
        d = rng.pick([0, 1])
        keys = rng.pick([["a"], ["a", "b"], ["b", "a", "c"]])
        k = rng.randint(1, 3)
        nrs = [rng.randint(1, 3) for _ in range(k)]
        ncs = {key: [rng.randint(1, 3) for _ in range(k)] for key in keys}
        parts = []
        for p in range(k):
            dct = {}
            for key in keys:
                shape = (nrs[p], ncs[key][0]) if d == 0 else (nrs[0], ncs[key][p])
                dct[key] = with_selection(rng, ctx, gen_container(rng, ctx, bases, shape[0], shape[1], allow_ref=False),
                                          bases, dims=(d,), p=0.3, steps=(1, 1))
            parts.append(dct)
        if k > 1 and rng.chance(0.3):                     # the key order of a later dict does not matter
            items = list(parts[-1].items())
            rng.shuffle(items)
            parts[-1] = dict(items)
        if rng.chance(0.4) and k > 1:
            key = rng.pick(keys)
            r = rng.random()
            if r < 0.35:
                del parts[-1][key]                       # missing key
            elif r < 0.7:                                # extra key in a later dict
                parts[rng.randint(1, k - 1)]["zz"] = gen_container(rng, ctx, bases, nrs[0], 1, allow_ref=False)
            else:
                parts[-1][key] = gen_container(rng, ctx, bases, 5, 5, allow_ref=False)
        case["expr"] = {"t": "dictcat", "keys": keys, "parts": parts, "dim": d}
        return case

    # plain 2-D tensors through torch_frame.cat
    case["kind"] = "dense"
    d = rng.pick([0, 1])
    k = rng.randint(1, 4)
    other = rng.randint(1, 4)
    xs = []
    for _ in range(k):
        n = rng.randint(1, 4)
        shape = (n, other) if d == 0 else (other, n)
        node = {"t": "base", "cells": gen_cells(rng, "dense", dtype, *shape)}
        if rng.chance(0.4):
            a = rng.randint(0, n)
            b = rng.randint(a, n)
            node = {"t": "sel", "s": node, "dim": d, "idx": rng.pick([{"t": "slice", "a": a, "b": b, "s": None},
                                                                      {"t": "list", "l": list(range(a, b))}])}
        xs.append(node)
    if rng.chance(0.1) and k > 1:
        xs[-1] = {"t": "base", "cells": gen_cells(rng, "dense", dtype, other + 1, other + 2)}
    case["expr"] = {"t": "cat", "xs": xs, "dim": d, "via": "tf"}
    return case


def gen_cat(rng, ctx, bases, via, depth, allow_ref=True):
    """a cat node whose parts agree on the other axis: different bases, blocks that are cats themselves,
    parts that are selections (along the cat axis, plus one common selection on the other axis)"""
    d = rng.pick([0, 1])
    k = rng.wpick([(2, 1), (5, 2), (4, 3), (2, 4), (1, 5)])
    other = rng.randint(1, 4) if d == 0 else rng.randint(1, 5)
    met = ctx["kind"] == "met"
    ws_shared = gen_widths(rng, other) if (met and d == 0) else None
    common = None
    if rng.chance(0.3):                      # the same selection on the other axis applied to every part
        common = _valid_index(rng, other)
        if common["t"] == "int":
            common = {"t": "list", "l": [common["i"]]}
    shared = None
    xs = []
    for _ in range(k):
        if shared is not None and rng.chance(0.3):
            node = shared                    # another part cut out of the same object
        else:
            n = rng.randint(1, 4)
            if d == 0:
                node = gen_block(rng, ctx, bases, n, other, ws_shared, 1 - depth, allow_ref)
            else:
                node = gen_block(rng, ctx, bases, other, n, gen_widths(rng, n) if met else None, 1 - depth, allow_ref)
            if node["t"] == "ref":
                shared = node
        node = with_selection(rng, ctx, node, bases, dims=(d,), p=0.45)
        if common is not None:
            node = {"t": "sel", "s": node, "dim": 1 - d, "idx": common}
        xs.append(node)
    return {"t": "cat", "xs": xs, "dim": pick_dim(rng, d), "via": via}


def small_scope(tier):
    """exhaustive: every partition of every axis of two small containers into <= 3 consecutive parts"""
    out = []
    rng = C.Rng(11)
    for kind in ("mnt", "met"):
        for (nr, nc) in [(1, 1), (2, 3), (3, 2), (4, 1)]:
            for dtype in ("int", "float"):
                _ID[0] = 1
                cells = gen_cells(rng, kind, dtype, nr, nc)
                for d in (0, 1):
                    n = nr if d == 0 else nc
                    for k in (1, 2, 3):
                        import itertools
                        for cuts in itertools.combinations_with_replacement(range(n + 1), k - 1):
                            b = [0] + list(cuts) + [n]
                            for form in ("slice", "list"):
                                parts = []
                                for a, e in zip(b[:-1], b[1:]):
                                    ix = {"t": "slice", "a": a, "b": e, "s": None} if form == "slice" else \
                                        {"t": "list", "l": list(range(a, e))}
                                    parts.append({"t": "sel", "s": {"t": "ref", "k": 0}, "dim": d, "idx": ix})
                                for via in ("static", "tf"):
                                    out.append({"kind": kind, "dtype": dtype, "bases": [cells], "scenario": "roundtrip",
                                                "final": {"op": "cells"}, "whole": {"t": "ref", "k": 0},
                                                "expr": {"t": "cat", "xs": parts, "dim": d, "via": via}})
    return out


def gen_prog(rng, ctx):
    """a program over named objects: constructors, selections (mostly the ones that return views), clone, cat,
    and in-place fillna_col, with reads after the writes"""
    kind, dtype = ctx["kind"], ctx["dtype"]
    fills = INT_FILLS if dtype == "int" else FLOAT_FILLS
    prog, vars_ = [], []

    def push(st_, state):
        prog.append(st_)
        vars_.append(state)

    ws0 = gen_widths(rng, rng.randint(1, 4)) if kind == "met" else None
    nc0 = len(ws0) if ws0 else rng.randint(1, 4)
    for _ in range(rng.randint(1, 2)):
        cells = gen_cells(rng, kind, dtype, rng.randint(1, 5), nc0, ws=ws0)
        push({"op": "base", "cells": cells}, ref_base(cells, kind, "p"))
    n_fill = 0
    for step in range(rng.randint(3, 7)):
        r = rng.random()
        v = rng.randrange(len(vars_))
        stv = vars_[v]
        if r < 0.34:
            d = rng.pick([0, 0, 1])
            n = stv["nr"] if d == 0 else stv["nc"]
            q = rng.random()
            if q < 0.5 and n > 0:
                a = rng.randint(0, n - 1)
                ix = {"t": "slice", "a": a, "b": rng.randint(a, n) if rng.chance(0.8) else None, "s": rng.pick([None, None, 1])}
            elif q < 0.65 and n > 0:
                ix = {"t": "int", "i": rng.randint(-n, n - 1)}
            elif q < 0.75:
                ix = {"t": "slice", "a": None, "b": None, "s": None}
            else:
                ix = _valid_index(rng, n)
            nr, nc, cells = R.ref_select((stv["nr"], stv["nc"], stv["cells"]), ix, d)
            st2 = {"nr": nr, "nc": nc, "cells": cells}
            if "ws" in stv:
                st2["ws"] = stv["ws"] if d == 0 else [stv["ws"][j] for j in R.ref_positions(ix, stv["nc"])]
            push({"op": "sel", "v": v, "dim": d, "idx": ix}, st2)
        elif r < 0.5:
            push({"op": "clone", "v": v}, dict(stv))
        elif r < 0.7:
            d = rng.pick([0, 1])
            def ok(o):
                if d == 0:
                    return o["nc"] == stv["nc"] and o.get("ws") == stv.get("ws")
                return o["nr"] == stv["nr"]
            cand = [k for k, o in enumerate(vars_) if ok(o)]
            vs = [v] + [rng.pick(cand) for _ in range(rng.wpick([(3, 0), (4, 1), (2, 2)]))]
            rng.shuffle(vs)
            parts = [vars_[k] for k in vs]
            if d == 0:
                st2 = {"nr": sum(p["nr"] for p in parts), "nc": stv["nc"], "cells": [row for p in parts for row in p["cells"]]}
                if "ws" in stv:
                    st2["ws"] = stv["ws"]
            else:
                st2 = {"nr": stv["nr"], "nc": sum(p["nc"] for p in parts),
                       "cells": [[c for p in parts for c in p["cells"][i]] for i in range(stv["nr"])]}
                if "ws" in stv:
                    st2["ws"] = [w for p in parts for w in p["ws"]]
            push({"op": "cat", "vs": vs, "dim": pick_dim(rng, d), "via": rng.pick(["static", "tf"])}, st2)
        elif stv["nc"] > 0:
            push({"op": "fill", "v": v, "col": rng.randrange(stv["nc"]), "value": rng.pick(fills)}, dict(stv))
            n_fill += 1
    if n_fill == 0:
        v = rng.randrange(len(vars_))
        if vars_[v]["nc"] > 0:
            prog.append({"op": "fill", "v": v, "col": rng.randrange(vars_[v]["nc"]), "value": rng.pick(fills)})
    return prog


def decorate(rng, case):
    """Draw every call form the public signatures accept (the tree and its nested-list meaning stay the same):
    positional / keyword / defaulted dim, list / tuple of parts, __getitem__ / select / narrow / index_select,
    scalar / 0-dim tensor fill values, cpu() / to() / constructor-from-to_dict() copies, 32-bit payloads."""
    kind = case["kind"]
    ctx = {"kind": kind, "dtype": case["dtype"]}
    bases = case["bases"]
    if kind in ("mnt", "met", "dense"):
        w = rng.pick([64, 64, 32])
        case.setdefault("width", w)
    if "prog" in case:
        if case.get("width") == 32 and _needs64(case):
            case["width"] = 64
        return case
    if kind == "mnt":
        sq = rng.pick(["list", "list", "tuple"])
        case.setdefault("base_seq", sq)

    def deco(node):
        t = node["t"]
        node = dict(node)
        if t == "base" and kind == "mnt":
            sq = rng.pick(["list", "list", "tuple"])
            node.setdefault("seq", sq)
        elif t == "sel":
            node["s"] = deco(node["s"])
            ix = node["idx"]
            opts = ["getitem", "getitem", "select", "select_neg"]
            if ix["t"] == "tensor":
                opts += ["index_select", "index_select"]
            if ix["t"] == "slice" and ix["s"] in (None, 1) and kind != "dense":
                opts += ["narrow", "narrow"]
            if kind == "dense":
                opts = ["getitem"]
            via = rng.pick(opts)
            via = node.get("via", via)
            if via == "narrow":
                st = _shape(node["s"], bases, ctx)
                if st is None:
                    via = "getitem"
                else:
                    n = st["nr"] if node["dim"] == 0 else st["nc"]
                    a, b, _ = slice(ix["a"], ix["b"], ix["s"]).indices(n)
                    node["start"], node["length"] = a, b - a
            node["via"] = via
        elif t in ("fill", "clone", "ident"):
            node["s"] = deco(node["s"])
            if t == "fill":
                fm = rng.pick(["pos", "pos", "kw"])
                node.setdefault("form", fm)
                vf = rng.pick(["scalar"] + fill_forms(case["dtype"], node["value"]))
                node.setdefault("vform", vf)
        elif t == "cat":
            node["xs"] = [deco(x) for x in node["xs"]]
            sq = rng.pick(["list", "list", "tuple"])
            node.setdefault("seq", sq)
            forms = ["kw", "kw", "pos"]
            if node["dim"] == 0 and node["via"] == "static":
                forms += ["default", "default"]
            fm = rng.pick(forms)
            node.setdefault("form", fm)
        elif t == "dictcat":
            node["parts"] = [{k: deco(v) for k, v in dct.items()} for dct in node["parts"]]
            fm, sq = rng.pick(["kw", "pos"]), rng.pick(["list", "tuple"])
            node.setdefault("form", fm)
            node.setdefault("seq", sq)
        if kind in ("mnt", "met") and t in ("base", "ref", "sel", "cat", "clone") and rng.chance(0.05):
            node = {"t": "ident", "s": node, "how": rng.pick(["cpu", "to", "todict"])}
        return node

    case["expr"] = deco(case["expr"])
    if case["final"]["op"] == "dense":
        fm = rng.pick(["kw", "pos"])
        vf = rng.pick(fill_forms(case["dtype"], case["final"]["fill"], dense=True))
        case["final"] = dict({"form": fm, "vform": vf}, **case["final"])
    if case.get("width") == 32 and _needs64(case):
        case["width"] = 64
    return case


def _scalars(case):
    for cells in list(case["bases"]) + [n["cells"] for n in _walk(case["expr"]) if n["t"] in ("base", "rawfrom")] + \
            [n["cols"] for n in _walk(case["expr"]) if n["t"] == "basecols"] + \
            [st_["cells"] for st_ in case.get("prog", []) if st_["op"] == "base"]:
        for row in cells:
            for c in row:
                yield from c
    for n in _walk(case["expr"]):
        if n["t"] == "fill":
            yield n["value"]
    for st_ in case.get("prog", []):
        if st_["op"] == "fill":
            yield st_["value"]
    if case["final"]["op"] == "dense":
        yield case["final"]["fill"]


def _fits32(x, dtype):
    """x is exactly representable in the 32-bit payload type"""
    if x is None:
        return True
    if dtype == "int":
        return -2 ** 31 <= x < 2 ** 31
    import struct
    try:
        return struct.unpack("f", struct.pack("f", x))[0] == x
    except OverflowError:
        return False


def _needs64(case):
    """some payload / fill / pad value of the case would be changed by the HARNESS when stored in 32 bits"""
    return any(not _fits32(x, case["dtype"]) for x in _scalars(case))


def _has_big(case):
    lim = 2 ** 31 - 1 if case["dtype"] == "int" else 2 ** 23
    return any(x is not None and abs(x) > lim for x in _scalars(case))


def _lens_cells(kind, dtype, lens, start=1, missing=()):
    """cells with the given cell lengths lens[r][c]; scalar number k (1-based, row-major) is missing if k in missing"""
    k = [0]
    out = []
    for row in lens:
        r = []
        for ln in row:
            c = []
            for _ in range(ln):
                k[0] += 1
                if k[0] in missing:
                    c.append(None if dtype == "float" else -1)
                else:
                    c.append(start + k[0] + (0.5 if dtype == "float" else 0))
            r.append(c)
        out.append(r)
    return out


def boundary_cases(rng):
    """the dedicated boundary stream: one or more cases per entry of BOUNDARIES, in every run"""
    out = []

    def add(tag, kind, dtype, expr, bases=(), final=None, whole=None, prog=None, scenario="boundary", extra=None):
        c = {"kind": kind, "dtype": dtype, "bases": list(bases), "scenario": scenario, "boundary": tag,
             "final": final or {"op": "cells"}, "expr": expr if prog is None else {"t": "prog"}}
        c.update(extra or {})
        if whole is not None:
            c["whole"] = whole
        if prog is not None:
            c["prog"] = prog
        if prog is not None:
            w = rng.pick([64, 32])
            c.setdefault("width", w)
            if c["width"] == 32 and _needs64(c):
                c["width"] = 64
        out.append(decorate(rng, c) if prog is None else c)

    def sl(a, b):
        return {"t": "slice", "a": a, "b": b, "s": None}

    def sel(node, d, ix):
        return {"t": "sel", "s": node, "dim": d, "idx": ix}

    def cat(xs, d, via="static"):
        return {"t": "cat", "xs": xs, "dim": d, "via": via}

    ref0 = {"t": "ref", "k": 0}
    for kind in ("mnt", "met"):
        for dtype in ("int", "float"):
            miss = -1 if dtype == "int" else None
            fills = INT_FILLS if dtype == "int" else FLOAT_FILLS
            L = (lambda rows: rows) if kind == "mnt" else (lambda rows: [list(rows[0]) for _ in rows])
            # a standard 3x3 with a missing scalar in every column
            std = _lens_cells(kind, dtype, L([[2, 1, 3], [1, 0, 2], [3, 2, 1]]), missing=(1, 3, 8, 12))
            via = rng.pick(["static", "tf"])
            # ---- shapes
            for tag, lens in (("shape:1x1", [[2]]), ("shape:1xN", [[1, 2, 0, 3]]), ("shape:Nx1", [[2], [1], [3], [2]]),
                              ("cells:all-empty", [[0, 0], [0, 0]]), ("cells:one-scalar", [[1]]),
                              ("cells:all-equal-length", [[2, 2], [2, 2]]),
                              ("cells:longest-first", [[3, 1], [1, 2]]), ("cells:longest-last", [[1, 2], [1, 3]])):
                if kind == "met" and tag.startswith("cells:longest"):
                    lens = [[3, 1], [3, 1]] if tag.endswith("first") else [[1, 3], [1, 3]]
                cells = _lens_cells(kind, dtype, L(lens), missing=(1,))
                for d in (0, 1):
                    n = len(cells) if d == 0 else len(cells[0])
                    parts = [sel(ref0, d, sl(0, n // 2)), sel(ref0, d, sl(n // 2, n))]
                    add(tag, kind, dtype, cat(parts, d, via), [cells], whole=ref0,
                        final={"op": "dense", "fill": fills[0]} if kind == "mnt" and d == 0 else None)
            if kind == "met":
                cells = _lens_cells(kind, dtype, [[0, 0, 0]] * 2)
                add("met:all-widths-0", kind, dtype, cat([sel(ref0, 1, sl(0, 1)), sel(ref0, 1, sl(1, 3))], 1), [cells], whole=ref0)
                add("met:all-widths-0", kind, dtype, cat([ref0, ref0], 0), [cells])
                cells = _lens_cells(kind, dtype, [[1]] * 3, missing=(2,))
                add("met:one-col-width-1", kind, dtype, {"t": "fill", "s": cat([ref0, {"t": "clone", "s": ref0}], 1),
                                                          "col": 1, "value": fills[1]}, [cells])
            for tag, ixs in (("shape:0xN(sel)", [(0, {"t": "list", "l": []})]), ("shape:Nx0(sel)", [(1, sl(2, 2))]),
                             ("shape:0x0(sel)", [(0, sl(1, 1)), (1, {"t": "mask", "m": [False] * 3})])):
                whole = ref0
                for d, ix in ixs:
                    whole = sel(whole, d, ix)
                for d in (0, 1):
                    for k in (1, 2):
                        add(tag, kind, dtype, cat([sel(whole, d, sl(0, 0)) if i else sel(whole, d, sl(None, None))
                                                   for i in range(k)], d, rng.pick(["static", "tf"])), [std], whole=whole)
                add(tag, kind, dtype, {"t": "clone", "s": whole}, [std])
            # ---- partitions
            for d in (0, 1):
                n = 3
                t = f":{d}"
                add("part:k=1-whole-object" + t, kind, dtype, cat([ref0], d, "static"), [std], whole=ref0)
                add("part:k=1-copy" + t, kind, dtype, cat([sel(ref0, d, {"t": "list", "l": [0, 1, 2]})], d, via), [std], whole=ref0)
                add("part:k=n-singletons" + t, kind, dtype, cat([sel(ref0, d, sl(i, i + 1)) for i in range(n)], d, via), [std], whole=ref0)
                add("part:int-index-parts" + t, kind, dtype, cat([sel(ref0, d, {"t": "int", "i": i}) for i in (0, -2, 2)], d, via), [std], whole=ref0)
                add("part:empty-first" + t, kind, dtype, cat([sel(ref0, d, sl(0, 0)), ref0], d, via), [std], whole=ref0)
                add("part:empty-last" + t, kind, dtype, cat([ref0, sel(ref0, d, sl(3, 3))], d, via), [std], whole=ref0)
                add("part:empty-middle-twice" + t, kind, dtype,
                    cat([sel(ref0, d, sl(0, 1)), sel(ref0, d, sl(1, 1)), sel(ref0, d, {"t": "list", "l": []}),
                         sel(ref0, d, sl(1, 3))], d, via), [std], whole=ref0)
                add("part:all-empty-but-one" + t, kind, dtype,
                    cat([sel(ref0, d, sl(0, 0)), sel(ref0, d, sl(0, 0)), ref0, sel(ref0, d, sl(3, None))], d, via), [std], whole=ref0)
                big = _lens_cells(kind, dtype, L([[1, 2, 1, 0], [2, 1, 0, 1], [0, 1, 2, 1], [1, 0, 1, 2]]), missing=(2, 9))
                add("part:equal-sizes" + t, kind, dtype, cat([sel(ref0, d, sl(0, 2)), sel(ref0, d, sl(2, 4))], d, via), [big], whole=ref0)
                add("part:same-object-twice" + t, kind, dtype, cat([ref0, ref0], d, via), [std])
                add("part:same-object-thrice" + t, kind, dtype, cat([ref0, sel(ref0, d, sl(None, None)), ref0], d, "static"), [std])
                add("part:selection-of-selection" + t, kind, dtype,
                    cat([sel(sel(ref0, d, sl(1, 3)), d, sl(0, 1)), sel(sel(ref0, d, {"t": "list", "l": [2, 0]}), d, sl(0, 1))], d, via), [std])
                add("part:clone-and-original" + t, kind, dtype, cat([{"t": "clone", "s": ref0}, ref0], d, via), [std])
                add("cat:one-element-static" + t, kind, dtype, cat([sel(ref0, d, sl(1, 3))], d, "static"), [std])
                add("cat:one-element-tf" + t, kind, dtype, cat([sel(ref0, d, sl(1, 3))], d, "tf"), [std])
                add("cat:two-elements-tf" + t, kind, dtype, cat([sel(ref0, d, sl(1, 3)), sel(ref0, d, sl(0, 1))], d, "tf"), [std])
                # ---- rejections
                add("reject:empty-list" + t, kind, dtype, cat([], d, via))
                a = _lens_cells(kind, dtype, L([[1, 2], [2, 1]]))
                b = _lens_cells(kind, dtype, L([[1, 2, 1], [2, 1, 1]]) if d == 0 else L([[1, 2], [2, 1], [1, 1]]), start=40)
                A_, B_ = {"t": "base", "cells": a}, {"t": "base", "cells": b}
                add("reject:count-n-vs-n+1-last" + t, kind, dtype, cat([A_, A_, B_], d, via))
                add("reject:count-n-vs-n+1-first" + t, kind, dtype, cat([B_, A_, A_], d, via))
                # the part whose count disagrees holds no cells at all (zero extent along the cat axis)
                add("reject:odd-part-is-empty-last" + t, kind, dtype, cat([A_, A_, sel(B_, d, sl(1, 1))], d, via))
                add("reject:odd-part-is-empty-first" + t, kind, dtype, cat([sel(B_, d, {"t": "list", "l": []}), A_], d, via))
                add("reject:count-0-vs-1" + t, kind, dtype,
                    cat([sel(A_, 1 - d, sl(0, 0)), sel(A_, 1 - d, sl(0, 1))], d, via))
            if kind == "met":
                a = _lens_cells(kind, dtype, [[1, 2, 1]] * 2)
                b = _lens_cells(kind, dtype, [[2, 1, 1]] * 2, start=40)
                c = _lens_cells(kind, dtype, [[1, 2, 2]] * 1, start=70)
                e = _lens_cells(kind, dtype, [[1, 2, 1]] * 3, start=90)
                A_, B_, C_, E_ = ({"t": "base", "cells": x} for x in (a, b, c, e))
                add("reject:widths-permuted", kind, dtype, cat([A_, B_], 0, via))
                add("reject:widths-last-col+1", kind, dtype, cat([A_, E_, C_], 0, via))
                add("accept:widths-equal-independent", kind, dtype, cat([A_, E_], 0, via))
            else:
                add("reject:widths-permuted", kind, dtype, cat([ref0, ref0], 0), [std])          # (MET-only boundaries:
                add("reject:widths-last-col+1", kind, dtype, cat([ref0, ref0], 0), [std])        #  the tag is shared so
                add("accept:widths-equal-independent", kind, dtype, cat([ref0, ref0], 0), [std])  #  that sanity is uniform)
            # ---- fill
            def fill(node, j, v):
                return {"t": "fill", "s": node, "col": j, "value": v}
            base = {"t": "base", "cells": std}
            add("fill:col-first", kind, dtype, fill(base, 0, fills[1]))
            add("fill:col-last", kind, dtype, fill(base, 2, fills[1]))
            add("fill:only-col", kind, dtype, fill(sel(base, 1, sl(1, 2)), 0, fills[1]))
            add("fill:value=marker(no-op)", kind, dtype, fill(base, 0, miss))
            add("fill:value=existing-value", kind, dtype, fill(base, 0, std[0][1][0]))
            nom = _lens_cells(kind, dtype, L([[2, 1], [1, 2]]), missing=(2,))
            add("fill:no-missing-in-col", kind, dtype, fill({"t": "base", "cells": nom}, 1, fills[1]))
            allm = _lens_cells(kind, dtype, L([[2, 1], [2, 1]]), missing=(1, 2, 4, 5))
            add("fill:all-missing-in-col", kind, dtype, fill({"t": "base", "cells": allm}, 0, fills[1]))
            emp = _lens_cells(kind, dtype, L([[0, 2], [0, 2]]), missing=(1,))
            add("fill:col-all-cells-empty", kind, dtype, fill(fill({"t": "base", "cells": emp}, 0, fills[1]), 1, fills[3]))
            for j in (0, 2):
                add("fill:zero-rows", kind, dtype, fill(sel(base, 0, sl(1, 1)), j, fills[1]))
            ends = _lens_cells(kind, dtype, L([[2, 1], [1, 2]]), missing=(1, 6))
            add("fill:marker-first-and-last-scalar", kind, dtype, fill(fill({"t": "base", "cells": ends}, 0, fills[1]), 1, fills[1]))
            if dtype == "int":
                nb = [[[0, -2, -1], [-2]], [[-1, 0, 1], [0]]] if kind == "mnt" else [[[0, -2, -1], [-2]], [[-1, 0, 1], [0]]]
                add("fill:neighbours-of-marker(0,-2)", kind, dtype, fill(fill({"t": "base", "cells": nb}, 0, 777), 1, 777))
            else:
                nb = [[[0.0, -1.0, None], [-1.0]], [[None, 0.0, 1.0], [0.0]]]
                add("fill:neighbours-of-marker(0,-2)", kind, dtype, fill(fill({"t": "base", "cells": nb}, 0, 123.5), 1, 123.5))
            add("fill:twice-same-col", kind, dtype, fill(fill(base, 1, fills[1]), 1, fills[3]))
            # ---- dense (MultiNestedTensor only; the tag is shared)
            if kind == "mnt":
                for tag, lens, fv in (("dense:one-cell", [[2]], fills[0]), ("dense:L=0", [[0, 0], [0, 0]], fills[1]),
                                      ("dense:L=1", [[1, 0], [0, 1]], fills[0]), ("dense:no-padding-needed", [[2, 2], [2, 2]], fills[1])):
                    cells = _lens_cells(kind, dtype, lens, missing=(1,))
                    add(tag, kind, dtype, {"t": "base", "cells": cells}, final={"op": "dense", "fill": fv})
                    add(tag, kind, dtype, cat([{"t": "base", "cells": cells}, {"t": "base", "cells": cells}], 1), final={"op": "dense", "fill": miss})
                add("dense:fill=existing-value", kind, dtype, base, final={"op": "dense", "fill": std[0][0][1]})
            # ---- store programs
            B = {"op": "base", "cells": std}
            def S(v, d, ix):
                return {"op": "sel", "v": v, "dim": d, "idx": ix}
            def F(v, j, x):
                return {"op": "fill", "v": v, "col": j, "value": x}
            add("store:fill-view-first-row", kind, dtype, None, prog=[B, S(0, 0, sl(0, 1)), F(1, 0, fills[1]), S(0, 0, sl(0, 2))])
            add("store:fill-view-last-row", kind, dtype, None, prog=[B, S(0, 0, {"t": "int", "i": -1}), F(1, 2, fills[1]), S(0, 0, sl(1, 3))])
            add("store:view-of-view", kind, dtype, None, prog=[B, S(0, 0, sl(1, 3)), S(1, 0, sl(1, 2)), F(2, 2, fills[1]), S(2, 1, sl(1, 3)), F(4, 0, fills[3])])
            add("store:clone-of-view", kind, dtype, None, prog=[B, S(0, 0, sl(1, 3)), {"op": "clone", "v": 1}, F(2, 0, fills[1]), F(1, 2, fills[3])])
            for d in (0, 1):
                add("store:fill-after-same-object-cat", kind, dtype, None,
                    prog=[B, {"op": "cat", "vs": [0, 0], "dim": d, "via": via}, F(1, 0, fills[1]), F(0, 2, fills[3]),
                          {"op": "cat", "vs": [0], "dim": d, "via": "tf"}, F(4, 1, fills[1])])
            for d in (0, 1):   # (Props/C06.v ex_met_store) a column view of a row view is written, then read by a cat
                add("store:cat-reads-written-view", kind, dtype, None,
                    prog=[B, S(0, 0, sl(1, 3)), S(1, 1, {"t": "int", "i": 0}), F(2, 0, fills[1]),
                          {"op": "cat", "vs": [1, 1], "dim": d, "via": via}, F(4, 1, fills[3]), S(0, 1, sl(0, 2))])
            add("store:whole-slice-is-same-object", kind, dtype, None, prog=[B, S(0, 0, sl(0, 3)), S(0, 1, sl(None, None)), F(1, 0, fills[1]), F(2, 2, fills[3])])
            # ---- every call form of the public signatures, deterministically (sanity() requires them)
            two = [sel(ref0, 0, sl(0, 1)), sel(ref0, 0, sl(1, 3))]
            for form in ("kw", "pos", "default"):
                for seq in ("list", "tuple"):
                    add("forms:call-forms", kind, dtype, dict(cat(two, 0, "static"), form=form, seq=seq), [std], whole=ref0,
                        extra={"width": 64 if form == "kw" else 32, "base_seq": seq})
            for d in (-3, -2):
                n5 = [sel(ref0, d + 3, sl(i, i + 1)) for i in range(3)] + [sel(ref0, d + 3, sl(3, 3)), sel(ref0, d + 3, sl(3, None))]
                add("forms:call-forms", kind, dtype, cat(n5, d, "tf"), [std], whole=ref0)
            for via_, ix in (("getitem", sl(0, 2)), ("select", sl(0, 2)), ("select_neg", {"t": "list", "l": [2, 0]}),
                             ("narrow", sl(1, 3)), ("index_select", {"t": "tensor", "l": [1, -1]})):
                for d in (0, 1):
                    add("forms:call-forms", kind, dtype, cat([dict(sel(ref0, d, ix), via=via_), ref0], d, "static"), [std])
            for fm in ("pos", "kw"):
                add("forms:call-forms", kind, dtype, dict(fill({"t": "base", "cells": std, "seq": "tuple" if fm == "kw" else "list"},
                                                               1, fills[1]), form=fm, vform="scalar"))
            for how in ("cpu", "to", "todict"):
                add("forms:call-forms", kind, dtype, cat([{"t": "ident", "how": how, "s": ref0}, ref0], 0, "tf"), [std])
            if kind == "mnt":
                for fm, vf in (("kw", "scalar"), ("pos", "pyfloat" if dtype == "int" else "pyint")):
                    add("forms:call-forms", kind, dtype, {"t": "base", "cells": std},
                        final={"op": "dense", "fill": 7 if dtype == "int" else 7.0, "form": fm, "vform": vf})
            else:
                add("forms:call-forms", kind, dtype, {"t": "basecols", "cols": [[row[j] for row in std] for j in range(3)]})
                add("forms:call-forms", kind, dtype, {"t": "basecols", "cols": [[row[0] for row in std], [row[1] for row in std][:2]]})
            # plain tensors and dicts through torch_frame.cat
            dn = _lens_cells("dense", dtype, [[1, 1], [1, 1]])
            for d in (0, 1):
                add("forms:call-forms", "dense", dtype, cat([{"t": "base", "cells": dn}, sel({"t": "base", "cells": dn}, d, sl(0, 1))], d, "tf"))
                if kind == "mnt":
                    pa = {"a": {"t": "base", "cells": std}, "b": sel({"t": "base", "cells": std}, 1 - d, sl(0, 2))}
                    add("forms:call-forms", kind, dtype, {"t": "dictcat", "keys": ["a", "b"], "parts": [pa, dict(reversed(list(pa.items())))], "dim": d})
            # ---- the extremes of the 32-bit payload types, stored in 32 bits
            if dtype == "int":
                ext = [[[2 ** 31 - 1, -1], [-(2 ** 31)]], [[-(2 ** 31) + 1], [2 ** 31 - 2, -1]]]
                ext = ext if kind == "mnt" else [[[2 ** 31 - 1, -1], [-(2 ** 31)]], [[-(2 ** 31) + 1, -1], [2 ** 31 - 2]]]
            else:
                ext = [[[16777216.0, None], [-16777215.0]], [[8388607.5], [-8388607.5, None]]]
                ext = ext if kind == "mnt" else [[[16777216.0, None], [-16777215.0]], [[8388607.5, None], [-8388607.5]]]
            eb = {"t": "base", "cells": ext}
            for d in (0, 1):
                add("numeric:width32-extremes", kind, dtype, fill(cat([eb, {"t": "clone", "s": eb}], d, via), 0, fills[1]),
                    extra={"width": 32}, final={"op": "dense", "fill": fills[0]} if kind == "mnt" else None)
            # ---- numeric representation
            if dtype == "int":
                bigc = [[[2 ** 24 + 1, -1, -(2 ** 53) - 1], [2 ** 62, -1]],
                        [[-1, -(2 ** 31) - 3, 2 ** 53 + 1], [-(2 ** 24) - 1, 2 ** 31 + 3]]]
                tagf, fv = "numeric:big-int-fill-forms", [3, 777]
            else:
                bigc = [[[2.0 ** 24 + 1.5, None, -(2.0 ** 40) - 0.5], [2.0 ** 53, None]],
                        [[None, 2.0 ** 30 + 1.5, 1.5], [-(2.0 ** 24) - 1.5, 0.5]]]
                tagf, fv = "numeric:big-float-fill-forms", [7.0, 0.0]
            bigb = {"t": "base", "cells": bigc}
            for form in fill_forms(dtype, fv[0]):
                for j in (0, 1):
                    add(tagf, kind, dtype, dict(fill(bigb, j, fv[j % 2]), vform=form))
                add(tagf, kind, dtype, None, prog=[{"op": "base", "cells": bigc}, S(0, 0, sl(1, 2)), dict(F(1, 0, fv[0]), vform=form), F(0, 1, fv[1])])
            for d in (0, 1):
                n = 2
                add("numeric:big-cat-clone-dense", kind, dtype,
                    cat([sel(ref0, d, sl(0, 1)), {"t": "clone", "s": sel(ref0, d, sl(1, n))}], d, via), [bigc], whole=ref0,
                    final={"op": "dense", "fill": fv[0]} if kind == "mnt" else None)
            # mixed payload dtypes in one cat: values are exact in the promoted type; a rejection is tolerated
            small_i = _lens_cells(kind, "int", L([[1, 2], [2, 1]]))
            small_f = _lens_cells(kind, "float", L([[1, 2], [2, 1]]), start=30)
            big_i = [[[2 ** 40 + 1 + i + 2 * j for _ in c] for j, c in enumerate(row)] for i, row in enumerate(small_i)]
            big_f = [[[2.0 ** 30 + 1.5 + i + 2 * j for _ in c] for j, c in enumerate(row)] for i, row in enumerate(small_i)]
            pairs = [(("int", 32, small_i), ("int", 64, big_i)), (("float", 32, small_f), ("float", 64, big_f)),
                     (("int", 64, small_i), ("float", 64, small_f))] if dtype == "int" else \
                    [(("float", 64, big_f), ("float", 32, small_f)), (("int", 64, big_i), ("int", 32, small_i)),
                     (("float", 32, small_f), ("int", 32, small_i))]
            for (pa, pb) in pairs:
                for d in (0, 1):
                    xs = [{"t": "base", "cells": c_, "dtype": dt_, "width": w_} for (dt_, w_, c_) in (pa, pb)]
                    add("numeric:mixed-dtype-cat", kind, "float" if "float" in (pa[0], pb[0]) else "int",
                        cat(xs + xs[:1], d, rng.pick(["static", "tf"])))
                    out[-1]["raise_tolerated"] = True
                    out[-1]["unjudged"] = True
            # ---- error paths of the constructors and of the dispatch
            okc = _lens_cells(kind, dtype, L([[2, 1], [1, 2]]))
            if kind == "mnt":
                add("errpath:from-nontensor", kind, dtype, {"t": "rawfrom", "how": "nontensor", "cells": okc})
                add("errpath:from-ndim2", kind, dtype, {"t": "rawfrom", "how": "ndim2", "cells": okc})
            else:
                add("errpath:from-tuple", kind, dtype, {"t": "rawfrom", "how": "tuple", "cells": okc})
                add("errpath:from-1d-column", kind, dtype, {"t": "rawfrom", "how": "1d", "cells": okc})
            other = "met" if kind == "mnt" else "mnt"
            sq = _lens_cells("met", dtype, [[1, 1], [1, 1]], start=50)
            for d in (0, 1):
                add("errpath:mixed-class", kind, dtype,
                    cat([{"t": "base", "cells": sq}, {"t": "base", "cells": sq, "kind": other}], d, rng.pick(["static", "tf"])))
                out[-1]["raise_tolerated"] = True
                out[-1]["mixed_class"] = True
    return out


def generate(rng, tier):
    n = 1300 if tier == "quick" else 30000
    cases = boundary_cases(rng) + [decorate(rng, gen_case(rng, tier)) for _ in range(n)]
    if tier == "thorough":
        cases += small_scope(tier)
    return cases


# ------------------------------------------------ nested-list reference
class RefReject(Exception):
    """the property demands a rejection here (or, with free=True, says nothing)"""
    def __init__(self, path, why, free=False):
        super().__init__(why)
        self.path, self.why, self.free = path, why, free


def is_missing(x, dtype):
    return x is None if dtype == "float" else x == -1


def ref_base(cells, kind, path):
    """state of a container built from cells; malformed input -> RefReject(free=...)"""
    if len(cells) == 0 or len(cells[0]) == 0:
        raise RefReject(path, "no rows / no columns: cannot be built by the constructor", free=True)
    nc = len(cells[0])
    if any(len(r) != nc for r in cells):
        raise RefReject(path, "rows of different lengths", free=True)
    st = {"nr": len(cells), "nc": nc, "cells": [[list(c) for c in r] for r in cells]}
    if kind in ("met", "dense"):
        ws = [len(c) for c in cells[0]]
        if any([len(c) for c in r] != ws for r in cells):
            raise RefReject(path, "cells of one column have different widths", free=True)
        st["ws"] = ws
    return st


def ref_eval(node, bases, path, case, rec=None):
    """evaluate the tree on nested lists; rec collects path -> state"""
    kind = case["kind"] if case else None
    dtype = case["dtype"] if case else None
    t = node["t"]
    if t == "base":
        st = ref_base(node["cells"], kind, path)
    elif t == "ref":
        st = ref_base(bases[node["k"]], kind, path)
    elif t == "rawfrom":
        raise RefReject(path, "constructor input outside its documented types", free=True)
    elif t == "basecols":
        cols = node["cols"]
        if len(cols) == 0 or any(len(c) != len(cols[0]) for c in cols):
            raise RefReject(path, "column tensors with different numbers of rows", free=True)
        st = ref_base([[c[i] for c in cols] for i in range(len(cols[0]))], kind, path)
    elif t == "sel":
        s = ref_eval(node["s"], bases, path + ".s", case, rec)
        try:
            nr, nc, cells = R.ref_select((s["nr"], s["nc"], s["cells"]), node["idx"], node["dim"])
        except R.RefErr as ex:
            raise RefReject(path, "selection error: " + str(ex))
        st = {"nr": nr, "nc": nc, "cells": cells}
        if "ws" in s:
            st["ws"] = s["ws"] if node["dim"] == 0 else [s["ws"][j] for j in R.ref_positions(node["idx"], s["nc"])]
    elif t == "cat":
        parts = [ref_eval(x, bases, f"{path}.xs[{i}]", case, rec) for i, x in enumerate(node["xs"])]
        if not parts:
            raise RefReject(path, "empty argument list")
        d = node["dim"] % 3 if node["dim"] < 0 else node["dim"]
        if d == 0:
            if any(p["nc"] != parts[0]["nc"] for p in parts):
                raise RefReject(path, "column counts disagree")
            if "ws" in parts[0] and len(parts) > 1 and any(p["ws"] != parts[0]["ws"] for p in parts):
                raise RefReject(path, "embedding widths of a column disagree (no container can hold the rows of both)")
            st = {"nr": sum(p["nr"] for p in parts), "nc": parts[0]["nc"],
                  "cells": [row for p in parts for row in p["cells"]]}
            if "ws" in parts[0]:
                st["ws"] = parts[0]["ws"]
        else:
            if any(p["nr"] != parts[0]["nr"] for p in parts):
                raise RefReject(path, "row counts disagree")
            n = parts[0]["nr"]
            st = {"nr": n, "nc": sum(p["nc"] for p in parts),
                  "cells": [[c for p in parts for c in p["cells"][i]] for i in range(n)]}
            if "ws" in parts[0]:
                st["ws"] = [w for p in parts for w in p["ws"]]
    elif t == "fill":
        s = ref_eval(node["s"], bases, path + ".s", case, rec)
        j = node["col"]
        if not (0 <= j < s["nc"]):
            raise RefReject(path, "no such column", free=True)
        v = node["value"]
        cells = [[([v if is_missing(x, dtype) else x for x in c] if jj == j else list(c))
                  for jj, c in enumerate(row)] for row in s["cells"]]
        st = dict(s, cells=cells)
    elif t in ("clone", "ident"):
        st = dict(ref_eval(node["s"], bases, path + ".s", case, rec))
    else:
        raise ValueError(t)
    if rec is not None:
        rec[path] = st
    return st


def ref_dense(st, fill):
    L = max(len(c) for row in st["cells"] for c in row)
    return [[list(c) + [fill] * (L - len(c)) for c in row] for row in st["cells"]]


# ---------------------------------------------------------- implementation
class NodeFail(Exception):
    def __init__(self, path, op, exc):
        super().__init__(path)
        self.path, self.op, self.exc = path, op, exc


FILL_FORMS_INT = ["scalar", "tensor", "pyfloat", "tensor_i32", "tensor_i64", "tensor_f32", "tensor_f64"]


def fill_forms(dtype, v, dense=False):
    """the ways the (mathematical) fill value v can be handed to the library without changing its value"""
    if dense:
        return ["scalar"] + (["pyfloat"] if dtype == "int" else (["pyint"] if v is not None and v == int(v) else []))
    if dtype == "int":
        return [f for f in FILL_FORMS_INT if f != "tensor_i32" or abs(v) < 2 ** 31]
    if v is None:
        return ["scalar", "tensor", "tensor_f32", "tensor_f64"]
    forms = ["scalar", "tensor", "tensor_f64"]
    if v == int(v):
        forms += ["pyint", "tensor_i64"]
    if float(torch.tensor(v, dtype=torch.float32)) == v:
        forms.append("tensor_f32")
    return forms


def fill_dtype_differs(case, vform):
    """the fill is handed over as a 0-dim TENSOR whose dtype is not the payload's: accepting it is not demanded"""
    if not vform or not vform.startswith("tensor_"):
        return False
    mine = ("f" if case["dtype"] == "float" else "i") + str(case.get("width", 64))
    return vform[7:] != mine


def fill_arg(v, form, values_dtype):
    x = float("nan") if v is None else v
    if form == "tensor":
        return torch.tensor(x, dtype=values_dtype)
    if form == "pyfloat":
        return float(x)
    if form == "pyint":
        return int(x)
    if form.startswith("tensor_"):
        td = {"i32": torch.int32, "i64": torch.int64, "f32": torch.float32, "f64": torch.float64}[form[7:]]
        return torch.tensor(x, dtype=td)
    return x


def torch_dtype(dtype, width=64):
    if dtype == "float":
        return torch.float64 if width == 64 else torch.float32
    return torch.long if width == 64 else torch.int32


def build_any(kind, dtype, cells, width=64, seq="list"):
    td = torch_dtype(dtype, width)
    if kind in ("mnt", "met") and len(cells) > 0 and len(cells[0]) > 0:
        def tens(c):
            return torch.tensor([float("nan") if x is None else x for x in c], dtype=td)
        if kind == "mnt":
            mat = [[tens(c) for c in row] for row in cells]
            if seq == "tuple":
                mat = tuple(tuple(r) for r in mat)
            return MultiNestedTensor.from_tensor_mat(mat)
        if all(len(r) == len(cells[0]) for r in cells):
            cols = []
            for j in range(len(cells[0])):
                w = len(cells[0][j])
                cols.append(torch.stack([tens(row[j]) for row in cells]).reshape(len(cells), w))
            return MultiEmbeddingTensor.from_tensor_list(cols)
    if kind == "dense":
        if len(cells) == 0:
            return torch.zeros((0, 0), dtype=td)
        return torch.tensor([[float("nan") if c[0] is None else c[0] for c in row] for row in cells],
                            dtype=td).reshape(len(cells), len(cells[0]))
    return R.build(kind, dtype, cells)


def raw_from(node, dtype, width):
    """constructor calls on inputs outside their documented types"""
    td = torch_dtype(dtype, width)
    cells, how = node["cells"], node["how"]

    def tens(c):
        return torch.tensor([float("nan") if x is None else x for x in c], dtype=td)
    if how == "nontensor":                       # one element is a python list
        mat = [[tens(c) for c in row] for row in cells]
        mat[-1][-1] = list(cells[-1][-1])
        return MultiNestedTensor.from_tensor_mat(mat)
    if how == "ndim2":                           # one element is a 2-D tensor
        mat = [[tens(c) for c in row] for row in cells]
        mat[-1][-1] = tens(cells[-1][-1]).reshape(1, -1)
        return MultiNestedTensor.from_tensor_mat(mat)
    cols = []
    for j in range(len(cells[0])):
        w = len(cells[0][j])
        cols.append(torch.stack([tens(row[j]) for row in cells]).reshape(len(cells), w))
    if how == "tuple":
        return MultiEmbeddingTensor.from_tensor_list(tuple(cols))
    cols[0] = cols[0].reshape(-1)                # a 1-D column tensor
    return MultiEmbeddingTensor.from_tensor_list(cols)


def read_any(kind, t):
    if kind == "dense":
        return t.shape[0], t.shape[1], [[[R.scal(v)] for v in row] for row in t.tolist()]
    return t.num_rows, t.num_cols, R.read_cells(t)


def storage_ptrs(t):
    out = []
    for x in (t.values, t.offset):
        out.append(None if x.numel() == 0 else x.untyped_storage().data_ptr())
    return out


def op_name(node):
    t = node["t"]
    if t == "cat":
        d = node["dim"] % 3 if node["dim"] < 0 else node["dim"]
        return f"cat{d}"
    if t == "sel":
        return f"sel{node['dim']}({node['idx']['t']})"
    if t in ("base", "ref", "basecols", "rawfrom"):
        return "from"
    if t == "ident":
        return "ident:" + node["how"]
    return t


def impl_eval(node, case, objs, path, rec):
    """evaluate on the real library; rec[path] = observation of that node's result"""
    kind, dtype = case["kind"], case["dtype"]
    t = node["t"]
    obs = {"op": op_name(node)}
    try:
        width = case.get("width", 64)
        if t == "base":
            r = build_any(node.get("kind", kind), node.get("dtype", dtype), node["cells"], node.get("width", width),
                          node.get("seq", "list"))
        elif t == "rawfrom":
            r = raw_from(node, dtype, width)
        elif t == "ident":
            s0 = impl_eval(node["s"], case, objs, path + ".s", rec)
            how = node["how"]
            if how == "cpu":
                r = s0.cpu()
            elif how == "to":
                r = s0.to(torch.device("cpu"))
            else:                      # the plain constructor on the serialised fields
                r = type(s0)(**s0.to_dict())
        elif t == "basecols":
            td = torch_dtype(dtype, width)
            r = MultiEmbeddingTensor.from_tensor_list([
                torch.tensor([[float("nan") if x is None else x for x in cell] for cell in col], dtype=td)
                .reshape(len(col), len(col[0]) if col else 0) for col in node["cols"]])
        elif t == "ref":
            k = node["k"]
            if k not in objs:
                objs[k] = build_any(kind, dtype, case["bases"][k], width, case.get("base_seq", "list"))
            r = objs[k]
        elif t == "sel":
            s = impl_eval(node["s"], case, objs, path + ".s", rec)
            ix = R.to_py_index(node["idx"])
            via, d = node.get("via", "getitem"), node["dim"]
            if via == "select":
                r = s.select(ix, d)
            elif via == "select_neg":
                r = s.select(ix, dim=d - 3)
            elif via == "narrow":
                r = s.narrow(d, node["start"], node["length"])
            elif via == "index_select":
                r = s.index_select(ix, d)
            else:
                r = s[ix] if d == 0 else s[:, ix]
        elif t == "cat":
            parts = [impl_eval(x, case, objs, f"{path}.xs[{i}]", rec) for i, x in enumerate(node["xs"])]
            snaps = [R.snapshot(p) if kind != "dense" else p.clone() for p in parts]
            args = tuple(parts) if node.get("seq") == "tuple" else parts
            form = node.get("form", "kw")
            fn = torch_frame.cat if node["via"] == "tf" else \
                (MultiNestedTensor.cat if kind == "mnt" else MultiEmbeddingTensor.cat)
            if form == "default":
                r = fn(args)
            elif form == "pos":
                r = fn(args, node["dim"])
            else:
                r = fn(args, dim=node["dim"])
            if kind != "dense":
                obs["src_same"] = all(R.same_snapshot(p, s) for p, s in zip(parts, snaps))
                obs["class_ok"] = type(r) is (MultiNestedTensor if kind == "mnt" else MultiEmbeddingTensor)
        elif t == "fill":
            r = impl_eval(node["s"], case, objs, path + ".s", rec)
            off_before = r.offset.clone()
            shape_before = (r.num_rows, r.num_cols)
            v = node["value"]
            fv = fill_arg(v, node.get("vform", "scalar"), r.values.dtype)
            if node.get("form") == "kw":
                ret = r.fillna_col(col_index=node["col"], fill_value=fv)
            else:
                ret = r.fillna_col(node["col"], fv)
            obs["returns_none"] = ret is None
            obs["layout_same"] = bool(torch.equal(off_before, r.offset)) and shape_before == (r.num_rows, r.num_cols)
        elif t == "clone":
            s = impl_eval(node["s"], case, objs, path + ".s", rec)
            r = s.clone()
            a, b = storage_ptrs(s), storage_ptrs(r)
            obs["ptr_disjoint"] = all(x is None or y is None or x != y for x, y in zip(a, b)) and r is not s
            obs["class_ok"] = type(r) is type(s)
        else:
            raise ValueError(t)
    except NodeFail:
        raise
    except Exception as ex:
        obs.update(ok=False, exc=C.exc_name(ex), msg=str(ex)[:120])
        rec[path] = obs
        raise NodeFail(path, obs["op"], C.exc_name(ex))
    obs["ok"] = True
    try:
        obs["nr"], obs["nc"], obs["cells"] = read_any(kind, r)
        if kind != "dense":
            obs["wf"] = R.wf_report(r)
    except Exception as ex:
        obs["cells_exc"] = C.exc_name(ex)
    rec[path] = obs
    return r


def prog_ref(case):
    """What the property says about a program: the cells of every variable at the end, or None where the property
    is silent (an object that may share storage with one that was written: selections and one-element cats of it)."""
    kind, dtype = case["kind"], case["dtype"]
    objs = []      # [state or None, alias class] ; a fill rebinds the SAME record
    ncls = [0]

    def fresh():
        ncls[0] += 1
        return ncls[0]
    for st_ in case["prog"]:
        op = st_["op"]
        if op == "base":
            objs.append([ref_base(st_["cells"], kind, "p"), fresh()])
            continue
        if op == "cat":
            parts = [objs[k] for k in st_["vs"]]
            d = st_["dim"] % 3 if st_["dim"] < 0 else st_["dim"]
            if len(parts) == 1:
                objs.append([None if parts[0][0] is None else dict(parts[0][0]), parts[0][1]])
                continue
            if any(p[0] is None for p in parts):
                objs.append([None, fresh()])
                continue
            ps = [p[0] for p in parts]
            if d == 0:
                st2 = {"nr": sum(p["nr"] for p in ps), "nc": ps[0]["nc"], "cells": [row for p in ps for row in p["cells"]]}
            else:
                st2 = {"nr": ps[0]["nr"], "nc": sum(p["nc"] for p in ps),
                       "cells": [[c for p in ps for c in p["cells"][i]] for i in range(ps[0]["nr"])]}
            objs.append([st2, fresh()])
            continue
        src = objs[st_["v"]]
        if op == "clone":
            objs.append([None if src[0] is None else dict(src[0]), fresh()])
        elif op == "sel":
            if src[0] is None:
                objs.append([None, src[1]])
            else:
                nr, nc, cells = R.ref_select((src[0]["nr"], src[0]["nc"], src[0]["cells"]), st_["idx"], st_["dim"])
                objs.append([{"nr": nr, "nc": nc, "cells": cells}, src[1]])
        elif op == "fill":
            for o in objs:
                if o is not src and o[1] == src[1]:
                    o[0] = None                     # may or may not share storage: the property does not say
            if src[0] is not None:
                j, v = st_["col"], st_["value"]
                src[0] = dict(src[0], cells=[[([v if is_missing(x, dtype) else x for x in c] if jj == j else list(c))
                                               for jj, c in enumerate(row)] for row in src[0]["cells"]])
            objs.append(src)
    return [o[0] for o in objs]


def run_prog(case):
    kind, dtype = case["kind"], case["dtype"]
    width = case.get("width", 64)
    objs = []
    out = {"nodes": {}, "prog": {}}
    for k, st_ in enumerate(case["prog"]):
        op = st_["op"]
        try:
            if op == "base":
                r = build_any(kind, dtype, st_["cells"], width)
            elif op == "sel":
                ix = R.to_py_index(st_["idx"])
                r = objs[st_["v"]][ix] if st_["dim"] == 0 else objs[st_["v"]][:, ix]
            elif op == "clone":
                r = objs[st_["v"]].clone()
            elif op == "cat":
                parts = [objs[v] for v in st_["vs"]]
                fn = torch_frame.cat if st_["via"] == "tf" else \
                    (MultiNestedTensor.cat if kind == "mnt" else MultiEmbeddingTensor.cat)
                r = fn(parts, dim=st_["dim"])
            else:
                r = objs[st_["v"]]
                r.fillna_col(st_["col"], fill_arg(st_["value"], st_.get("vform", "scalar"), r.values.dtype))
        except Exception as ex:
            out["prog"] = {"ok": False, "step": k, "op": op, "exc": C.exc_name(ex), "msg": str(ex)[:120]}
            return out
        objs.append(r)
    final = []
    for o in objs:
        try:
            nr, nc, cells = read_any(kind, o)
            final.append({"ok": True, "nr": nr, "nc": nc, "cells": cells, "wf": R.wf_report(o)})
        except Exception as ex:
            final.append({"ok": False, "cells_exc": C.exc_name(ex)})
    out["prog"] = {"ok": True, "vars": final}
    return out


def oracle_prog(case, obs):
    kind = case["kind"]
    po = obs.get("prog", {})
    if not po.get("ok") and po.get("op") == "fill" and \
            fill_dtype_differs(case, case["prog"][po["step"]].get("vform")):
        return None
    if not po.get("ok"):
        return dict(key=f"raises:{kind}:store:{po.get('op')}", what=f"statement {po.get('step')} ({po.get('op')}) "
                    f"raised {po.get('exc')} ({po.get('msg')})", observed=po)
    ref = prog_ref(case)
    for k, (st, ob) in enumerate(zip(ref, po["vars"])):
        if not ob["ok"] or ob.get("wf"):
            return dict(key=f"ill-formed:{kind}:store", what=f"variable {k} cannot be read / is ill-formed after the program",
                        observed=ob)
        if st is None:
            continue
        if (ob["nr"], ob["nc"]) != (st["nr"], st["nc"]) or ob["cells"] != st["cells"]:
            return dict(key=f"store-diff:{kind}",
                        what=f"variable {k} (made by {case['prog'][k]['op']}) does not hold the cells the property "
                             "demands after the program: an object that shares no storage with a written one "
                             "changed, an argument was modified, or a write did not land",
                        expected=st, observed={q: ob[q] for q in ("nr", "nc", "cells")})
    return None


def coq_stmt(st_):
    op = st_["op"]
    if op == "base":
        return f"PBase {R.coq_cells(st_['cells'])}"
    if op == "sel":
        return f"PSel {st_['v']}%nat {st_['dim']}%nat {R.coq_index(st_['idx'])}"
    if op == "clone":
        return f"PClone {st_['v']}%nat"
    if op == "cat":
        return f"PCat {C.clist(st_['vs'], C.cnat)} {C.cz(st_['dim'])} {C.cbool(st_['via'] == 'tf')}"
    return f"PFill {st_['v']}%nat {st_['col']}%nat {R.coq_scalar(st_['value'])}"


def run(case):
    if "prog" in case:
        return run_prog(case)
    rec = {}
    out = {"nodes": rec}
    objs = {}
    expr = case["expr"]
    try:
        if expr["t"] == "dictcat":
            return run_dict(case, out)
        root = impl_eval(expr, case, objs, "x", rec)
    except NodeFail as nf:
        out["failed_at"] = nf.path
        return out
    kind = case["kind"]
    if kind in ("mnt", "met"):
        ro = rec["x"]
        # the library's own equality against a container rebuilt from the cells that were read back
        if expr["t"] in ("cat", "clone", "fill") and "cells" in ro and ro["nr"] >= 1 and ro["nc"] >= 1 \
                and ro["nr"] == len(ro["cells"]) and not case.get("raise_tolerated"):
            try:
                rebuilt = build_any(kind, case["dtype"], ro["cells"], case.get("width", 64))
                out["allclose_rebuilt"] = bool(type(root).allclose(root, rebuilt, equal_nan=True))
            except Exception as ex:
                out["allclose_rebuilt"] = "exc:" + C.exc_name(ex)
        if "whole" in case:
            try:
                w = impl_eval(case["whole"], case, objs, "w", {})
                out["allclose_whole"] = bool(type(root).allclose(root, w, equal_nan=True))
                out["whole_shape"] = [w.num_rows, w.num_cols]
            except Exception as ex:
                out["allclose_whole"] = "exc:" + C.exc_name(ex)
        if case["final"]["op"] == "dense":
            v = case["final"]["fill"]
            try:
                fv = fill_arg(v, case["final"].get("vform", "scalar"), root.values.dtype)
                dn = root.to_dense(fv) if case["final"].get("form") == "pos" else root.to_dense(fill_value=fv)
                out["dense"] = {"ok": True, "shape": list(dn.shape),
                                "data": [[[R.scal(x) for x in c] for c in row] for row in dn.tolist()]}
            except Exception as ex:
                out["dense"] = {"ok": False, "exc": C.exc_name(ex)}
    return out


def run_dict(case, out):
    expr = case["expr"]
    rec = out["nodes"]
    parts = []
    try:
        for i, dct in enumerate(expr["parts"]):
            parts.append({k: impl_eval(n, case, {}, f"x.parts[{i}].{k}", rec) for k, n in dct.items()})
    except NodeFail as nf:
        out["failed_at"] = nf.path
        return out
    try:
        args = tuple(parts) if expr.get("seq") == "tuple" else parts
        r = torch_frame.cat(args, expr["dim"]) if expr.get("form") == "pos" else torch_frame.cat(args, dim=expr["dim"])
    except Exception as ex:
        out["dict"] = {"ok": False, "exc": C.exc_name(ex)}
        return out
    o = {"ok": True, "is_dict": isinstance(r, dict)}
    if isinstance(r, dict):
        o["keys"] = list(r.keys())
        o["vals"] = {}
        for k, v in r.items():
            try:
                o["vals"][k] = {"nr": v.num_rows, "nc": v.num_cols, "cells": R.read_cells(v), "wf": R.wf_report(v)}
            except Exception as ex:
                o["vals"][k] = {"cells_exc": C.exc_name(ex)}
    out["dict"] = o
    return out


# ------------------------------------------------------------------ oracle
def cmp_state(path, op, kind, st, ob):
    if ob.get("wf"):
        return dict(key=f"ill-formed:{kind}:{op}", what=f"{path}: result of {op} is ill-formed: {ob['wf']}",
                    expected=st, observed=ob)
    if "cells_exc" in ob:
        return dict(key=f"unreadable:{kind}:{op}", what=f"{path}: cells of the result of {op} cannot be read "
                    f"({ob['cells_exc']})", expected=st, observed=ob)
    if (ob["nr"], ob["nc"]) != (st["nr"], st["nc"]) or ob["cells"] != st["cells"]:
        return dict(key=f"wrong-cells:{kind}:{op}",
                    what=f"{path}: {op} returned other cells than the nested-list computation",
                    expected=st, observed={k: ob.get(k) for k in ("nr", "nc", "cells")})
    return None


def _node_at(expr, path):
    node = expr
    for step in path.split(".")[1:]:
        if step == "s":
            node = node["s"]
        else:
            node = node["xs"][int(step[3:-1])]
    return node


def oracle(case, obs):
    if "harness_exc" in obs:
        return dict(key="harness-exc", what="harness failed to run the case: " + obs["harness_exc"], tb=obs.get("tb"))
    kind = case["kind"]
    expr = case["expr"]
    if case.get("unjudged"):
        return None            # observation only (outside the quantifier), never reported
    if "prog" in case:
        return oracle_prog(case, obs)
    if expr["t"] == "dictcat":
        return oracle_dict(case, obs)
    ref_rec = {}
    reject = None
    try:
        root = ref_eval(expr, case["bases"], "x", case, ref_rec)
    except RefReject as rr:
        reject = rr
    nodes = obs["nodes"]
    # every node both sides evaluated: the same cells
    for path in sorted(ref_rec, key=lambda p: (p.count("."), p), reverse=True):
        ob = nodes.get(path)
        if ob is None:
            continue
        op = ob["op"]
        if not ob["ok"] and case.get("raise_tolerated") and op.startswith("cat"):
            return None        # mixing payload dtypes / container classes: a rejection is fine, wrong cells are not
        if not ob["ok"] and op == "fill" and fill_dtype_differs(case, _node_at(expr, path).get("vform")):
            return None        # a tensor fill of another dtype may be refused; a result, if any, is judged
        if not ob["ok"]:
            return dict(key=f"raises:{kind}:{op}", what=f"{path}: {op} raised {ob.get('exc')} ({ob.get('msg')}) where "
                        "the nested-list computation is defined", expected=ref_rec[path], observed=ob)
        f = cmp_state(path, op, kind, ref_rec[path], ob)
        if f:
            return f
        if ob.get("src_same") is False:
            return dict(key=f"source-modified:{kind}:{op}", what=f"{path}: {op} modified one of its arguments")
        if ob.get("class_ok") is False:
            return dict(key=f"wrong-class:{kind}:{op}", what=f"{path}: {op} returned another container class")
        if ob.get("ptr_disjoint") is False:
            return dict(key=f"clone-shares-storage:{kind}", what=f"{path}: clone shares storage with its source")
        if ob.get("returns_none") is False or ob.get("layout_same") is False:
            return dict(key=f"fill-layout:{kind}", what=f"{path}: fillna_col returned a value or changed offsets/shape",
                        observed=ob)
    if reject is not None:
        ob = nodes.get(reject.path)
        if reject.free:
            # the property does not say what happens; but IF a container comes back from the constructor it
            # must read back as the cells it was built from
            if ob is not None and ob["ok"] and ob["op"] == "from":
                node_cells = expr["cells"] if expr["t"] in ("base", "rawfrom") else None
                if expr["t"] == "basecols":
                    cols = expr["cols"]
                    node_cells = [[c[i] for c in cols] for i in range(len(cols[0]))] \
                        if cols and all(len(c) == len(cols[0]) for c in cols) else "no container can hold this input"
                if node_cells is not None and (ob.get("cells") != node_cells or ob.get("nr") != len(node_cells)):
                    return dict(key=f"from-not-identity:{kind}", what="constructor accepted an input it does not read back as given",
                                expected=node_cells, observed=ob)
            return None
        if ob is None:
            return dict(key="short-run", what=f"node {reject.path} was not evaluated", observed=obs.get("failed_at"))
        if ob["ok"]:
            return dict(key=f"no-raise:{kind}:{ob['op']}",
                        what=f"{reject.path}: {ob['op']} returned a container where the property demands a rejection "
                             f"({reject.why})", expected="raise", observed={k: ob.get(k) for k in ("nr", "nc", "cells")})
        return None
    if "failed_at" in obs:
        ob = nodes.get(obs["failed_at"], {})
        return dict(key=f"raises:{kind}:{ob.get('op')}", what=f"{obs['failed_at']} raised {ob.get('exc')}", observed=ob)
    # root level observations
    if obs.get("allclose_rebuilt", True) is not True:
        return dict(key=f"not-allclose-rebuilt:{kind}:{op_name(expr)}",
                    what="the result is not allclose to the container rebuilt from its own cells "
                         f"({obs['allclose_rebuilt']})", observed=nodes["x"])
    if "whole" in case:
        w = ref_eval(case["whole"], case["bases"], "w", case)
        if (w["nr"], w["nc"], w["cells"]) != (root["nr"], root["nc"], root["cells"]):
            return dict(key="generator-bug", what="partition does not concatenate to the identity on nested lists")
        if obs.get("allclose_whole") is not True:
            return dict(key=f"roundtrip-not-allclose:{kind}:{op_name(expr)}",
                        what=f"cat of the parts is not allclose to the partitioned container ({obs.get('allclose_whole')})",
                        expected=w, observed=nodes["x"])
    if case["final"]["op"] == "dense" and kind == "mnt" and root["nr"] * root["nc"] >= 1:
        dn = obs.get("dense")
        exp = ref_dense(root, case["final"]["fill"])
        if dn is None or not dn["ok"]:
            return dict(key="raises:mnt:to_dense", what=f"to_dense raised {dn and dn.get('exc')}", expected=exp)
        L = len(exp[0][0])
        if dn["shape"] != [root["nr"], root["nc"], L] or (L > 0 and dn["data"] != exp):
            return dict(key="wrong-dense:mnt", what="to_dense is not every cell followed by the fill value only",
                        expected=exp, observed=dn)
    return None


def oracle_dict(case, obs):
    expr = case["expr"]
    if "failed_at" in obs:
        return dict(key="raises:dict:part", what=f"building a part failed at {obs['failed_at']}")
    keys = list(expr["parts"][0].keys())
    exp = {}
    reject = None
    try:
        for i, dct in enumerate(expr["parts"]):
            if len(expr["parts"]) > 1 and set(dct.keys()) != set(keys):
                raise RefReject("x", f"part {i} has keys {sorted(dct)} instead of {sorted(keys)}", free=True)
        for k in keys:
            exp[k] = ref_eval({"t": "cat", "xs": [dct[k] for dct in expr["parts"]], "dim": expr["dim"], "via": "tf"},
                              case["bases"], "x", case)
    except RefReject as rr:
        reject = rr
    d = obs.get("dict", {})
    if reject is not None:
        if reject.free:
            # other key sets: raise, or a dict whose entries for the keys every part has are the cats of those parts
            if d.get("ok") and d.get("is_dict"):
                for k in d["keys"]:
                    if all(k in dct for dct in expr["parts"]):
                        try:
                            e = ref_eval({"t": "cat", "xs": [dct[k] for dct in expr["parts"]], "dim": expr["dim"],
                                          "via": "tf"}, case["bases"], "x", case)
                        except RefReject:
                            continue
                        f = cmp_state(f"x[{k}]", f"cat{expr['dim']}", "dict", e, d["vals"][k])
                        if f:
                            return f
            return None
        if d.get("ok") and len(expr["parts"]) > 1:
            return dict(key="no-raise:dict:cat", what=f"torch_frame.cat of dicts returned where a rejection is due "
                        f"({reject.why})", observed=d)
        return None
    if not d.get("ok"):
        return dict(key="raises:dict:cat", what=f"torch_frame.cat of dicts raised {d.get('exc')}", expected=exp)
    if not d.get("is_dict") or sorted(d["keys"]) != sorted(keys):
        return dict(key="wrong-keys:dict:cat", what="result is not a dict over the keys of the first part", observed=d)
    for k in keys:
        f = cmp_state(f"x[{k}]", f"cat{expr['dim']}", "dict", exp[k], d["vals"][k])
        if f:
            return f
    return None


# ------------------------------------------------------------- shrinking
def _subnodes(node):
    t = node["t"]
    if t in ("sel", "fill", "clone"):
        return [("s", node["s"])]
    return []


def shrink_node(node, case=None):
    """smaller variants of a node"""
    t = node["t"]
    if t in ("sel", "fill", "clone", "ident"):
        yield node["s"]
        if t == "sel" and node.get("via", "getitem") != "getitem":
            yield {k: v for k, v in node.items() if k not in ("via", "start", "length")}
        if t == "fill":
            for j in {0, node["col"] - 1} - {node["col"], -1}:
                yield dict(node, col=j)
            sub = node["s"]
            if sub["t"] == "base":
                cells = sub["cells"]
                if cells and all(len(r) == len(cells[0]) for r in cells):
                    for k in range(len(cells[0])):        # drop another column, keep pointing at the same one
                        if k != node["col"] and len(cells[0]) > 1:
                            yield dict(node, s=dict(sub, cells=[r[:k] + r[k + 1:] for r in cells]),
                                       col=node["col"] - (1 if k < node["col"] else 0))
            elif case is not None:
                try:                                       # the operand as a literal container
                    st = ref_eval(sub, case["bases"], "x", case)
                    if st["nr"] >= 1 and st["nc"] >= 1:
                        yield dict(node, s={"t": "base", "cells": st["cells"]})
                except RefReject:
                    pass
        for v in shrink_node(node["s"], case):
            yield dict(node, s=v)
    elif t == "cat":
        xs = node["xs"]
        for x in xs:
            yield x
        for k in range(len(xs)):
            if len(xs) > 1:
                yield dict(node, xs=xs[:k] + xs[k + 1:])
        for k in range(len(xs)):
            for v in shrink_node(xs[k], case):
                yield dict(node, xs=xs[:k] + [v] + xs[k + 1:])
        if node["dim"] < 0:
            yield dict(node, dim=node["dim"] + 3)
        if node["via"] == "tf":
            yield dict(node, via="static")
    elif t == "base":
        cells = node["cells"]
        if len(cells) > 1:
            for k in range(len(cells)):
                yield dict(node, cells=cells[:k] + cells[k + 1:])
        if cells and len(cells[0]) > 1 and all(len(r) == len(cells[0]) for r in cells):
            for k in range(len(cells[0])):
                yield dict(node, cells=[r[:k] + r[k + 1:] for r in cells])


def shrink(case):
    if "prog" in case:
        prog = case["prog"]
        # drop the last statement, or a statement nobody refers to (renumbering the later variables)
        for k in range(len(prog) - 1, -1, -1):
            used = any((st_.get("v") == k) or (k in st_.get("vs", [])) for st_ in prog[k + 1:])
            if used:
                continue
            def ren(x):
                return x - 1 if x > k else x
            new = []
            for st_ in prog[:k] + prog[k + 1:]:
                st2 = dict(st_)
                if "v" in st2:
                    st2["v"] = ren(st2["v"])
                if "vs" in st2:
                    st2["vs"] = [ren(x) for x in st2["vs"]]
                new.append(st2)
            if new:
                yield dict(case, prog=new)
        return
    if case["expr"]["t"] == "dictcat":
        return
    if case["final"]["op"] != "cells":
        yield dict(case, final={"op": "cells"})
    if "whole" in case:
        c2 = {k: v for k, v in case.items() if k != "whole"}
        yield c2
    for v in shrink_node(case["expr"], case):
        c2 = {k: val for k, val in case.items() if k != "whole"}
        c2["expr"] = v
        yield c2
    # inline a shared base so that it can be shrunk
    for bi in range(len(case["bases"])):
        if _uses_ref(case["expr"], bi):
            c2 = {k: val for k, val in case.items() if k != "whole"}
            c2["expr"] = _inline_ref(case["expr"], bi, case["bases"][bi])
            yield c2


def _uses_ref(node, k):
    return any(n["t"] == "ref" and n["k"] == k for n in _walk(node))


def _inline_ref(node, k, cells):
    t = node["t"]
    if t == "ref":
        return {"t": "base", "cells": cells} if node["k"] == k else node
    if t in ("sel", "fill", "clone", "ident"):
        return dict(node, s=_inline_ref(node["s"], k, cells))
    if t == "cat":
        return dict(node, xs=[_inline_ref(x, k, cells) for x in node["xs"]])
    return node


# ------------------------------------------------------ evidence helpers
def tree_sig(node):
    t = node["t"]
    if t in ("base", "ref", "basecols", "rawfrom"):
        return t
    if t == "sel":
        return f"sel{node['dim']}:{node['idx']['t']}({tree_sig(node['s'])})"
    if t == "cat":
        return f"cat{node['dim']}{node['via'][0]}[" + ",".join(tree_sig(x) for x in node["xs"]) + "]"
    if t == "fill":
        return f"fill({tree_sig(node['s'])})"
    if t == "clone":
        return f"clone({tree_sig(node['s'])})"
    if t == "ident":
        return f"{node['how']}({tree_sig(node['s'])})"
    return t


def nontrivial_sig(case, obs):
    nodes = obs.get("nodes") or {}
    expr = case["expr"]
    if "prog" in case:
        po = obs.get("prog", {})
        sig = [(st_["op"], st_.get("dim"), (st_.get("idx") or {}).get("t"), len(st_.get("vs", []))) for st_ in case["prog"]]
        shapes = [(v.get("nr"), v.get("nc")) for v in po.get("vars", [])]
        return json.dumps(["store", case["kind"], case["dtype"], sig, shapes, po.get("ok")])
    if expr["t"] == "dictcat":
        d = obs.get("dict", {})
        return json.dumps(["dict", case["dtype"], expr["dim"], len(expr["parts"]), list(expr["parts"][0].keys()),
                           d.get("ok")])
    root = nodes.get("x")
    failed = "failed_at" in obs
    if not failed and (root is None or root.get("nr", 0) * root.get("nc", 0) == 0):
        return None
    shapes = sorted((p, o.get("ok"), o.get("nr"), o.get("nc")) for p, o in nodes.items())
    return json.dumps([case["kind"], case["dtype"], case["scenario"], tree_sig(expr), case["final"]["op"], failed, shapes])


def _walk(node):
    yield node
    if node["t"] in ("sel", "fill", "clone", "ident"):
        yield from _walk(node["s"])
    elif node["t"] == "cat":
        for x in node["xs"]:
            yield from _walk(x)
    elif node["t"] == "dictcat":
        for dct in node["parts"]:
            for n in dct.values():
                yield from _walk(n)


def stats(cases, obss):
    d = {"total": 0, "scenario": {}, "kind": {}, "cat_axis": {}, "cat_via": {}, "cat_parts": {}, "node_ops": {},
         "expected_rejections": 0, "raised": 0, "cat_with_empty_part": 0, "cat_with_selected_part": 0,
         "root_empty": 0, "fills": 0, "dense": 0, "forms": {}}
    for c, o in zip(cases, obss):
        if c is None or o is None:
            continue
        d["total"] += 1
        d["scenario"][c["scenario"]] = d["scenario"].get(c["scenario"], 0) + 1
        kd = c["kind"] + "/" + c["dtype"]
        d["kind"][kd] = d["kind"].get(kd, 0) + 1
        nodes = o.get("nodes", {})
        if "prog" in c:
            if c.get("boundary"):
                bd = d.setdefault("boundary", {})
                bd[c["boundary"]] = bd.get(c["boundary"], 0) + 1
            sp = d.setdefault("store_ops", {})
            for st_ in c["prog"]:
                sp[st_["op"]] = sp.get(st_["op"], 0) + 1
            ref = prog_ref(c)
            d["store_silent_vars"] = d.get("store_silent_vars", 0) + sum(1 for x in ref if x is None)
            d["store_judged_vars"] = d.get("store_judged_vars", 0) + sum(1 for x in ref if x is not None)
            if not o.get("prog", {}).get("ok"):
                d["raised"] += 1
            continue
        if "failed_at" in o or (o.get("dict") and not o["dict"].get("ok")):
            d["raised"] += 1
        if c["final"]["op"] == "dense":
            d["dense"] += 1
        if c.get("boundary"):
            bd = d.setdefault("boundary", {})
            bd[c["boundary"]] = bd.get(c["boundary"], 0) + 1
        fm = d.setdefault("forms", {})

        def bump(k):
            fm[k] = fm.get(k, 0) + 1
        bump(f"width{c.get('width', 64)}:{c['dtype']}")
        if c["final"]["op"] == "dense":
            bump("to_dense:" + c["final"].get("form", "kw"))
            bump("to_dense.value:" + c["final"].get("vform", "scalar"))
        if c["kind"] in ("mnt", "met") and _has_big(c):
            bump("payload:big-magnitude")
        for n in _walk(c["expr"]):
            if n["t"] == "cat":
                bump("cat.dim:" + n.get("form", "kw"))
                bump("cat.xs:" + n.get("seq", "list"))
            elif n["t"] == "sel":
                bump("sel:" + n.get("via", "getitem"))
            elif n["t"] == "fill":
                bump("fill.args:" + n.get("form", "pos"))
                bump("fill.value:" + n.get("vform", "scalar"))
            elif n["t"] == "ident":
                bump("ident:" + n["how"])
            elif n["t"] == "base" and c["kind"] == "mnt":
                bump("from_tensor_mat:" + n.get("seq", "list"))
            elif n["t"] == "ref" and c["kind"] == "mnt":
                bump("from_tensor_mat:" + c.get("base_seq", "list"))
        for n in _walk(c["expr"]):
            d["node_ops"][n["t"]] = d["node_ops"].get(n["t"], 0) + 1
            if n["t"] == "fill":
                d["fills"] += 1
            if n["t"] == "cat":
                ax = str(n["dim"])
                d["cat_axis"][ax] = d["cat_axis"].get(ax, 0) + 1
                d["cat_via"][n["via"]] = d["cat_via"].get(n["via"], 0) + 1
                k = str(len(n["xs"]))
                d["cat_parts"][k] = d["cat_parts"].get(k, 0) + 1
                if any(x["t"] == "sel" for x in n["xs"]):
                    d["cat_with_selected_part"] += 1
        for p, ob in nodes.items():
            if ob.get("ok") and ob.get("op", "").startswith("cat"):
                kids = [q for q in nodes if q.startswith(p + ".xs[") and q.count(".") == p.count(".") + 1]
                if any(nodes[q].get("ok") and nodes[q].get("nr", 1) * nodes[q].get("nc", 1) == 0 for q in kids):
                    d["cat_with_empty_part"] += 1
        r = nodes.get("x")
        if r and r.get("ok") and r.get("nr", 1) * r.get("nc", 1) == 0:
            d["root_empty"] += 1
        try:
            ref_eval(c["expr"], c["bases"], "x", c) if c["expr"]["t"] != "dictcat" else None
        except RefReject as rr:
            if not rr.free:
                d["expected_rejections"] += 1
    return d


def sanity(cases, obss):
    """Fail-closed distribution check: a degenerate run must not report green."""
    d = stats(cases, obss)
    probs = []
    n = d["total"]
    if n < 200:
        return probs          # replay / tiny runs
    # every requirement below is met by the DETERMINISTIC stream boundary_cases() alone (independent of the seed)
    if d["scenario"].get("boundary", 0) == 0:
        probs.append("the deterministic boundary stream is missing")
    for kd in ("mnt/int", "mnt/float", "met/int", "met/float", "dense/int", "dense/float"):
        if d["kind"].get(kd, 0) == 0:
            probs.append(f"container kind {kd} never drawn")
    for ax in ("0", "1", "-3", "-2"):
        if d["cat_axis"].get(ax, 0) == 0:
            probs.append(f"cat along dim {ax} never drawn")
    for via in ("static", "tf"):
        if d["cat_via"].get(via, 0) == 0:
            probs.append(f"cat via {via} never drawn")
    for k in ("0", "1", "2", "3", "4", "5"):
        if d["cat_parts"].get(k, 0) == 0:
            probs.append(f"cat of {k} parts never drawn")
    if d["raised"] > 0.4 * n:
        probs.append(f"{d['raised']} of {n} cases end in an exception")
    if d["expected_rejections"] == 0:
        probs.append("no expected rejection drawn")
    if d["cat_with_empty_part"] < 60:
        probs.append("too few cats with an empty part")
    if d["cat_with_selected_part"] < 100:
        probs.append("too few cats whose parts are results of selections")
    if d["fills"] == 0 or d["dense"] == 0 or d["node_ops"].get("clone", 0) == 0:
        probs.append("fillna_col / to_dense / clone never drawn")
    if d["node_ops"].get("basecols", 0) == 0:
        probs.append("from_tensor_list on explicit column tensors never drawn")
    drawn = d.get("boundary", {})
    for b in BOUNDARIES:
        if not any(k == b or k.startswith(b + ":") for k in drawn):
            probs.append(f"boundary {b} never drawn")
        elif b.startswith(("part:", "cat:one", "cat:two", "reject:empty", "reject:count", "reject:odd")):
            for ax in (":0", ":1"):
                if drawn.get(b + ax, 0) == 0:
                    probs.append(f"boundary {b} never drawn on axis {ax[1:]}")
    for op in ("base", "sel", "clone", "cat", "fill"):
        if d.get("store_ops", {}).get(op, 0) == 0:
            probs.append(f"store programs never contain {op}")
    for k in ("cat.dim:kw", "cat.dim:pos", "cat.dim:default", "cat.xs:list", "cat.xs:tuple",
              "sel:getitem", "sel:select", "sel:select_neg", "sel:narrow", "sel:index_select",
              "fill.args:pos", "fill.args:kw", "fill.value:scalar", "fill.value:tensor", "fill.value:pyfloat",
              "fill.value:pyint", "fill.value:tensor_i32", "fill.value:tensor_i64", "fill.value:tensor_f32",
              "fill.value:tensor_f64", "to_dense.value:pyfloat", "to_dense.value:scalar", "payload:big-magnitude",
              "to_dense:kw", "to_dense:pos", "ident:cpu", "ident:to", "ident:todict",
              "from_tensor_mat:list", "from_tensor_mat:tuple",
              "width64:int", "width32:int", "width64:float", "width32:float"):
        if d.get("forms", {}).get(k, 0) == 0:
            probs.append(f"call form {k} never drawn")
    return probs


# ------------------------------------------------------------- Coq side
def coq_src(node, case):
    t = node["t"]
    if t == "base":
        return f"(SBase {R.coq_cells(node['cells'])})"
    if t == "ref":
        return f"(SBase {R.coq_cells(case['bases'][node['k']])})"
    if t == "sel":
        return f"(SSel {coq_src(node['s'], case)} {node['dim']}%nat {R.coq_index(node['idx'])})"
    if t == "cat":
        return (f"(SCat {C.clist(node['xs'], lambda x: coq_src(x, case))} {C.cz(node['dim'])} "
                f"{C.cbool(node['via'] == 'tf')})")
    if t == "fill":
        return f"(SFill {coq_src(node['s'], case)} {node['col']}%nat {R.coq_scalar(node['value'])})"
    if t == "clone":
        return f"(SClone {coq_src(node['s'], case)})"
    if t == "ident":                 # cpu() / to(cpu) / cls(**to_dict()): the same container
        return coq_src(node["s"], case)
    raise ValueError(t)


def coq_cobs(ob):
    if ob is None or not ob.get("ok"):
        return "CErr"
    return f"(CCells {ob['nr']}%nat {ob['nc']}%nat {R.coq_cells(ob['cells'])})"


def coq_na(case):
    return "na_float" if case["dtype"] == "float" else f"(na_int {C.cz(-2)})"


def _has_free_reject(case):
    try:
        ref_eval(case["expr"], case["bases"], "x", case)
    except RefReject as rr:
        return rr.free
    return False


def coq_term(case, obs):
    if "nodes" not in obs:
        return None
    if any("cells_exc" in o for o in obs["nodes"].values()):
        return None
    expr = case["expr"]
    na = coq_na(case)
    if case.get("unjudged"):
        return None
    if "prog" in case:
        po = obs.get("prog", {})
        if not po.get("ok") and po.get("op") == "fill" and \
                fill_dtype_differs(case, case["prog"][po["step"]].get("vform")):
            return None
        if po.get("ok") and any(not v["ok"] for v in po["vars"]):
            return None
        seen = "None" if not po.get("ok") else "(Some " + C.clist(po["vars"], coq_cobs) + ")"
        fn = "case_store_mnt" if case["kind"] == "mnt" else "case_store_met"
        return f"{fn} {na} {C.clist(case['prog'], coq_stmt)} {seen}"
    if case["kind"] == "dense":
        root = obs["nodes"].get("x") if "failed_at" not in obs else None
        if root is None:
            seen = "None"
        else:
            rows = C.clist([[v for c in row for v in c] for row in root["cells"]], lambda r: C.clist(r, R.coq_scalar))
            seen = f"(Some ({root['nr']}%nat, {root['nc']}%nat, {rows}))"
        return f"case_dense_cat {coq_src(expr, case)} {seen}"
    if expr["t"] == "basecols":
        def col(c):
            w = len(c[0]) if c else 0
            return f"(MkT2 {C.clist(c, lambda cell: C.clist(cell, R.coq_scalar))} {w}%nat)"
        root = obs["nodes"].get("x") if "failed_at" not in obs else None
        if root is not None and _has_free_reject(case):
            return None      # malformed column tensors accepted: the statement does not demand a rejection
        return f"case_met_cols {C.clist(expr['cols'], col)} {coq_cobs(root)}"
    if expr["t"] == "dictcat":
        if "failed_at" in obs:
            return None
        if obs.get("dict", {}).get("ok") and len(expr["parts"]) > 1 and \
                any(set(dct) != set(expr["parts"][0]) for dct in expr["parts"]):
            return None      # other key sets accepted: not a demand of C06
        keys = {k: i for i, k in enumerate(sorted({k for dct in expr["parts"] for k in dct}))}
        parts = C.clist(expr["parts"], lambda dct: C.clist(list(dct.items()),
                                                          lambda kv: f"({keys[kv[0]]}%nat, {coq_src(kv[1], case)})"))
        d = obs["dict"]
        if d.get("ok") and not d.get("is_dict"):
            return None
        if d.get("ok"):
            if any("cells_exc" in v for v in d["vals"].values()):
                return None
            seen = "(Some " + C.clist(d["keys"], lambda k: f"({keys[k]}%nat, {coq_cobs(dict(d['vals'][k], ok=True))})") + ")"
        else:
            seen = "None"
        return f"case_dict {na} {parts} {C.cz(expr['dim'])} {seen}"
    if case.get("mixed_class") or any(n["t"] == "rawfrom" for n in _walk(expr)):
        return None          # not expressible in the model
    if case.get("raise_tolerated") and "failed_at" in obs:
        return None          # mixed container classes: the model has no such rejection
    if "failed_at" in obs and obs["nodes"].get(obs["failed_at"], {}).get("op") == "fill" and \
            fill_dtype_differs(case, _node_at(expr, obs["failed_at"]).get("vform")):
        return None          # a tensor fill of another dtype was refused: not modelled, not demanded
    if _has_free_reject(case) and "failed_at" not in obs:
        return None          # the property is silent on this input and the library returned normally: the model
                             # mirrors the current code's raise, so nothing is compared
    fn = "case_mnt" if case["kind"] == "mnt" else "case_met"
    root = obs["nodes"].get("x") if "failed_at" not in obs else None
    term = f"{fn} {na} {coq_src(expr, case)} {coq_cobs(root)}"
    if case["final"]["op"] == "dense" and case["kind"] == "mnt" and root is not None and root["nr"] * root["nc"] >= 1 \
            and "dense" in obs:
        dn = obs["dense"]
        if dn["ok"]:
            L = dn["shape"][2]
            data = dn["data"] if L > 0 else [[[] for _ in range(root["nc"])] for _ in range(root["nr"])]
            seen = "(Some " + C.clist(data, lambda row: C.clist(row, lambda c: C.clist(c, R.coq_scalar))) + ")"
        else:
            seen = "None"
        term = f"({term} && case_dense {na} {coq_src(expr, case)} {R.coq_scalar(case['final']['fill'])} {seen})"
    # the theorem statement itself on this case: cat of canonical parts = canonical container of the list cat
    if expr["t"] == "cat" and case["kind"] == "mnt" and root is not None and expr["xs"]:
        try:
            sts = [ref_eval(x, case["bases"], "p", case) for x in expr["xs"]]
            d = expr["dim"] % 3 if expr["dim"] < 0 else expr["dim"]
            cs = C.clist([s["nc"] for s in sts], C.cnat)
            ms = C.clist([s["cells"] for s in sts], R.coq_cells)
            term = f"({term} && canon_mnt_cat {cs} {ms} {d}%nat)"
        except RefReject:
            pass
    return term
