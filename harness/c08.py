"""C08 — TensorFrame concatenation, equality and column lookup laws."""
from __future__ import annotations

# Every raise / assert / early return / special-case branch / dtype-sensitive decision of the anchored code
# (torch_frame/data/tensor_frame.py, torch_frame/utils/concat.py), the generator stream that reaches it, and the oracle
# key that notices when it is removed, loosened or replaced by a default.  "(model)" = also compared with the Coq model.
ERROR_PATHS = [
    # --- TensorFrame.validate
    ("validate: feat_dict.keys() != col_names_dict.keys() -> ValueError", "malformed/ctor:key-only-in-*", "accepts:ctor:key-* (model)"),
    ("validate: col_names not a list -> ValueError", "not generated: a non-list name container is outside the property "
     "(dict[stype, list[str]])", "-"),
    ("validate: tensor.dim() < 2 -> ValueError", "malformed/val:ndim", "accepts:val:ndim (oracle only: the model has no 1-D feature)"),
    ("validate: num_cols != tensor.size(1) -> ValueError, for EVERY tensor of a dict", "malformed/ctor:names+1|names-1:*, "
     "ctor:dict-2nd-cols*", "accepts:ctor:* (model)"),
    ("validate: tensor.size(0) != num_rows -> ValueError, explicit num_rows or first feature", "malformed/ctor:num_rows*|"
     "rows-differ:*|dict-2nd-rows*", "accepts:ctor:* (model)"),
    ("validate: empty stype -> RuntimeError", "malformed/ctor:empty-stype, val:empty-stype", "accepts:*empty-stype (model)"),
    ("validate: len(y) != num_rows -> ValueError", "malformed/ctor:y+1|y-1:*", "accepts:ctor:y* (model)"),
    ("num_rows: explicit / is_empty -> 0 / first feature / first entry of a dict", "feature-less frames, dict-first frames, "
     "boundary/*", "props-wrong, frame-wrong:*, roundtrip:*:featureless"),
    # --- get_col_feat
    ("get_col_feat: unknown name -> ValueError", "lookup/* + 'no_such_column', reuse/lookup-history (names of other frames)",
     "lookup-accepts-missing (model)"),
    ("get_col_feat: dict / _MultiTensor / Tensor branches (asserts are type checks)", "lookup/* on every storage kind",
     "lookup-wrong:dict|mnt|met|dense (model)"),
    # --- __eq__
    ("__eq__: not a TensorFrame -> False", "every case (eq_other: 5, None, str, dict, list)", "eq-nonframe"),
    ("__eq__: len differs -> False", "perturb/drop-row|len, boundary/rows-0-vs-1", "eq-wrong:* (model)"),
    ("__eq__: y None vs not None (both directions) -> False", "perturb/y-none|y-added, boundary/zero-rows:y-*", "eq-wrong:y-* (model)"),
    ("__eq__: allclose(other.y, self.y) WITHOUT equal_nan", "perturb/y-value, perturb/nan-target (model only)", "eq-wrong:y-value (model)"),
    ("__eq__: col_names_dict differs -> False", "perturb/name|name-swap|name-case, boundary/zero-rows:name*", "eq-wrong:name* (model)"),
    ("__eq__: storage kind of a stype differs (isinstance checks) -> False", "perturb/storage-kind", "eq-wrong:storage-kind (model)"),
    ("__eq__: dense shape differs -> False", "perturb/inner, drop-row", "eq-wrong:inner (model)"),
    ("__eq__: allclose(..., equal_nan=True) per storage kind; dict keys differ -> False", "perturb/cell|nan|boundary|"
     "met-boundary|dict-key|tol-*", "eq-wrong:* (model)"),
    # --- __getitem__ / _apply / device transfer
    ("__getitem__: int -> [int]; dict branch; explicit _num_rows recomputed", "ESel parts of every index kind, C07", "cat-wrong / frame-wrong, C07 keys"),
    ("to / cpu / __copy__", "op via (copy, to, cpu, to_kw) on parts and operands", "all keys (identity in the reference)"),
    # --- torch_frame.cat
    ("cat: dispatch on isinstance(lst[0], TensorFrame); empty list -> IndexError / RuntimeError", "malformed/cat:empty:0|1, "
     "malformed/empty-list", "accepts:cat:empty* (model)"),
    ("_cat_tensor_frame: dim not in (0, 1) -> ValueError", "malformed/cat:dim*, malformed/dim", "model only (not demanded by the property)"),
    ("_cat_tensor_data: single element returned as is", "partitions into 1 part, stypes present in one part only", "cat-wrong:*, roundtrip:*"),
    ("_cat_tensor_data: class mismatch -> RuntimeError", "malformed/row:kind", "model only (not demanded)"),
    ("_cat_tensor_data: dict key sets differ -> RuntimeError", "indep/dict-keys(:cols)", "accepts:dict-keys* (model)"),
    ("MultiEmbeddingTensor.cat dim 0: offsets differ -> RuntimeError", "indep/met-widths", "accepts:met-widths (model: RaggedCat)"),
    ("_cat_row: col_names_dict of a later part differs -> RuntimeError", "malformed/cat:row:names@0|1|2:*, row:names|ncols|stypes", "accepts:* (model)"),
    ("_cat_row: first y None and a later one not / first y present and a later one None -> RuntimeError",
     "malformed/cat:row:y[...]:* incl. all-NaN / partly-NaN / 0-row targets", "accepts:cat:row:y* (model)"),
    ("_cat_row: y = torch.cat(ys) (targets included, NaN kept)", "rowpart/*, boundary/nan-target-rows", "cat-wrong:dim0 (y and ydt compared directly)"),
    ("_cat_row / _cat_col: feature-less result carries num_rows", "feature-less rowpart / colpart", "roundtrip:*:featureless (model)"),
    ("_cat_col: more than one part with y is not None -> RuntimeError -- an all-NaN or 0-element y IS a target",
     "malformed/cat:col:two-y|three-y:*, cat:col:y-conflict:*", "accepts:cat:col:* (model)"),
    ("_cat_col: y of the single part that has one, whatever it holds", "colpart/*, boundary/nan-target-cols:*, boundary/zero-row-colpart:*",
     "cat-wrong:dim1 (y, ydt compared directly)"),
    ("_cat_col: duplicates within a stype / across stypes -> RuntimeError", "malformed/cat:col:dup-*", "accepts:cat:col:dup-* (model)"),
    ("_cat_col: parts of different row counts -> RuntimeError", "malformed/cat:col:rows*, col:rows", "accepts:*rows* (model)"),
]

# Clause-by-clause coverage of the property statement (properties.jsonl C08): oracle keys that judge the clause and the
# generator streams / drawn forms that exercise it.  stats() counts every form; sanity() fails closed when one is 0.
CLAUSES = [
    ("cat along rows yields the rows of the parts in order (targets included)", "keys cat-wrong:dim0*, roundtrip:rows*",
     "rowpart/*, indep/same, reuse/row-*; cat(lst, dim) as list / tuple / keywords / torch_frame.utils.cat"),
    ("cat along columns yields the union of the columns with names and data still paired",
     "keys cat-wrong:dim1*, roundtrip:cols*, lookup-wrong:*", "colpart/*, lookup/col-cat, reuse/col-*"),
    ("any row partition / per-stype column partition concatenates back to a frame EQUAL to the original",
     "keys roundtrip:rows*, roundtrip:cols*, roundtrip:*:raises", "rowpart/cuts|perm, colpart/chunks, exhaustive (thorough)"),
    ("mismatched column sets are rejected", "key accepts:row:names|row:ncols|row:stypes, accepts:met-widths, accepts:dict-keys*",
     "malformed/row:*, indep/met-widths, indep/dict-keys"),
    ("duplicated column names are rejected", "key accepts:col:dup-within|col:dup-across", "malformed/col:dup-*"),
    ("conflicting targets are rejected", "key accepts:col:two-y|row:mixed-y", "malformed/col:two-y, malformed/row:mixed-y"),
    ("empty lists are rejected", "key accepts:empty-list", "malformed/empty-list (dim 0 and 1)"),
    ("equal exactly when same columns, same target, same values, missing matching missing feature entries",
     "keys eq-wrong:*, eq-asymmetric via eq_ab/eq_ba, ne-inconsistent, eq-nonframe", "perturb/same:*, perturb/* ; == in both "
     "operand orders, !=, __neq__, comparison with non-frames"),
    ("a difference beyond tolerance in any single cell / column name / target value makes them unequal",
     "keys eq-wrong:cell|nan|boundary|met-boundary|tol-above|name|name-swap|y-value|y-none|y-added|dict-key|drop-*|len",
     "perturb/* ; extra: torch.allclose on both sides of the tolerance"),
    ("looking a column up by name returns that column's data for every stype", "keys lookup-wrong:*, lookup-raises:*, "
     "lookup-accepts-missing", "lookup/*, reuse/lookup-history; get_col_feat(name) and get_col_feat(name, return_stype=True)"),
    ("construction rejects frames whose parts disagree on the number of rows or columns",
     "key accepts:val:*", "malformed/val:rows|ncols|y|keys|empty-stype|dict-comp|ndim; constructor call forms pos/kw/allpos"),
    ("quantifier: all TensorFrames of C07 -- however constructed / handed over; parts produced by selections",
     "same keys; cat-mutated-input, eq-modifies", "frames passed through copy.copy / .to / .cpu (op via) as parts and operands; "
     "ESel parts; props-wrong (num_cols, stypes, is_empty, num_rows)"),
]

import copy
import json
import math

from harness import common as C
from harness import frames as F
from harness import ragged as R

PROP = "C08"
HEADER = ("Require Import PF.Lib.PySlice PF.Model.Ragged PF.Model.RaggedSpec PF.Model.RaggedRun PF.Model.Frame "
          "PF.Model.FrameSpec PF.Model.FrameRun PF.Gen.Tables.")
MODEL_TARGETS = ["Model/FrameRun.vo"]
SHARD = 150
RULE = ("frame expressions over the TensorFrames of C07 (random subsets of the nine stypes, four storage kinds, "
        "with/without y, explicit num_rows, feature-less frames): (rowpart) cat along rows of 1-4 selections of a frame "
        "vs the frame / the selection of the concatenated positions; (colpart) cat along columns of a per-stype column "
        "partition into 1-4 sub-frames vs the frame; (perturb) a frame vs a copy with one cell / name / target value / "
        "shape / dict order changed, compared with == in both directions; (reuse) multi-step programs in which parts and "
        "results are objects built once and used again (the same partition concatenated twice, a column part row-split "
        "and reassembled, the first result compared again after a second cat; get_col_feat on older frames and on "
        "column parts interleaved with the construction of newer frames over the same names, absent names included); every input of every cat is snapshot "
        "before the call and must be unchanged after it; (lookup) get_col_feat of every column name "
        "and of an absent one; (malformed) mismatched schemas, duplicated names within and across stypes, two targets, "
        "mixed targets, empty list, differing row counts, validate() violations. distinct = distinct (kind, sub-kind, "
        "storage kinds, number of parts, part shapes, outcome); non-trivial = the expression involves at least one "
        "column, target or explicit row count and the outcome is a non-empty frame, a comparison or a rejection")
TRUSTED = [
    "Coq 8.16.1 kernel + vm_compute (no native_compute)",
    "hand-written model coq/Model/Frame.v of tensor_frame.py and utils/concat.py (+ Model/Ragged.v, Model/RaggedCat.v "
    "for the ragged containers), tied to /repo by this run's observational correspondence",
    "modelled primitives: torch.cat of dense tensors (shape agreement), dict equality; torch.allclose on one pair of "
    "scalars is no longer a parameter: Model/Allclose.v models |a-b| <= atol + rtol*|b| over Q (rtol 1e-5, atol 1e-8), "
    "proved equal to equality on the 1/8 grid (grid_tolerance_is_equality), used by the frame correspondence "
    "(tf_eq close_grid) and compared with torch.allclose on ~450 scalar pairs around the tolerance each run; floating-"
    "point rounding of the bound itself (pairs within 1e-9*tol, 1e-3*tol in float32) is not modelled",
    "section hypotheses H_*_cat_* of Props/C08.v (cells of the ragged cat = concatenation of cells) are discharged for "
    "the model of Model/RaggedCat.v by the C06 theorems (row/col_partition_roundtrip_model); their instances are also "
    "evaluated on every partition case of this run (c08_hyp_*)",
    "store model coq/Model/FrameStore.v of _cat_col's defaultdict(list)/extend (inputs unchanged, fresh result lists): "
    "its executable form c08_store_check is compared with the parts' name lists read after every column cat",
    "harness/c08.py + harness/frames.py (generator, nested-list reference evaluator, Coq printer)",
]
ASSUMPTIONS = [
    "rejections are demanded only where the statement names them (mismatched column sets incl. embedding widths / dict "
    "key sets under the same names, duplicated column names, conflicting targets, empty lists, construction with parts "
    "that disagree on rows or columns); where the current code raises without such backing (a stype without columns, a "
    "1-D feature tensor, an unsupported dim, a storage-kind or trailing-shape mismatch in a row cat, == with a non-frame) "
    "the oracle accepts a raise or a readable result and the Coq term is not compared when the implementation returned "
    "normally; get_col_feat of an absent name must not return a column's data ('names and data still paired')",
    "difference detection is proved relative to an abstract per-scalar `close` (torch.allclose on one pair); the "
    "correspondence instantiates it with equality on the 1/8 grid; torch's own decision is validated on both sides of "
    "atol + rtol*|other| every run (extra: exact-rational reference, both operand orders, float32/float64, NaN) and "
    "by perturbations at half / four times the tolerance judged by the oracle; integer tensors whose values reach "
    "1e5 (rtol*|x| >= 1) are outside the property's 'beyond tolerance' clause and are not generated",
    "operands of == have equal dtypes per stype and targets carry no missing values (the property's quantifier); "
    "cases with a NaN target are run and compared with the model but not judged by the oracle",
    "perturbations are at least 1/8 on values below 1000, far beyond atol + rtol*|x| of torch.allclose",
    "storage aliasing between parts and result is outside the pure model",
]


class Undefined(R.RefErr):
    """the property does not say what must happen"""


# ------------------------------------------------------------------ helpers
def B(fr):
    return {"op": "build", "frame": fr}


def sub_cols(f, a, b):
    g = dict(f, names=f["names"][a:b])
    if f["kind"] == "dict":
        g["comps"] = {k: [row[a:b] for row in m] for k, m in f["comps"].items()}
    else:
        g["cells"] = [row[a:b] for row in f["cells"]]
    return g


def n_of(fr):
    return fr["n"]


def slice_ix(a, b):
    return {"t": "slice", "a": a, "b": b, "s": None}


def positions_as_index(rng, pos, n):
    """an index expression selecting exactly pos (in that order) from n rows"""
    contiguous = pos == list(range(pos[0], pos[0] + len(pos))) if pos else True
    opts = ["list", "tensor"]
    if contiguous:
        opts += ["slice", "slice", "range"]
    if pos == sorted(set(pos)):
        opts.append("mask")
    k = rng.pick(opts)
    if k == "slice":
        a = pos[0] if pos else rng.randint(0, n)
        b = a + len(pos)
        if b == n and rng.chance(0.3):
            b = n + rng.randint(1, 3)            # overshooting last batch
        return slice_ix(a if (a or rng.chance(0.5)) else None, b)
    if k == "range":
        a = pos[0] if pos else 0
        return {"t": "range", "a": a, "b": a + len(pos), "s": 1}
    if k == "mask":
        return {"t": "mask", "m": [i in pos for i in range(n)]}
    neg = [p - n if rng.chance(0.2) else p for p in pos]
    return {"t": k, "l": neg}


# --------------------------------------------------------------- generators
def gen_rowpart(rng):
    fr = F.gen_frame(rng, featureless_p=0.1)
    n = fr["n"]
    k = rng.randint(1, 4)
    mode = rng.wpick([(5, "cuts"), (2, "perm"), (2, "any")])
    if mode == "cuts":
        cuts = sorted(rng.randint(0, n) for _ in range(k - 1))
        cuts = [0] + cuts + [n]
        poss = [list(range(cuts[i], cuts[i + 1])) for i in range(k)]
    elif mode == "perm":
        perm = list(range(n))
        rng.shuffle(perm)
        cuts = [0] + sorted(rng.randint(0, n) for _ in range(k - 1)) + [n]
        poss = [perm[cuts[i]:cuts[i + 1]] for i in range(k)]
    else:
        poss = [[rng.randint(0, n - 1) for _ in range(rng.randint(0, 3))] for _ in range(k)]
    parts = [{"op": "sel", "of": B(fr), "idx": positions_as_index(rng, p, n)} for p in poss]
    allpos = [i for p in poss for i in p]
    if allpos == list(range(n)):
        b = B(fr)
    else:
        b = {"op": "sel", "of": B(fr), "idx": {"t": "list", "l": allpos}}
    return {"kind": "rowpart", "sub": mode, "a": {"op": "cat", "parts": parts, "dim": 0}, "b": b, "lookups": [],
            "meta": {"poss": poss}}


def gen_colpart(rng):
    fr = F.gen_frame(rng, featureless_p=0.08)
    n = fr["n"]
    k = rng.randint(1, 4)
    parts = [{"n": n, "feats": [], "y": None, "ydtype": fr["ydtype"], "num_rows": None} for _ in range(k)]
    chunks = []
    for f in fr["feats"]:
        c = len(f["names"])
        cuts = [0] + sorted(rng.randint(0, c) for _ in range(k - 1)) + [c]
        chunks.append(cuts)
        for j in range(k):
            if cuts[j + 1] > cuts[j]:
                parts[j]["feats"].append(sub_cols(f, cuts[j], cuts[j + 1]))
    if fr["y"] is not None:
        parts[rng.randint(0, k - 1)]["y"] = list(fr["y"])
    for p in parts:
        if not p["feats"] or rng.chance(0.2):
            p["num_rows"] = n
    return {"kind": "colpart", "sub": "chunks", "a": {"op": "cat", "parts": [B(p) for p in parts], "dim": 1},
            "b": B(fr), "lookups": [], "meta": {"chunks": chunks}}


def _float_feats(fr):
    return [i for i, f in enumerate(fr["feats"]) if f["dtype"] == "float"]


def _cells_of(f, rng):
    """(key, cellmat) of one component, picked at random"""
    if f["kind"] == "dict":
        k = rng.pick(f["keys"])
        return k, f["comps"][k]
    return "", f["cells"]


def perturb(rng, fr, only=None):
    """returns (sub-kind, perturbed copy) -- every sub-kind except the 'same:*' ones must make the frames unequal.
    only: restrict the choice to these sub-kinds"""
    g = copy.deepcopy(fr)
    opts = [(2, "same:copy")]
    if g["feats"]:
        opts += [(8, "cell"), (3, "name"), (2, "same:feat-order"), (2, "drop-row"), (2, "name-swap")]
        if any(f["kind"] == "dict" for f in g["feats"]):
            opts += [(3, "same:dict-order"), (4, "dict-key")]
        if any(f["kind"] == "mnt" or f["kind"] == "dict" for f in g["feats"]):
            opts += [(4, "boundary")]
        if any(f["kind"] == "met" and len(f["names"]) > 1 for f in g["feats"]):
            opts += [(8, "met-boundary")]
        if _float_feats(g):
            opts += [(3, "nan"), (4, "tol-below"), (4, "tol-above")]
        if len(g["feats"]) > 1:
            opts += [(3, "drop-feat")]
        opts += [(1, "same:num-rows")]
    if g["y"] is not None:
        opts += [(4, "y-value"), (2, "y-none")]
    elif g["n"] > 0:
        opts += [(2, "y-added")]
    if not g["feats"]:
        opts += [(2, "len")]
    if g["feats"]:
        opts += [(3, "name-case")]
    if any(f["kind"] == "dense" and f["inner"] == 0 and f["cells"] for f in g["feats"]):
        opts += [(3, "storage-kind")]
    if any(f["kind"] == "dense" and f["inner"] > 0 for f in g["feats"]):
        opts += [(3, "inner")]
    if only is not None:
        opts = [(w, k) for w, k in opts if k in only] or [(1, "same:copy")]
    sub = rng.wpick(opts)
    n = g["n"]
    if sub == "cell":
        for _ in range(20):
            f = rng.pick(g["feats"])
            _, m = _cells_of(f, rng)
            spots = [(i, j, k) for i, row in enumerate(m) for j, cell in enumerate(row) for k in range(len(cell))]
            if spots:
                i, j, k = rng.pick(spots)
                v = m[i][j][k]
                if f["dtype"] == "float":
                    m[i][j][k] = (1.0 if v is None else v + rng.pick([1, 2, 8, -1, -8]) / 8.0)
                else:
                    m[i][j][k] = v + rng.pick([1, -1, 5]) if v != -1 else 7
                return sub, g
        return "same:copy", g
    if sub in ("tol-below", "tol-above"):
        # a difference just inside / just outside atol + rtol*|x| (dyadic, exactly representable in float32)
        f = g["feats"][rng.pick(_float_feats(g))]
        _, m = _cells_of(f, rng)
        spots = [(i, j, k) for i, row in enumerate(m) for j, cell in enumerate(row) for k in range(len(cell))
                 if cell[k] is not None]
        if not spots:
            return "same:copy", g
        i, j, k = rng.pick(spots)
        v = m[i][j][k]
        tol = F.ATOL + F.RTOL * abs(v)
        e = math.floor(math.log2(tol))
        d = 2.0 ** (e - 1) if sub == "tol-below" else 2.0 ** (e + 2)
        m[i][j][k] = v + (d if rng.chance(0.5) else -d)
        return sub, g
    if sub == "met-boundary":
        # same flattened values of an embedding feature, different column widths (offsets)
        f = rng.pick([x for x in g["feats"] if x["kind"] == "met" and len(x["names"]) > 1])
        widths = [len(c) for c in f["cells"][0]] if f["cells"] else []
        js = [j for j in range(len(widths) - 1) if widths[j] > 0]
        if not js:
            return "same:copy", g
        j = rng.pick(js)
        for row in f["cells"]:
            row[j + 1].insert(0, row[j].pop())
        return sub, g
    if sub == "nan":
        f = g["feats"][rng.pick(_float_feats(g))]
        _, m = _cells_of(f, rng)
        spots = [(i, j, k) for i, row in enumerate(m) for j, cell in enumerate(row) for k in range(len(cell))]
        if not spots:
            return "same:copy", g
        i, j, k = rng.pick(spots)
        m[i][j][k] = None if m[i][j][k] is not None else 3.5
        return sub, g
    if sub == "boundary":
        cands = [f for f in g["feats"] if f["kind"] in ("mnt", "dict")]
        f = rng.pick(cands)
        mats = [f["comps"][k] for k in f["keys"]] if f["kind"] == "dict" else [f["cells"]]
        m = rng.pick(mats)
        flat = [(i, j) for i in range(len(m)) for j in range(len(m[0]))]
        for t in range(len(flat) - 1):
            (i, j), (i2, j2) = flat[t], flat[t + 1]
            if m[i][j]:
                m[i2][j2].insert(0, m[i][j].pop())      # same flattened values, different cell boundary
                return sub, g
        return "same:copy", g
    if sub == "name":
        f = rng.pick(g["feats"])
        j = rng.randint(0, len(f["names"]) - 1)
        f["names"][j] = f["names"][j] + "_x"
        return sub, g
    if sub == "storage-kind":
        # the same stype, names and scalars, held by a MultiNestedTensor instead of a plain tensor
        f = rng.pick([x for x in g["feats"] if x["kind"] == "dense" and x["inner"] == 0 and x["cells"]])
        f["kind"] = "mnt"
        return sub, g
    if sub == "inner":
        # a dense feature with one more trailing entry per cell (shape differs)
        f = rng.pick([x for x in g["feats"] if x["kind"] == "dense" and x["inner"] > 0])
        f["inner"] += 1
        f["cells"] = [[cell + [cell[-1]] for cell in row] for row in f["cells"]]
        return sub, g
    if sub == "name-case":
        f = rng.pick(g["feats"])
        j = rng.randint(0, len(f["names"]) - 1)
        f["names"][j] = f["names"][j].upper() if f["names"][j].upper() != f["names"][j] else f["names"][j].lower() + "x"
        return sub, g
    if sub == "name-swap":
        f = rng.pick(g["feats"])
        if len(f["names"]) < 2:
            f["names"][0] = "zz"
            return "name", g
        f["names"][0], f["names"][1] = f["names"][1], f["names"][0]
        return sub, g
    if sub == "same:feat-order":
        rng.shuffle(g["feats"])
        return sub, g
    if sub == "same:dict-order":
        for f in g["feats"]:
            if f["kind"] == "dict":
                f["keys"] = list(reversed(f["keys"]))
        return sub, g
    if sub == "dict-key":
        f = [f for f in g["feats"] if f["kind"] == "dict"][0]
        k0 = f["keys"][0]
        f["keys"][0] = k0 + "_x"
        f["comps"][k0 + "_x"] = f["comps"].pop(k0)
        return sub, g
    if sub == "drop-row":
        if n < 2:
            return "same:copy", g
        for f in g["feats"]:
            if f["kind"] == "dict":
                f["comps"] = {k: m[:-1] for k, m in f["comps"].items()}
            else:
                f["cells"] = f["cells"][:-1]
        g["n"] = n - 1
        if g["y"] is not None:
            g["y"] = g["y"][:-1]
        if g["num_rows"] is not None:
            g["num_rows"] = n - 1
        return sub, g
    if sub == "drop-feat":
        g["feats"].pop(rng.randint(0, len(g["feats"]) - 1))
        return sub, g
    if sub == "same:num-rows":
        g["num_rows"] = None if g["num_rows"] is not None else n
        return sub, g
    if sub == "y-value":
        if n == 0:
            return "same:copy", g
        i = rng.randint(0, n - 1)
        g["y"][i] = g["y"][i] + (rng.pick([1, -1, 4]) / 8.0 if g["ydtype"] == "float" else rng.pick([1, -1, 3]))
        return sub, g
    if sub == "y-none":
        g["y"] = None
        return sub, g
    if sub == "y-added":
        g["ydtype"] = "float"
        g["y"] = [float(i) for i in range(n)]
        return sub, g
    if sub == "len":
        g["n"] = n + 1
        g["num_rows"] = n + 1
        if g["y"] is not None:
            g["y"] = g["y"] + [g["y"][-1] if g["y"] else 1.0]
        return sub, g
    return "same:copy", g


def gen_perturb(rng):
    fr = F.gen_frame(rng, featureless_p=0.06)
    if rng.chance(0.04) and fr["y"] is not None and fr["ydtype"] == "float" and fr["n"] > 0:
        fr["y"][rng.randint(0, fr["n"] - 1)] = None          # outside the property's quantifier: model-only
        return {"kind": "perturb", "sub": "nan-target", "a": B(fr), "b": B(copy.deepcopy(fr)), "lookups": [], "meta": {}}
    sub, g = perturb(rng, fr)
    return {"kind": "perturb", "sub": sub, "a": B(fr), "b": B(g), "lookups": [], "meta": {}}


ZERO_ROW_PERTS = ["name", "name-swap", "name-case", "dict-key", "drop-feat", "y-none", "y-added", "same:copy",
                  "same:feat-order", "same:dict-order", "same:num-rows", "cell", "nan"]


def gen_boundary(rng):
    """the boundaries of the quantified dimensions, hit deliberately: equality of 0-row and 1-row frames under every
    perturbation that exists there (a 0-row frame has no cell: names, case, swaps, stype set, dict keys, target presence,
    0 rows vs 1 row); partitions into n parts of one row; the same object repeated in a cat list; row-less / column-less
    parts that carry the target"""
    sub = rng.wpick([(9, "zero-rows"), (4, "one-row"), (2, "rows-0-vs-1"), (2, "n-parts-of-1"), (2, "repeat-object"),
                     (2, "target-on-empty-part")])
    if sub in ("zero-rows", "one-row", "rows-0-vs-1"):
        fr = F.gen_frame(rng, n=1, featureless_p=0.1, min_feats=1, max_feats=4)
        if rng.chance(0.5) and fr["y"] is None:
            fr["ydtype"], fr["y"] = "float", [1.0]
        z = slice_ix(0, 0)
        if sub == "rows-0-vs-1":
            return {"kind": "boundary", "sub": sub, "a": {"op": "sel", "of": B(fr), "idx": z}, "b": B(copy.deepcopy(fr)),
                    "lookups": [], "meta": {}}
        want = rng.wpick([(5, ["name"]), (2, ["name-swap", "name"]), (3, ["name-case"]), (2, ["dict-key", "name"]),
                          (2, ["drop-feat", "name"]), (5, ["y-none", "y-added"]), (2, ["same:copy", "same:feat-order",
                          "same:dict-order", "same:num-rows"]), (1, ["cell", "nan"])])
        psub, g = perturb(rng, fr, only=want if sub == "zero-rows" or rng.chance(0.6) else None)
        a, b = B(fr), B(g)
        if sub == "zero-rows":
            a, b = {"op": "sel", "of": a, "idx": z}, {"op": "sel", "of": b, "idx": rng.pick([z, {"t": "list", "l": []}])}
        return {"kind": "boundary", "sub": f"{sub}:{psub}", "a": a, "b": b, "lookups": [], "meta": {}}
    if sub == "n-parts-of-1":
        fr = F.gen_frame(rng, n=rng.randint(1, 4), featureless_p=0.1)
        n = fr["n"]
        parts = [{"op": "sel", "of": B(fr), "idx": rng.pick([{"t": "int", "i": i}, slice_ix(i, i + 1), {"t": "list", "l": [i - n]}])}
                 for i in range(n)]
        return {"kind": "boundary", "sub": sub, "a": {"op": "cat", "parts": parts, "dim": 0}, "b": B(fr), "lookups": [],
                "meta": {}}
    if sub == "repeat-object":
        fr = F.gen_frame(rng, featureless_p=0.1)
        k = rng.randint(2, 3)
        dim = rng.pick([0, 0, 1])
        if dim == 1:
            fr["y"] = None
        a = {"op": "cat", "parts": [REF(0)] * k, "dim": dim}
        b = {"op": "cat", "parts": [B(fr)] * k, "dim": dim}
        return {"kind": "reuse", "sub": f"repeat-object:dim{dim}", "env": [B(fr)],
                "checks": [{"as": "rowpart", "a": a, "b": b}, {"as": "perturb", "a": REF(0), "b": B(fr)}],
                "a": F.subst(a, [B(fr)]), "b": b, "lookups": [], "meta": {}}
    # the target travels on a part without rows / without columns
    fr = F.gen_frame(rng, n=rng.randint(1, 3), featureless_p=0.0)
    fr["ydtype"], fr["y"] = "float", [float(i) for i in range(fr["n"])]
    if rng.chance(0.5):
        n = fr["n"]
        parts = [{"op": "sel", "of": B(fr), "idx": slice_ix(0, 0)}, B(fr), {"op": "sel", "of": B(fr), "idx": slice_ix(n, n + 2)}]
        return {"kind": "boundary", "sub": sub + ":rows", "a": {"op": "cat", "parts": parts, "dim": 0}, "b": B(fr),
                "lookups": [], "meta": {}}
    empty = {"n": fr["n"], "feats": [], "y": list(fr["y"]), "ydtype": "float", "num_rows": fr["n"]}
    rest = dict(copy.deepcopy(fr), y=None)
    parts = [B(empty), B(rest)]
    if rng.chance(0.5):
        parts.reverse()
    return {"kind": "boundary", "sub": sub + ":cols", "a": {"op": "cat", "parts": parts, "dim": 1}, "b": B(fr),
            "lookups": all_names(fr)[:1], "meta": {}}


def all_names(fr):
    return [nm for f in fr["feats"] for nm in f["names"]]


def gen_lookup(rng):
    fr = F.gen_frame(rng, featureless_p=0.03)
    e = B(fr)
    sub = rng.wpick([(4, "plain"), (3, "selected"), (3, "row-cat"), (2, "col-cat")])
    names = all_names(fr)
    if sub == "selected":
        e = {"op": "sel", "of": e, "idx": R.gen_index(rng, fr["n"], allow_bad=False)}
    elif sub == "row-cat":
        e = {"op": "cat", "parts": [e, {"op": "sel", "of": e, "idx": R.gen_index(rng, fr["n"], allow_bad=False)}],
             "dim": 0}
    elif sub == "col-cat":
        other = F.gen_frame(rng, n=fr["n"], featureless_p=0.0, name_prefix="d")
        other["y"] = None
        e = {"op": "cat", "parts": [e, B(other)], "dim": 1}
        names = names + all_names(other)
    rng.shuffle(names)
    return {"kind": "lookup", "sub": sub, "a": e, "b": None, "lookups": names + ["no_such_column"], "meta": {}}


def gen_malformed(rng):
    fr = F.gen_frame(rng, featureless_p=0.0)
    n = fr["n"]
    sub = rng.wpick([(3, "row:names"), (2, "row:ncols"), (2, "row:stypes"), (3, "row:mixed-y"), (2, "empty-list"),
                     (3, "col:dup-within"), (4, "col:dup-across"), (3, "col:two-y"), (3, "col:rows"),
                     (2, "val:ncols"), (2, "val:rows"), (2, "val:y"), (2, "val:keys"), (1, "val:empty-stype"),
                     (2, "val:dict-comp"),
                     (4, "val:ndim"), (1, "dim"), (1, "row:kind")])
    g = copy.deepcopy(fr)
    a = None
    if sub == "row:names":
        f = rng.pick(g["feats"])
        f["names"][rng.randint(0, len(f["names"]) - 1)] += "_x"
        a = {"op": "cat", "parts": rng.pick([[B(fr), B(g)], [B(fr), B(fr), B(g)], [B(g), B(fr)]]), "dim": 0}
    elif sub == "row:ncols":
        f = rng.pick(g["feats"])
        c = len(f["names"])
        if c > 1:
            g["feats"][g["feats"].index(f)] = sub_cols(f, 0, c - 1)
        else:
            f["names"] = [f["names"][0], f["names"][0] + "_y"]
            if f["kind"] == "dict":
                f["comps"] = {k: [row + row for row in m] for k, m in f["comps"].items()}
            else:
                f["cells"] = [row + row for row in f["cells"]]
        a = {"op": "cat", "parts": [B(fr), B(g)], "dim": 0}
    elif sub == "row:stypes":
        if len(g["feats"]) > 1:
            g["feats"].pop()
        else:
            used = {f["stype"] for f in g["feats"]}
            st = rng.pick([s for s in F.STYPES if s not in used])
            g["feats"].append(F.gen_feat(rng, F.Slots(rng), st, n, ["extra"]))
        a = {"op": "cat", "parts": [B(fr), B(g)], "dim": 0}
    elif sub == "row:mixed-y":
        if g["y"] is None:
            g["y"], g["ydtype"] = [float(i) for i in range(n)], "float"
        else:
            g["y"] = None
        a = {"op": "cat", "parts": rng.pick([[B(fr), B(g)], [B(g), B(fr)], [B(fr), B(fr), B(g)]]), "dim": 0}
    elif sub == "row:kind":
        # same names, different storage kind for one stype: no reading of the property defines the result
        f = g["feats"][0]
        if f["kind"] == "dense" and f["inner"] == 0:
            f["kind"] = "mnt"
        elif f["kind"] == "mnt":
            f["kind"] = "dense"
            f["inner"] = 0
            f["cells"] = [[[1.0 if f["dtype"] == "float" else 1] for _ in row] for row in f["cells"]]
        a = {"op": "cat", "parts": [B(fr), B(g)], "dim": 0}
    elif sub == "empty-list":
        a = {"op": "cat", "parts": [], "dim": rng.pick([0, 1])}
    elif sub == "dim":
        a = {"op": "cat", "parts": [B(fr)], "dim": rng.pick([2, -1, 3])}
    elif sub in ("col:dup-within", "col:dup-across", "col:two-y", "col:rows"):
        other = F.gen_frame(rng, n=n, featureless_p=0.0, name_prefix="d")
        if sub == "col:dup-within":
            f = rng.pick(fr["feats"])
            o = [x for x in other["feats"] if x["stype"] == f["stype"]]
            if o:
                o[0]["names"][0] = f["names"][0]
            else:
                other["feats"].append(sub_cols(copy.deepcopy(f), 0, 1))
            other["y"] = None
        elif sub == "col:dup-across":
            f = rng.pick(fr["feats"])
            o = [x for x in other["feats"] if x["stype"] != f["stype"]]
            if not o:
                used = {x["stype"] for x in other["feats"]} | {f["stype"]}
                st = rng.pick([s for s in F.STYPES if s not in used])
                other["feats"].append(F.gen_feat(rng, F.Slots(rng), st, n, ["tmp"]))
                o = [other["feats"][-1]]
            # the name must not also collide within a stype: that stype is absent from `other` or renamed
            other["feats"] = [x for x in other["feats"] if x["stype"] != f["stype"]]
            o[0]["names"][0] = f["names"][rng.randint(0, len(f["names"]) - 1)]
            other["y"] = None
        elif sub == "col:two-y":
            g["y"], g["ydtype"] = [float(i) for i in range(n)], "float"
            other["y"], other["ydtype"] = [float(i + 1) for i in range(n)], "float"
        elif sub == "col:rows":
            other = F.gen_frame(rng, n=n + rng.pick([1, 2]), featureless_p=0.15, name_prefix="d")
            other["y"] = None
        parts = [B(g), B(other)]
        if rng.chance(0.4):
            parts.reverse()
        a = {"op": "cat", "parts": parts, "dim": 1}
    elif sub == "val:ncols":
        f = rng.pick(g["feats"])
        if rng.chance(0.5) or len(f["names"]) == 1:
            f["ncols"] = len(f["names"])
            f["names"] = f["names"] + ["surplus"]
        else:
            f["ncols"] = len(f["names"])
            f["names"] = f["names"][:-1]
        a = B(g)
    elif sub == "val:rows":
        if len(g["feats"]) < 2 or n < 2 or rng.chance(0.3):
            g["num_rows"] = n + rng.pick([1, -1]) if n > 0 else 1
        else:
            f = g["feats"][rng.randint(1, len(g["feats"]) - 1)]
            if f["kind"] == "dict":
                f["comps"] = {k: m[:-1] for k, m in f["comps"].items()}
            else:
                f["cells"] = f["cells"][:-1]
        a = B(g)
    elif sub == "val:dict-comp":
        # one tensor of a dict-valued feature disagrees with the others on rows or columns
        fs = [x for x in g["feats"] if x["kind"] == "dict"]
        if not fs:
            g["feats"].append(F.gen_feat(rng, F.Slots(rng), "text_tokenized", n, ["tt0", "tt1"][:rng.randint(1, 2)]))
            fs = [g["feats"][-1]]
        f = fs[0]
        key = rng.pick(f["keys"][1:] if rng.chance(0.7) else f["keys"])
        m = f["comps"][key]
        if n >= 2 and rng.chance(0.5):
            f["comps"][key] = m[:-1]
        elif len(f["names"]) > 1 and rng.chance(0.5):
            f["comps"][key] = [row[:-1] for row in m]
        else:
            f["comps"][key] = [row + [list(row[-1])] for row in m]
        a = B(g)
    elif sub == "val:y":
        g["y"], g["ydtype"] = [float(i) for i in range(n + rng.pick([1, 2, -1]))], "float"
        a = B(g)
    elif sub == "val:keys":
        nm = [(f["stype"], f["names"]) for f in g["feats"]]
        if rng.chance(0.5) and len(nm) > 1:
            nm = nm[:-1]
        else:
            used = {f["stype"] for f in g["feats"]}
            nm = nm + [(rng.pick([s for s in F.STYPES if s not in used]), ["ghost"])]
        g["names_override"] = nm
        a = B(g)
    elif sub == "val:empty-stype":
        used = {f["stype"] for f in g["feats"]}
        st = rng.pick([s for s in ("numerical", "categorical") if s not in used] or ["timestamp"])
        if st in used:
            return gen_malformed(rng)
        g["feats"].append({"stype": st, "kind": "dense", "dtype": F.DTYPE_OF[st], "names": [], "inner": 0, "ncols": 0,
                           "cells": [[] for _ in range(n)]})
        a = B(g)
    elif sub == "val:ndim":
        f = [x for x in g["feats"] if x["kind"] == "dense" and x["inner"] == 0]
        if not f:
            return gen_malformed(rng)
        f[0]["ndim1"] = True
        a = B(g)
    return {"kind": "malformed", "sub": sub, "a": a, "b": None, "lookups": [], "meta": {}}


def feat_like(rng, slots, f, n, widths=None, keys=None):
    """an independently generated feature with the names, stype, storage and trailing shape of f"""
    g = F.gen_feat(rng, slots, f["stype"], n, f["names"])
    if f["kind"] == "dense":
        w = max(f["inner"], 1)
        g["inner"] = f["inner"]
        g["cells"] = [[[slots.scalar(i, f["dtype"]) for _ in range(w)] for _ in f["names"]] for i in range(n)]
    elif f["kind"] == "met":
        ws = widths if widths is not None else ([len(c) for c in f["cells"][0]] if f["cells"] else [1] * len(f["names"]))
        g["cells"] = [[[slots.scalar(i, f["dtype"]) for _ in range(w)] for w in ws] for i in range(n)]
    elif f["kind"] == "dict":
        ks = keys if keys is not None else list(f["keys"])
        lens = [[rng.randint(0, 2) for _ in f["names"]] for _ in range(n)]
        g["keys"] = ks
        g["comps"] = {k: [[[slots.scalar(i, f["dtype"], 0.0) for _ in range(lens[i][j])] for j in range(len(f["names"]))]
                          for i in range(n)] for k in ks}
    return g


def gen_indep(rng):
    """cat of INDEPENDENTLY built frames over the same col_names_dict: equal structure (must hold the rows of the parts
    in order), or different embedding widths / dict key sets under the same names (must be rejected)"""
    want = rng.wpick([(4, "same"), (5, "met-widths"), (3, "dict-keys")])
    for _ in range(30):
        fr = F.gen_frame(rng, featureless_p=0.0)
        kinds = {f["kind"] for f in fr["feats"]}
        if (want == "met-widths" and "met" not in kinds) or (want == "dict-keys" and "dict" not in kinds):
            continue
        break
    else:
        want = "same"
    k = rng.randint(2, 3)
    bad = rng.randint(1, k - 1) if want != "same" else None
    if want != "same" and rng.chance(0.3):
        bad = 0
    frames = []
    for t in range(k):
        if t == 0 and bad != 0:
            frames.append(fr)
            continue
        n = rng.randint(1, 4)
        slots = F.Slots(rng)
        g = {"n": n, "feats": [], "y": None, "ydtype": fr["ydtype"], "num_rows": None}
        for f in fr["feats"]:
            widths = keys = None
            if t == bad and want == "met-widths" and f["kind"] == "met":
                ws = [len(c) for c in f["cells"][0]]
                if len(ws) > 1 and rng.chance(0.75):
                    j = rng.randint(0, len(ws) - 2)                 # same total width, different split
                    widths = list(ws)
                    widths[j], widths[j + 1] = ws[j] + 1, max(ws[j + 1] - 1, 0) if ws[j + 1] > 0 else 0
                    if widths == ws or sum(widths) != sum(ws):
                        widths = [w + 1 for w in ws]
                else:
                    widths = [w + 1 for w in ws]
            if t == bad and want == "dict-keys" and f["kind"] == "dict":
                keys = rng.pick([f["keys"] + ["token_type_ids"], f["keys"][:1], [f["keys"][0], "other"]])
            g["feats"].append(feat_like(rng, slots, f, n, widths, keys))
        if fr["y"] is not None:
            g["y"] = [slots.scalar(i, fr["ydtype"], 0.0) for i in range(n)]
        frames.append(g)
    dim = 0
    if want == "dict-keys" and rng.chance(0.3):
        # the same along columns: two parts holding columns of one dict-valued stype with different key sets
        dim = 1
        n = fr["n"]
        for t, g in enumerate(frames):
            if g is not fr and g["n"] != n:
                frames[t] = None
        frames = [g for g in frames if g is not None]
        if len(frames) < 2:
            dim = 0
            frames = [fr, fr]
        else:
            for t, g in enumerate(frames):
                g = copy.deepcopy(g)
                g["feats"] = [dict(f, names=[f"p{t}_{x}" for x in f["names"]]) for f in g["feats"] if f["kind"] == "dict"]
                g["y"] = None
                frames[t] = g
    return {"kind": "indep", "sub": want + (":cols" if dim == 1 else ""), "a": {"op": "cat", "parts": [B(g) for g in frames], "dim": dim},
            "b": None, "lookups": all_names(frames[0])[:2] if want == "same" else [], "meta": {}}


def REF(i):
    return {"op": "ref", "i": i}


def gen_lookup_history(rng):
    """several frames over overlapping column names are alive; lookups by name on the OLDER objects are interleaved with
    the construction of newer ones (column parts, their cat, a frame with the same names at other positions / stypes),
    including names that exist only in some other frame"""
    c = gen_colpart(rng)
    while len(c["a"]["parts"]) < 2 and rng.chance(0.85):
        c = gen_colpart(rng)
    fr = c["b"]["frame"]
    for _ in range(10):
        if all_names(fr):
            break
        c = gen_colpart(rng)
        fr = c["b"]["frame"]
    names = all_names(fr)
    # the same names at other positions / stypes
    rot = copy.deepcopy(fr)
    flat = names[1:] + names[:1] if len(names) > 1 else [names[0] + "_r"] if names else []
    if rng.chance(0.5):
        flat = list(reversed(names)) if len(names) > 1 else flat
    it = iter(flat)
    for f in rot["feats"]:
        f["names"] = [next(it) for _ in f["names"]]
    other = F.gen_frame(rng, n=rng.randint(1, 3), featureless_p=0.0, name_prefix="z")
    onames = all_names(other)
    parts = c["a"]["parts"]
    env = [c["b"]]                                        # A, the older frame
    asked = list(names) + onames[:2] + ["no_such_column"]
    rng.shuffle(asked)

    def look(e, nms):
        nms = list(nms)
        rng.shuffle(nms)
        return {"as": "lookup", "a": e, "b": None, "lookups": nms}

    checks = [look(REF(0), names)]
    steps = [("rot", B(rot), all_names(rot)), ("other", B(other), onames)]
    for j, p_ in enumerate(parts[:3]):
        steps.append((f"part{j}", p_, all_names(p_["frame"]) + names[:2]))
    steps.append(("cat", c["a"], names))
    rng.shuffle(steps)
    for _, e, nms in steps[:rng.randint(2, 4)]:
        checks.append(look(e, nms))                       # a newer frame is constructed (and asked)
        checks.append(look(REF(0), asked))                # ... then the OLDER frame is asked again
    if len(parts) >= 2:
        # a column part built once, asked after its siblings and their concatenation exist
        env.append(parts[0])
        env.append({"op": "cat", "parts": [REF(1)] + parts[1:], "dim": 1})
        checks.append(look(REF(1), all_names(parts[0]["frame"]) + names))
        checks.append(look(REF(2), names + onames[:1]))
    return {"kind": "reuse", "sub": "lookup-history", "env": env, "checks": checks, "a": c["b"], "b": None,
            "lookups": [], "meta": {}}


def gen_reuse(rng):
    """multi-step cases: parts / results are objects built once and used again after a concatenation"""
    sub = rng.wpick([(3, "col-cat-twice"), (3, "col-part-row-roundtrip"), (2, "col-result-again"), (2, "row-cat-twice"),
                     (2, "row-part-col-reuse"), (6, "lookup-history")])
    if sub == "lookup-history":
        return gen_lookup_history(rng)
    if sub.startswith("col"):
        c = gen_colpart(rng)
        while len(c["a"]["parts"]) < 2 and rng.chance(0.8):
            c = gen_colpart(rng)
        parts = c["a"]["parts"]
        full = c["b"]
        k = len(parts)
        env = list(parts)
        cat_refs = {"op": "cat", "parts": [REF(i) for i in range(k)], "dim": 1}
        checks = [{"as": "colpart", "a": cat_refs, "b": full}]
        if sub == "col-cat-twice":
            checks.append({"as": "colpart", "a": cat_refs, "b": full})
            checks.append({"as": "perturb", "a": REF(0), "b": parts[0]})
        elif sub == "col-part-row-roundtrip":
            j = rng.randint(0, k - 1)
            n = parts[j]["frame"]["n"]
            cpt = rng.randint(0, n)
            checks.append({"as": "rowpart", "a": {"op": "cat", "dim": 0,
                                                  "parts": [{"op": "sel", "of": REF(j), "idx": slice_ix(None, cpt)},
                                                            {"op": "sel", "of": REF(j), "idx": slice_ix(cpt, None)}]},
                           "b": parts[j]})
            checks.append({"as": "colpart", "a": cat_refs, "b": full})
        else:
            env.append(cat_refs)                      # the first result, kept
            checks = [{"as": "colpart", "a": cat_refs, "b": full},            # a second concatenation of the same parts
                      {"as": "colpart", "a": REF(k), "b": full},             # the first result, compared again
                      {"as": "perturb", "a": REF(k), "b": cat_refs}]
        return {"kind": "reuse", "sub": sub, "env": env, "checks": checks, "a": F.subst(cat_refs, env), "b": full,
                "lookups": [], "meta": {}}
    r = gen_rowpart(rng)
    base = r["a"]["parts"][0]["of"] if r["a"]["parts"] else r["b"]
    env = [base]
    parts = [dict(p_, of=REF(0)) for p_ in r["a"]["parts"]]
    env += parts                                       # selections made once
    k = len(parts)
    cat_refs = {"op": "cat", "parts": [REF(1 + i) for i in range(k)], "dim": 0}
    b = r["b"] if r["b"]["op"] == "build" else dict(r["b"], of=REF(0))
    checks = [{"as": "rowpart", "a": cat_refs, "b": b}, {"as": "rowpart", "a": cat_refs, "b": b}]
    if sub == "row-part-col-reuse":
        other = F.gen_frame(rng, n=base["frame"]["n"], featureless_p=0.0, name_prefix="d")
        other["y"] = None
        both = {"op": "cat", "parts": [REF(0), B(other)], "dim": 1}
        checks.insert(1, {"as": "colpart", "a": both, "b": both})
    checks.append({"as": "perturb", "a": REF(0), "b": base})
    return {"kind": "reuse", "sub": sub, "env": env, "checks": checks, "a": F.subst(cat_refs, env), "b": F.subst(b, env),
            "lookups": [], "meta": {}}


GENS = [(24, gen_rowpart), (18, gen_colpart), (26, gen_perturb), (6, gen_lookup), (10, gen_malformed), (8, gen_reuse),
        (10, gen_indep), (16, gen_boundary)]


def exhaustive(rng):
    """thorough tier: every row partition of small frames into 1-3 consecutive parts (zero-length parts included)
    and every per-stype column partition of a two-feature frame into 1-3 parts with every placement of the target"""
    import itertools
    out = []
    for n in (1, 2, 3, 4):
        for fr in (F.gen_frame(rng, n=n, featureless_p=0.0, min_feats=3, max_feats=4), F.gen_frame(rng, n=n, featureless_p=1.0)):
            for k in (1, 2, 3):
                for cuts in itertools.combinations_with_replacement(range(n + 1), k - 1):
                    cs = [0] + list(cuts) + [n]
                    poss = [list(range(cs[i], cs[i + 1])) for i in range(k)]
                    parts = [{"op": "sel", "of": B(fr), "idx": slice_ix(cs[i], cs[i + 1])} for i in range(k)]
                    out.append({"kind": "rowpart", "sub": "cuts", "a": {"op": "cat", "parts": parts, "dim": 0}, "b": B(fr),
                                "lookups": [], "meta": {"poss": poss}})
    for _ in range(3):
        fr = F.gen_frame(rng, n=rng.randint(1, 3), featureless_p=0.0, min_feats=2, max_feats=2)
        fr["ydtype"], fr["y"] = "float", [float(i) for i in range(fr["n"])]
        for k in (1, 2, 3):
            per_feat = [list(itertools.combinations_with_replacement(range(len(f["names"]) + 1), k - 1)) for f in fr["feats"]]
            for combo in itertools.product(*per_feat):
                for jy in range(k):
                    parts = [{"n": fr["n"], "feats": [], "y": None, "ydtype": "float", "num_rows": None} for _ in range(k)]
                    chunks = []
                    for f, cuts in zip(fr["feats"], combo):
                        cs = [0] + list(cuts) + [len(f["names"])]
                        chunks.append(cs)
                        for j in range(k):
                            if cs[j + 1] > cs[j]:
                                parts[j]["feats"].append(sub_cols(f, cs[j], cs[j + 1]))
                    parts[jy]["y"] = list(fr["y"])
                    for p_ in parts:
                        if not p_["feats"]:
                            p_["num_rows"] = fr["n"]
                    out.append({"kind": "colpart", "sub": "chunks", "a": {"op": "cat", "parts": [B(p_) for p_ in parts], "dim": 1},
                                "b": B(fr), "lookups": [], "meta": {"chunks": chunks}})
    return out


def decorate(rng, e):
    """draw every accepted call form: constructor forms, cat(lst, dim) forms, frames handed over through copy / device
    transfer entry points"""
    if e is None:
        return None
    op = e["op"]
    if op == "build":
        e = dict(e, frame=dict(e["frame"], ctor=rng.pick(F.CTORS)))
    elif op == "sel":
        e = dict(e, of=decorate(rng, e["of"]))
    elif op == "cat":
        e = dict(e, parts=[decorate(rng, p_) for p_ in e["parts"]],
                 form=rng.wpick([(5, "list"), (2, "tuple"), (2, "kw"), (1, "utils")]))
    elif op == "via":
        e = dict(e, of=decorate(rng, e["of"]))
    if op in ("build", "sel", "cat") and rng.chance(0.12):
        e = {"op": "via", "how": rng.pick(["copy", "to", "cpu", "to_kw"]), "of": e}
    return e


CTOR_WHATS = ["num_rows+1", "num_rows-1", "num_rows=0", "y+1", "y-1", "rows-differ:second", "rows-differ:first",
              "names+1", "names-1", "key-only-in-feats", "key-only-in-names"]
STYPE_OF_KIND = {"dense": ["numerical", "categorical", "timestamp"], "mnt": ["multicategorical", "sequence_numerical"],
                 "met": ["embedding", "text_embedded", "image_embedded"], "dict": ["text_tokenized"]}


def ctor_rejections(rng):
    """The whole family of construction rejections, deterministically, for every storage kind: explicit num_rows of
    n+1 / n-1 / 0 against n feature rows, a target of n+1 / n-1 rows, two stypes of different row counts (either order),
    a name list one longer / one shorter than the feature's columns, a stype key present in only one of the two dicts."""
    out = []
    for kind in ("dense", "mnt", "met", "dict"):
        for what in CTOR_WHATS:
            n = rng.randint(2, 4)
            slots = F.Slots(rng)
            st = rng.pick(STYPE_OF_KIND[kind])
            f = F.gen_feat(rng, slots, st, n, ["k0", "k1"])
            other_st = rng.pick([s_ for s_ in ("numerical", "categorical") if s_ != st])
            fr = {"n": n, "feats": [f], "y": None, "ydtype": "float", "num_rows": None, "ctor": rng.pick(F.CTORS[:3])}
            if rng.chance(0.5) and not what.startswith("rows-differ") and not what.startswith("key"):
                fr["feats"].append(F.gen_feat(rng, slots, other_st, n, ["o0"]))
                if rng.chance(0.5):
                    fr["feats"].reverse()
            if what.startswith("num_rows"):
                fr["num_rows"] = {"num_rows+1": n + 1, "num_rows-1": n - 1, "num_rows=0": 0}[what]
                if rng.chance(0.3):
                    fr["y"] = [float(i) for i in range(fr["num_rows"])]       # a target that agrees with the explicit count
            elif what in ("y+1", "y-1"):
                fr["y"] = [float(i) for i in range(n + (1 if what == "y+1" else -1))]
                if rng.chance(0.4):
                    fr["num_rows"] = n
            elif what.startswith("rows-differ"):
                g = F.gen_feat(rng, F.Slots(rng), other_st, n + rng.pick([1, -1]), ["o0"])
                fr["feats"] = [f, g] if what.endswith("second") else [g, f]
                fr["n"] = len(F._feat_shape_from_desc(fr["feats"][0])[0][3])
            elif what in ("names+1", "names-1"):
                if kind == "dense":
                    f["ncols"] = 2
                f["names"] = ["k0", "k1", "k2"] if what == "names+1" else ["k0"]
            elif what == "key-only-in-feats":
                fr["feats"].append(F.gen_feat(rng, slots, other_st, n, ["o0"]))
                fr["names_override"] = [(f["stype"], f["names"])]
            else:
                fr["names_override"] = [(f["stype"], f["names"]), (other_st, ["ghost"])]
            out.append({"kind": "malformed", "sub": f"ctor:{what}:{kind}", "a": B(fr), "b": None, "lookups": [], "meta": {}})
    return out


DICT2_WHATS = ["dict-2nd-rows+1", "dict-2nd-rows-1", "dict-2nd-cols+1", "dict-2nd-cols-1"]
Y_KINDS = ["all-nan", "part-nan", "zero-row-float", "zero-row-long"]


def y_of(kind, n):
    if kind == "all-nan":
        return "float", [None] * n
    if kind == "part-nan":
        return "float", [None if i % 2 == 0 else float(i) for i in range(n)]
    return ("float" if kind == "zero-row-float" else "int"), []


def nan_target_cases(rng):
    """targets that hold only NaN / some NaN / no element at all ARE targets: conflicts are rejected (both orders), and row
    / column partitions give them back (target on the first / last / a column-less part)"""
    out = []
    for yk in Y_KINDS:
        zero = yk.startswith("zero-row")
        for kind in ("dense", "mnt", "met", "dict"):
            n = rng.randint(2, 3)
            slots = F.Slots(rng)
            st = rng.pick(STYPE_OF_KIND[kind])
            f = F.gen_feat(rng, slots, st, n, ["a", "b"])
            ydt, yv = y_of(yk, n)
            full = {"n": n, "feats": [f], "y": yv if not zero else [0.0] * n if ydt == "float" else [0] * n, "ydtype": ydt,
                    "num_rows": None}

            def wrap(e):
                return {"op": "sel", "of": e, "idx": slice_ix(0, 0)} if zero else e
            left = dict(full, feats=[sub_cols(f, 0, 1)])
            right = dict(full, feats=[sub_cols(f, 1, 2)])
            empty = {"n": n, "feats": [], "y": None, "ydtype": ydt, "num_rows": n}
            # conflicts: the NaN / empty target next to an ordinary one, both orders
            other_y = dict(right, y=[float(i) for i in range(n)] if ydt == "float" else list(range(n)))
            for order in ("first", "last"):
                parts = [wrap(B(left)), wrap(B(other_y))]
                if order == "last":
                    parts.reverse()
                out.append({"kind": "malformed", "sub": f"cat:col:y-conflict:{yk}:{order}:{kind}",
                            "a": {"op": "cat", "parts": parts, "dim": 1}, "b": None, "lookups": [], "meta": {}})
            # column partition: the target on the first / the last / a column-less part
            for where in ("first", "last", "column-less"):
                if where == "first":
                    ps = [left, dict(right, y=None)]
                elif where == "last":
                    ps = [dict(left, y=None), right]
                else:
                    ps = [dict(left, y=None), dict(empty, y=full["y"]), dict(right, y=None)]
                out.append({"kind": "boundary", "sub": f"nan-target-cols:{yk}:{where}:{kind}",
                            "a": {"op": "cat", "parts": [wrap(B(p_)) for p_ in ps], "dim": 1}, "b": wrap(B(full)),
                            "lookups": [], "meta": {}})
            # row partition and mixed presence along rows
            if not zero:
                out.append({"kind": "boundary", "sub": f"nan-target-rows:{yk}:{kind}",
                            "a": {"op": "cat", "parts": [{"op": "sel", "of": B(full), "idx": slice_ix(0, 1)},
                                                        {"op": "sel", "of": B(full), "idx": slice_ix(1, None)}], "dim": 0},
                            "b": B(full), "lookups": [], "meta": {}})
            out.append({"kind": "malformed", "sub": f"cat:row:y-mixed:{yk}:{kind}",
                        "a": {"op": "cat", "parts": [wrap(B(dict(full, y=None))), wrap(B(full))], "dim": 0}, "b": None,
                        "lookups": [], "meta": {}})
    return out


def nan_perturb_cases(rng):
    """a missing entry against a value in ONE cell, for every float storage kind, in both directions (the comparison runs
    in both operand orders): NaN on the left / on the right, value 0.0 included"""
    out = []
    for st in ("numerical", "sequence_numerical", "embedding", "text_embedded"):
        for direction in ("nan->value", "value->nan"):
            for rep in range(3):
                n = rng.randint(1, 3)
                slots = F.Slots(rng)
                f = F.gen_feat(rng, slots, st, n, ["a", "b"], miss_p=0.0)
                spots = [(i, j, k) for i, row in enumerate(f["cells"]) for j, cell in enumerate(row) for k in range(len(cell))]
                if not spots:
                    continue
                i, j, k = rng.pick(spots)
                g = copy.deepcopy(f)
                if direction == "nan->value":
                    f["cells"][i][j][k] = None
                    g["cells"][i][j][k] = rng.pick([0.0, 3.0, g["cells"][i][j][k]])
                else:
                    g["cells"][i][j][k] = None
                    if rng.chance(0.3):
                        f["cells"][i][j][k] = 0.0
                fa = {"n": n, "feats": [f], "y": None, "ydtype": "float", "num_rows": None}
                fb = dict(fa, feats=[g])
                if rep == 2:
                    other = F.gen_feat(rng, slots, "categorical", n, ["o"])
                    fa, fb = dict(fa, feats=[other, f]), dict(fb, feats=[copy.deepcopy(other), g])
                out.append({"kind": "perturb", "sub": f"nan-cell:{direction}:{F.KIND_OF[st]}", "a": B(fa), "b": B(fb),
                            "lookups": [], "meta": {}})
    return out


def misc_rejections(rng):
    out = []
    for kind in ("dense", "mnt", "met", "dict"):
        n = rng.randint(1, 3)
        slots = F.Slots(rng)
        f = F.gen_feat(rng, slots, rng.pick(STYPE_OF_KIND[kind]), n, ["a"])
        fr = {"n": n, "feats": [f], "y": None, "ydtype": "float", "num_rows": None}
        st = "categorical" if f["stype"] != "categorical" else "numerical"
        g = dict(fr, feats=[f, {"stype": st, "kind": "dense", "dtype": F.DTYPE_OF[st], "names": [], "inner": 0, "ncols": 0,
                                "cells": [[] for _ in range(n)]}])
        out.append({"kind": "malformed", "sub": f"ctor:empty-stype:{kind}", "a": B(g), "b": None, "lookups": [], "meta": {}})
        for dim in (2, -1, -2):
            out.append({"kind": "malformed", "sub": f"cat:dim{dim}:{kind}", "a": {"op": "cat", "parts": [B(fr), B(fr)], "dim": dim},
                        "b": None, "lookups": [], "meta": {}})
    return out


CAT_WHATS = ["row:y[N,y]", "row:y[y,N]", "row:y[N,N,y]", "row:y[N,y,y]", "row:y[y,N,y]", "row:names@0", "row:names@1",
             "row:names@2", "col:two-y", "col:three-y", "col:dup-within", "col:dup-across", "col:rows+1", "col:rows-1",
             "empty:0", "empty:1"]


def dict2_rejections(rng):
    """a dict-valued feature whose SECOND entry disagrees with the frame on rows or columns (the first is consistent)"""
    out = []
    for what in DICT2_WHATS:
        for with_other in (False, True):
            n = rng.randint(2, 4)
            slots = F.Slots(rng)
            f = F.gen_feat(rng, slots, "text_tokenized", n, ["t0", "t1"])
            key = f["keys"][1]
            m = f["comps"][key]
            if what == "dict-2nd-rows+1":
                f["comps"][key] = m + [copy.deepcopy(m[-1])]
            elif what == "dict-2nd-rows-1":
                f["comps"][key] = m[:-1]
            elif what == "dict-2nd-cols+1":
                f["comps"][key] = [row + [list(row[-1])] for row in m]
            else:
                f["comps"][key] = [row[:-1] for row in m]
            fr = {"n": n, "feats": [f], "y": None, "ydtype": "float", "num_rows": rng.pick([None, n])}
            if with_other:
                fr["feats"].insert(rng.randint(0, 1), F.gen_feat(rng, slots, "numerical", n, ["o0"]))
            out.append({"kind": "malformed", "sub": f"ctor:{what}", "a": B(fr), "b": None, "lookups": [], "meta": {}})
    return out


def cat_rejections(rng):
    """the family of concatenation rejections, deterministically, on frames of every storage kind"""
    out = []
    for kinds in (["dense"], ["mnt"], ["met"], ["dict"]):
        for what in CAT_WHATS:
            n = rng.randint(1, 3)

            def mk(names, with_y, rows=n, prefix_st=None):
                slots = F.Slots(rng)
                st = rng.pick(STYPE_OF_KIND[kinds[0]]) if prefix_st is None else prefix_st
                fr = {"n": rows, "feats": [F.gen_feat(rng, slots, st, rows, names)], "y": None, "ydtype": "float",
                      "num_rows": None}
                if with_y:
                    fr["y"] = [float(i) for i in range(rows)]
                return fr
            st0 = rng.pick(STYPE_OF_KIND[kinds[0]])
            if what.startswith("row:y"):
                pat = what[6:-1].split(",")
                parts = [mk(["a", "b"], p_ == "y", prefix_st=st0) for p_ in pat]
                e = {"op": "cat", "parts": [B(p_) for p_ in parts], "dim": 0}
            elif what.startswith("row:names@"):
                j = int(what[-1])
                parts = [mk(["a", "b"], True, prefix_st=st0) for _ in range(3)]
                parts[j]["feats"][0]["names"] = ["a", "B"]
                e = {"op": "cat", "parts": [B(p_) for p_ in parts], "dim": 0}
            elif what in ("col:two-y", "col:three-y"):
                k = 2 if what == "col:two-y" else 3
                parts = [mk([f"p{t}"], True, prefix_st=st0) for t in range(k)]
                if rng.chance(0.5):
                    parts.insert(rng.randint(0, k), mk(["q"], False, prefix_st=st0))
                e = {"op": "cat", "parts": [B(p_) for p_ in parts], "dim": 1}
            elif what == "col:dup-within":
                parts = [mk(["a", "b"], False, prefix_st=st0), mk(["c", "a"], False, prefix_st=st0)]
                e = {"op": "cat", "parts": [B(p_) for p_ in parts], "dim": 1}
            elif what == "col:dup-across":
                other = rng.pick([s_ for s_ in ("numerical", "categorical", "embedding") if s_ != st0])
                parts = [mk(["a", "b"], False, prefix_st=st0), mk(["c", "b"], False, prefix_st=other)]
                if rng.chance(0.5):
                    parts.reverse()
                e = {"op": "cat", "parts": [B(p_) for p_ in parts], "dim": 1}
            elif what.startswith("col:rows"):
                d_ = 1 if what.endswith("+1") else -1
                if n + d_ < 1:
                    d_ = 1
                parts = [mk(["a"], False, prefix_st=st0), mk(["b"], False, rows=n + d_, prefix_st=st0)]
                if rng.chance(0.5):
                    parts.reverse()
                e = {"op": "cat", "parts": [B(p_) for p_ in parts], "dim": 1}
            else:
                e = {"op": "cat", "parts": [], "dim": int(what[-1])}
            out.append({"kind": "malformed", "sub": f"cat:{what}:{kinds[0]}", "a": e, "b": None, "lookups": [], "meta": {}})
    return out


def draw_one(rng):
    c = rng.wpick(GENS)(rng)
    if c["kind"] in ("rowpart", "colpart", "perturb", "lookup", "indep", "boundary"):
        c["a"], c["b"] = decorate(rng, c["a"]), decorate(rng, c["b"])
    return c


def families(rng):
    return ctor_rejections(rng) + dict2_rejections(rng) + cat_rejections(rng) + nan_target_cases(rng) \
        + misc_rejections(rng) + nan_perturb_cases(rng) + allclose_cases()


REQUIRED_SEED = 8080808
_REQUIRED = None


def required_stream():
    """deterministic stream (constant seed, independent of VERIF_SEED and tier) that alone meets every requirement of
    sanity(): the hand-written families plus a greedy cover drawn from the random generator under the constant seed"""
    global _REQUIRED
    if _REQUIRED is None:
        base = families(C.Rng(REQUIRED_SEED + 1))
        kept, left = F.greedy_required(draw_one, run, stats, problems, base, REQUIRED_SEED)
        _REQUIRED = [dict(c, required=True) for c in kept]
    return [dict(c) for c in _REQUIRED]


def write_required():
    """(re)write corpus/C08/req_*.json: the greedy cover is computed once (it needs ~1000 implementation runs) and kept
    as corpus cases, which ./check runs first under every seed and tier.  Run after changing the generator:
    PYTHONPATH=/repo PYTHONHASHSEED=0 /venv/bin/python -c "from harness import c08; c08.write_required()" """
    import os
    d = os.path.join(C.CORPUS, PROP)
    os.makedirs(d, exist_ok=True)
    for fn in os.listdir(d):
        if fn.startswith("req_"):
            os.remove(os.path.join(d, fn))
    for k, c in enumerate(required_stream()):
        with open(os.path.join(d, f"req_{k:03d}.json"), "w") as f:
            json.dump(c, f)


def generate(rng, tier):
    n = 560 if tier == "quick" else 25000
    # the hand-written families are deterministic (constant seed); the run's seed drives only the random stream
    cases = [dict(c, required=True) for c in families(C.Rng(REQUIRED_SEED + 1))] + [draw_one(rng) for _ in range(n)]
    if tier == "thorough":
        cases += exhaustive(rng)
    return cases


def extra(tier, rng):
    """torch.allclose's decision on ONE pair of scalars on both sides of atol + rtol*|other| (the modelled primitive
    `close`), including its asymmetry, in float64 and float32, decided independently with exact rationals."""
    import torch
    from fractions import Fraction as Fr
    fails, count = [], 0
    atol, rtol = Fr(F.ATOL), Fr(F.RTOL)
    xs = [0.0, 0.125, -0.125, 1.0, 7.875, -64.5, 500.0, 999.875, -999.875, 1e5, 123456.0]
    for dt, eps in ((torch.float64, 2.0 ** -20), (torch.float32, 2.0 ** -6)):
        for b in xs:
            tol = float(atol + rtol * abs(Fr(b)))
            for factor in (1 - eps, 1 + eps, 1.0, 0.5, 2.0, 0.0):      # just inside, just beyond, AT the tolerance
                for sign in (1, -1):
                    tb = torch.tensor([b], dtype=dt)
                    ta = torch.tensor([b + sign * tol * factor], dtype=dt)
                    a_, b_ = Fr(ta.item()), Fr(tb.item())
                    for x, z, tx, tz in ((a_, b_, ta, tb), (b_, a_, tb, ta)):
                        margin = abs(x - z) - (atol + rtol * abs(z))       # allclose(x, z): |x - z| <= atol + rtol*|z|
                        if dt == torch.float32 and abs(margin) < Fr(tol) * Fr(1, 1000):
                            continue                                          # float32 evaluates the bound itself in float32
                        if dt == torch.float64 and margin != 0 and abs(margin) < Fr(tol) * Fr(1, 10 ** 12):
                            continue                                          # within the rounding of the bound in float64
                        want = margin <= 0
                        got = bool(torch.allclose(tx, tz))
                        count += 1
                        if got != want:
                            fails.append(dict(key="primitive:allclose", case=None,
                                              what=f"torch.allclose({float(x)!r}, {float(z)!r}) [{dt}] = {got}, "
                                                   f"|x - z| <= atol + rtol*|z| is {want}",
                                              expected=want, observed=got))
    # NaN: never close without equal_nan, close to NaN with it
    nan = torch.tensor([float("nan")])
    for en, want in ((False, False), (True, True)):
        count += 1
        if bool(torch.allclose(nan, nan, equal_nan=en)) != want:
            fails.append(dict(key="primitive:allclose-nan", case=None, what=f"allclose(nan, nan, equal_nan={en}) != {want}"))
    count += 1
    if bool(torch.allclose(nan, torch.tensor([1.0]), equal_nan=True)):
        fails.append(dict(key="primitive:allclose-nan", case=None, what="allclose(nan, 1.0, equal_nan=True) is True"))
    return fails[:3], {"allclose_primitive_checks": count}


def allclose_cases():
    """torch.allclose on one pair of scalars around atol + rtol*|other| -- just inside, just beyond, exactly at, half and
    twice the tolerance, both signs, both operand orders, float64 and float32 -- as correspondence cases for the rational
    model Model/Allclose.v (the same pairs extra() judges with exact rationals)"""
    import torch
    from fractions import Fraction as Fr
    atol, rtol = Fr(1, 10 ** 8), Fr(1, 10 ** 5)
    pairs = []
    xs = [0.0, 0.125, -0.125, 1.0, 7.875, -64.5, 500.0, 999.875, -999.875, 1e5, 123456.0]
    for dt, eps in (("float64", 2.0 ** -20), ("float32", 2.0 ** -6)):
        tdt = torch.float64 if dt == "float64" else torch.float32
        for b in xs:
            tol = float(atol + rtol * abs(Fr(b)))
            for factor in (1 - eps, 1 + eps, 1.0, 0.5, 2.0, 0.0):
                for sign in (1, -1):
                    a_ = torch.tensor([b + sign * tol * factor], dtype=tdt).item()
                    b_ = torch.tensor([b], dtype=tdt).item()
                    for x, z in ((a_, b_), (b_, a_)):
                        margin = abs(Fr(x) - Fr(z)) - (atol + rtol * abs(Fr(z)))
                        lim = Fr(tol) * (Fr(1, 1000) if dt == "float32" else Fr(1, 10 ** 9))
                        if margin != 0 and abs(margin) < lim:
                            continue            # within the rounding of the bound itself in floating point
                        if margin == 0 and dt == "float32":
                            continue
                        pairs.append([x, z, dt])
    return [{"kind": "allclose", "sub": "pairs", "pairs": pairs[k:k + 60], "a": None, "b": None, "lookups": [], "meta": {}}
            for k in range(0, len(pairs), 60)]


REQUIRED_STREAMS = [           # prefixes of kind/sub-kind; each has an expected count >= 20 per quick run
    "rowpart/cuts", "rowpart/perm", "rowpart/any", "colpart/", "perturb/cell", "perturb/tol-", "perturb/nan",
    "perturb/name", "perturb/boundary|perturb/met-boundary", "perturb/y-", "perturb/same:", "perturb/drop-|perturb/dict-key",
    "lookup/", "malformed/row:", "malformed/col:", "malformed/val:", "indep/same", "indep/met-widths|indep/dict-keys",
    "reuse/col", "reuse/row", "reuse/lookup-history",
    "boundary/zero-rows:name", "boundary/zero-rows:y-", "boundary/zero-rows:same:", "boundary/one-row:", "boundary/rows-0-vs-1",
    "boundary/n-parts-of-1", "reuse/repeat-object", "boundary/target-on-empty-part:rows", "boundary/target-on-empty-part:cols",
]


def sanity(cases, obss):
    """Fail-closed distribution check (DESIGN 3.5): every stream that carries a clause of the property must be drawn,
    every storage kind must occur, rejections stay a minority, and both outcomes of == are observed.  Every requirement
    is met by the deterministic required_stream() alone (checked here too): the run's seed only adds random cases."""
    req = [(c, o) for c, o in zip(cases, obss) if isinstance(c, dict) and c.get("required")]
    probs = problems(stats(cases, obss))
    if req:
        probs += ["required stream alone: " + p_ for p_ in problems(stats([c for c, _ in req], [o for _, o in req]))]
    else:
        probs.append("the deterministic required stream is missing")
    return probs


def problems(d):
    probs = []
    if not d["total"]:
        return ["no case was run"]
    for k in REQUIRED_STREAMS:
        if not any(name.startswith(alt) and cnt > 0 for alt in k.split("|") for name, cnt in d["subkinds"].items()):
            probs.append(f"stream {k} never drawn")
    for k in ("dense", "mnt", "met", "dict", "featureless"):
        if d["storage"].get(k, 0) == 0:
            probs.append(f"storage kind {k} never drawn")
    if d.get("nonmalformed_rejections", 0) > 0.6 * max(d.get("nonmalformed_total", 0), 1):
        probs.append(f"{d.get('nonmalformed_rejections')} of {d.get('nonmalformed_total')} cases outside the deliberate "
                     "rejection families are rejections")
    if d["eq_true"] == 0 or d["eq_false"] == 0:
        probs.append(f"== outcomes degenerate: {d['eq_true']} True, {d['eq_false']} False")
    if d["lookups"] == 0:
        probs.append("no column lookup observed")
    for n in (1, 2, 3):
        if d["parts"].get(n, 0) == 0:
            probs.append(f"no concatenation of {n} part(s)")
    if d["zero_row_parts"] == 0:
        probs.append("no zero-row part in a row partition")
    for f_ in (["ctor:" + c_ for c_ in F.CTORS] + ["via:copy", "via:to", "via:cpu", "via:to_kw"]
               + ["cat:list", "cat:tuple", "cat:kw", "cat:utils"]):
        if d["forms"].get(f_, 0) == 0:
            probs.append(f"call form {f_} never drawn")
    for kind_ in ("dense", "mnt", "met", "dict"):
        for what in CTOR_WHATS:
            if d["subkinds"].get(f"malformed/ctor:{what}:{kind_}", 0) == 0:
                probs.append(f"construction rejection {what} on {kind_} never drawn")
    for what in DICT2_WHATS:
        if d["subkinds"].get(f"malformed/ctor:{what}", 0) == 0:
            probs.append(f"construction rejection {what} never drawn")
    for kind_ in ("dense", "mnt", "met", "dict"):
        for what in CAT_WHATS:
            if d["subkinds"].get(f"malformed/cat:{what}:{kind_}", 0) == 0:
                probs.append(f"concatenation rejection {what} on {kind_} never drawn")
    for yk in Y_KINDS:
        for pre in ("malformed/cat:col:y-conflict:%s:first", "malformed/cat:col:y-conflict:%s:last",
                    "boundary/nan-target-cols:%s:first", "boundary/nan-target-cols:%s:last",
                    "boundary/nan-target-cols:%s:column-less", "malformed/cat:row:y-mixed:%s"):
            if not any(k_.startswith(pre % yk) and v_ > 0 for k_, v_ in d["subkinds"].items()):
                probs.append(f"stream {pre % yk} never drawn")
    for k in ("perturb/storage-kind", "perturb/inner", "malformed/ctor:empty-stype", "malformed/cat:dim",
              "perturb/nan-cell:nan->value:dense", "perturb/nan-cell:value->nan:dense", "perturb/nan-cell:nan->value:mnt",
              "perturb/nan-cell:value->nan:mnt", "perturb/nan-cell:nan->value:met", "perturb/nan-cell:value->nan:met"):
        if not any(k_.startswith(k) and v_ > 0 for k_, v_ in d["subkinds"].items()):
            probs.append(f"stream {k} never drawn")
    if d.get("allclose_pairs", 0) < 300:
        probs.append(f"only {d.get('allclose_pairs', 0)} torch.allclose pairs compared with Model/Allclose.v")
    if d["ne_checks"] == 0 or d["nonframe_eq_checks"] == 0:
        probs.append("!= / __neq__ / comparison with a non-frame never observed")
    return probs


# ------------------------------------------------------------ implementation
def _try(fn):
    try:
        return {"ok": True, "v": fn()}
    except Exception as ex:
        return {"ok": False, "exc": C.exc_name(ex), "msg": str(ex)[:160]}


def run_sub(case, env, log, trace=None):
    obs = {}
    ta = _try(lambda: F.ev(case["a"], env, log, trace))
    obs["a"] = {"ok": ta["ok"], "exc": ta.get("exc"), "msg": ta.get("msg")}
    if ta["ok"]:
        r = _try(lambda: F.read_frame(ta["v"]))
        obs["a"]["frame"] = r["v"] if r["ok"] else None
        obs["a"]["read_exc"] = None if r["ok"] else r["exc"] + ": " + r["msg"]
        obs["a"]["type"] = type(ta["v"]).__name__
        obs["a"]["props"] = _try(lambda: F.read_props(ta["v"])).get("v")
        # other: Any -- anything that is not a TensorFrame is unequal, never an error
        obs["a"]["eq_other"] = [(_try(lambda: bool(ta["v"] == o_)).get("v", "raise")) for o_ in
                                (5, None, "x", ta["v"].feat_dict, [ta["v"]])]
        obs["a"]["eq_self"] = _try(lambda: bool(ta["v"] == ta["v"])).get("v", "raise")
    if case["b"] is not None:
        tb = _try(lambda: F.ev(case["b"], env, log))
        obs["b"] = {"ok": tb["ok"], "exc": tb.get("exc"), "msg": tb.get("msg")}
        if tb["ok"]:
            r = _try(lambda: F.read_frame(tb["v"]))
            obs["b"]["frame"] = r["v"] if r["ok"] else None
        if ta["ok"] and tb["ok"]:
            snap_a, snap_b = F.full_snapshot(ta["v"]), F.full_snapshot(tb["v"])
            e1 = _try(lambda: ta["v"] == tb["v"])
            e2 = _try(lambda: tb["v"] == ta["v"])
            obs["eq_ab"] = (bool(e1["v"]) if e1["ok"] else "raise:" + e1["exc"])
            obs["eq_ba"] = (bool(e2["v"]) if e2["ok"] else "raise:" + e2["exc"])
            obs["ne_ab"] = _try(lambda: bool(ta["v"] != tb["v"])).get("v", "raise")
            obs["neq_ab"] = _try(lambda: bool(ta["v"].__neq__(tb["v"]))).get("v", "raise")
            obs["ne_ba"] = _try(lambda: bool(tb["v"] != ta["v"])).get("v", "raise")
            obs["eq_dunder_ba"] = _try(lambda: bool(tb["v"].__eq__(ta["v"]))).get("v", "raise")
            obs["operands_same"] = (F.full_snapshot(ta["v"]) == snap_a and F.full_snapshot(tb["v"]) == snap_b)
    lks = []
    for nm in case["lookups"]:
        if not ta["ok"]:
            lks.append({"ok": False, "exc": "no-frame"})
            continue
        r = _try(lambda: ta["v"].get_col_feat(nm, return_stype=True))
        if r["ok"]:
            x, st = r["v"]
            lks.append({"ok": True, "stype": st.value, "feat": F.read_feat(x),
                        "plain_same": _try(lambda: F.read_feat(ta["v"].get_col_feat(nm)) == F.read_feat(x))["v"]})
        else:
            lks.append({"ok": False, "exc": r["exc"]})
    obs["lookups"] = lks
    return obs


def run(case):
    if case["kind"] == "allclose":
        import torch
        out = []
        for x, z, dt in case["pairs"]:
            tdt = torch.float64 if dt == "float64" else torch.float32
            out.append(bool(torch.allclose(torch.tensor([x], dtype=tdt), torch.tensor([z], dtype=tdt))))
        return {"decisions": out, "a": {"ok": True}}
    log, trace = [], []
    if case["kind"] != "reuse":
        obs = run_sub(case, None, log, trace)
        obs["mutated"] = log
        obs["cat_trace"] = trace[:4]
        return obs
    # multi-step: the objects of `env` are built once and REUSED by every check
    env, obs = [], {"subs": [], "mutated": log, "env": []}
    for e in case["env"]:
        r = _try(lambda: F.ev(e, env, log))
        obs["env"].append({"ok": r["ok"], "exc": r.get("exc"), "msg": r.get("msg")})
        env.append(r["v"] if r["ok"] else None)
        if not r["ok"]:
            return obs
    snaps = [F.full_snapshot(x) for x in env]
    for chk in case["checks"]:
        obs["subs"].append(run_sub(dict(chk, lookups=chk.get("lookups", [])), env, log, trace))
    obs["cat_trace"] = trace[:4]
    # the bound objects themselves must be what they were before the checks used them
    obs["env_same"] = [F.full_snapshot(x) == s0 for x, s0 in zip(env, snaps)]
    if obs["subs"]:                                   # summary fields used by stats / nontrivial_sig
        obs["a"] = obs["subs"][0]["a"]
        obs["eq_ab"] = [so.get("eq_ab") for so in obs["subs"]]
        obs["lookups"] = []
    return obs


# ------------------------------------------------------------------- oracle
DEMANDED = ("empty list", "column sets differ", "some parts have a target", "more than one part has a target",
            "duplicated column names", "row counts differ", "column counts differ",
            "feat_dict and col_names_dict", "columns of data for", " rows, frame has ",
            "y has ", "embedding widths differ", "dict keys differ")
# statement words backing each demanded rejection:
#   "mismatched column sets ... are rejected"   : column sets differ, column counts differ, embedding widths differ,
#                                                 dict keys differ (the same names over different data layouts; fix commits)
#   "duplicated column names ... are rejected"  : duplicated column names
#   "conflicting targets ... are rejected"      : some parts have a target / more than one part has a target
#   "empty lists are rejected"                  : empty list
#   "construction rejects frames whose parts disagree on the number of rows or columns":
#                                                 ' rows, frame has ', 'y has ', 'columns of data for', 'row counts differ'
#                                                 (the concatenated frame's parts disagree on rows), stype present in only
#                                                 one of feat_dict / col_names_dict (names without data, data without names)
# NOT backed (the current code raises; "raise or consistent"): a stype with no column ("no columns"), a 1-D feature tensor,
# an unsupported dim, storage kind / trailing shape mismatch in a row cat -- a raise or any readable frame is accepted and
# the Coq term is not compared when the implementation returned normally.


def demanded(msg):
    return any(d in msg for d in DEMANDED)


def strip_via(e):
    """the expression without copy / device-transfer wrappers"""
    if e is None:
        return None
    if e["op"] == "via":
        return strip_via(e["of"])
    if e["op"] == "sel":
        return dict(e, of=strip_via(e["of"]))
    if e["op"] == "cat":
        return dict(e, parts=[strip_via(p_) for p_ in e["parts"]])
    return e


def plain(case):
    return dict(case, a=strip_via(case["a"]), b=strip_via(case.get("b")))


def forms_of(e, acc):
    if e is None:
        return acc
    if e["op"] == "build":
        k = "ctor:" + e["frame"].get("ctor", "pos")
    elif e["op"] == "via":
        k = "via:" + e["how"]
    elif e["op"] == "cat":
        k = "cat:" + e.get("form", "list")
    else:
        k = None
    if k:
        acc[k] = acc.get(k, 0) + 1
    for sub_ in ([e["of"]] if e["op"] in ("sel", "via") else e.get("parts", [])):
        if sub_.get("op") != "ref":
            forms_of(sub_, acc)
    return acc


def kinds_of_expr(e):
    if e["op"] == "via":
        return kinds_of_expr(e["of"])
    if e["op"] == "build":
        ks = sorted({f["kind"] for f in e["frame"]["feats"]})
        return "+".join(ks) if ks else "featureless"
    if e["op"] == "sel":
        return kinds_of_expr(e["of"])
    ks = sorted({kinds_of_expr(p) for p in e["parts"]})
    return "|".join(ks) if ks else "none"


def pure_checks(case):
    """the checks of a multi-step case as ordinary single cases over pure expressions"""
    return [{"kind": "reuse-step", "as": chk["as"], "sub": case["sub"] + f"#{k}", "a": F.subst(chk["a"], case["env"]),
             "b": F.subst(chk["b"], case["env"]), "lookups": chk.get("lookups", []), "meta": {}}
            for k, chk in enumerate(case["checks"])]


def oracle(case, obs):
    if "harness_exc" in obs:
        return dict(key="harness-exc", what="harness failed to run the case: " + obs["harness_exc"], tb=obs.get("tb"))
    if case["kind"] == "allclose":
        from fractions import Fraction as Fr
        for (x, z, dt), got in zip(case["pairs"], obs["decisions"]):
            want = abs(Fr(x) - Fr(z)) <= Fr(1, 10 ** 8) + Fr(1, 10 ** 5) * abs(Fr(z))
            if got != want:
                return dict(key="primitive:allclose", what=f"torch.allclose({x!r}, {z!r}) [{dt}] = {got}, "
                            f"|x - z| <= atol + rtol*|z| is {want}", expected=want, observed=got)
        return None
    if obs.get("mutated"):
        m = obs["mutated"][0]
        return dict(key="cat-mutated-input",
                    what=f"{case['kind']}/{case['sub']}: torch_frame.cat(..., dim={m['dim']}) changed its input part "
                         f"{m['part']} (names / data / target / validity differ after the call)",
                    expected=m["before"], observed=m["after"])
    if case["kind"] == "reuse":
        for k, (e, eo) in enumerate(zip(case["env"], obs["env"])):
            if not eo["ok"]:
                try:
                    F.ref_ev(F.subst(e, case["env"]))
                except R.RefErr:
                    return None
                return dict(key="raises:reuse:env", what=f"reuse/{case['sub']}: building object {k} raised {eo['exc']} "
                            f"({eo['msg']}) on valid input", observed=eo)
        for k, (pc, so) in enumerate(zip(pure_checks(case), obs["subs"])):
            f = oracle(pc, dict(so, mutated=[]))
            if f is not None:
                f["what"] = f"after reusing the same parts (step {k}): " + f["what"]
                return f
        if not all(obs.get("env_same", [])):
            return dict(key="cat-mutated-input", what=f"reuse/{case['sub']}: an object bound once is not the same after "
                        "the concatenations that used it", observed=obs.get("env_same"))
        return None
    kind, sub = case.get("as", case["kind"]), case["sub"]
    if kind == "boundary":
        kind = "perturb" if sub.split(":")[0] in ("zero-rows", "one-row", "rows-0-vs-1") else \
            ("colpart" if (sub.endswith(":cols") or sub.startswith("nan-target-cols")) else "rowpart")
        sub = "boundary:" + sub
    kd = kinds_of_expr(case["a"])
    fl = ":featureless" if kd.replace("|", "").replace("featureless", "") == "" else ""
    # --- expression a against the nested-list reference
    try:
        ra = F.ref_ev(case["a"])
        ra_err = None
    except R.RefErr as ex:
        ra, ra_err = None, str(ex)
    oa = obs["a"]
    if ra_err is not None:
        if oa["ok"] and not demanded(ra_err) and oa.get("frame") is None:
            return dict(key=f"unreadable:{kind}", what=f"{kind}/{sub}: accepted input ({ra_err}) gave a frame that cannot be "
                        f"read ({oa.get('read_exc')})")
        if oa["ok"] and demanded(ra_err):
            return dict(key=f"accepts:{sub}", what=f"{kind}/{sub}: the library accepted input the property requires it "
                        f"to reject ({ra_err})", expected="raise", observed=oa.get("frame"))
        return None
    if not oa["ok"]:
        cls = ("roundtrip" if kind in ("rowpart", "colpart") else "raises")
        return dict(key=f"{cls}:{kind}{fl}:raises", what=f"{kind}/{sub} on {kd}: the library raised {oa['exc']} "
                    f"({oa['msg']}) on valid input", expected=ra, observed=oa)
    if oa.get("frame") is None:
        return dict(key=f"unreadable:{kind}", what=f"{kind}/{sub}: result cannot be read ({oa.get('read_exc')})")
    if oa.get("type") != "TensorFrame":
        return dict(key="wrong-type", what=f"result is a {oa.get('type')}")
    if not F.obs_same(oa["frame"], ra):
        what = {"rowpart": "row concatenation does not hold the rows of the parts in order",
                "colpart": "column concatenation does not hold the columns of the parts with names and data paired",
                }.get(kind, "the frame differs from its description")
        dim = case["a"].get("dim") if case["a"]["op"] == "cat" else None
        return dict(key=f"cat-wrong:dim{dim}{fl}" if dim is not None else f"frame-wrong:{kind}",
                    what=f"{kind}/{sub} on {kd}: {what}", expected=ra, observed=oa["frame"])
    if oa.get("props") != F.ref_props(ra):
        return dict(key="props-wrong", what=f"{kind}/{sub}: num_rows / num_cols / stypes / is_empty / len do not describe "
                    "the frame", expected=F.ref_props(ra), observed=oa.get("props"))
    if any(v is True for v in oa.get("eq_other", [])):      # False or a raise; never equal
        return dict(key="eq-nonframe", what=f"{kind}/{sub}: a TensorFrame compared with a non-frame is not simply unequal",
                    expected=False, observed=oa.get("eq_other"))
    if oa.get("eq_self") is not True and (ra["y"] is None or all(v is not None for v in ra["y"])):
        return dict(key="eq-wrong:self", what=f"{kind}/{sub}: a frame is not equal to itself", expected=True,
                    observed=oa.get("eq_self"))
    # --- equality
    if case["b"] is not None:
        try:
            rb = F.ref_ev(case["b"])
        except R.RefErr:
            return None
        ob = obs["b"]
        if not ob["ok"]:
            return dict(key=f"raises:{kind}:b", what=f"{kind}/{sub}: building the second operand raised {ob['exc']}",
                        expected=rb, observed=ob)
        if not F.obs_same(ob["frame"], rb):
            return dict(key=f"frame-wrong:{kind}:b", what=f"{kind}/{sub}: second operand differs from its description",
                        expected=rb, observed=ob["frame"])
        want, why = F.ref_equal(ra, rb)
        if not obs.get("operands_same", True):
            return dict(key="eq-modifies", what="== modified one of its operands")
        if isinstance(obs.get("eq_ab"), bool) and isinstance(obs.get("eq_ba"), bool) and (
                obs.get("ne_ab") is not (not obs["eq_ab"]) or obs.get("neq_ab") is not (not obs["eq_ab"])
                or obs.get("ne_ba") is not (not obs["eq_ba"]) or obs.get("eq_dunder_ba") is not obs["eq_ba"]):
            return dict(key="ne-inconsistent", what=f"{kind}/{sub}: a != b / a.__neq__(b) is not the negation of a == b",
                        observed={k_: obs.get(k_) for k_ in ("eq_ab", "ne_ab", "neq_ab")})
        if want is not None:
            for tag in ("eq_ab", "eq_ba"):
                got = obs.get(tag)
                if got is not want:
                    if kind in ("rowpart", "colpart"):
                        key = f"roundtrip:{'rows' if kind == 'rowpart' else 'cols'}{fl}"
                        what = (f"{kind}/{sub} on {kd}: cat(parts) == frame is {got} although the concatenation holds "
                                f"exactly the rows/columns of the frame ({why})")
                    else:
                        key = f"eq-wrong:{sub}"
                        what = (f"perturb/{sub} on {kd}: == returned {got}, the frames are "
                                f"{'equal' if want else 'different'} ({why})")
                    return dict(key=key, what=what, expected=want, observed={"a": oa["frame"], "b": ob["frame"],
                                                                               "eq_ab": obs.get("eq_ab"),
                                                                               "eq_ba": obs.get("eq_ba")})
            if kind in ("rowpart", "colpart") and want is not True:
                return dict(key="oracle-bug", what="reference partition does not reassemble", expected=rb, observed=ra)
    # --- lookups
    for nm, lk in zip(case["lookups"], obs["lookups"]):
        es, ecol = F.ref_col(ra, nm)
        if es is None:
            if lk["ok"]:
                return dict(key="lookup-accepts-missing", what=f"get_col_feat({nm!r}) returned data for an absent column")
            continue
        if not lk["ok"]:
            return dict(key=f"lookup-raises:{ecol['kind']}", what=f"get_col_feat({nm!r}) raised {lk['exc']} on {kd}",
                        expected=[es, ecol])
        if lk["stype"] != es or lk["feat"] != ecol or lk.get("plain_same") is not True:
            return dict(key=f"lookup-wrong:{ecol['kind']}",
                        what=f"get_col_feat({nm!r}) does not return the data of that column ({sub}, {kd})",
                        expected=[es, ecol], observed=lk)
    return None


def shrink(case):
    if case["kind"] == "allclose":
        for k in range(len(case["pairs"])):
            if len(case["pairs"]) > 1:
                yield dict(case, pairs=case["pairs"][:k] + case["pairs"][k + 1:])
        return
    if case["kind"] != "reuse":
        case = plain(case)
    if case["kind"] == "reuse":
        for k in range(len(case["checks"])):
            if len(case["checks"]) > 1:
                yield dict(case, checks=case["checks"][:k] + case["checks"][k + 1:])
        return
    a = case["a"]
    if a["op"] == "cat" and len(a["parts"]) > 1 and case["kind"] == "malformed":
        for k in range(len(a["parts"])):
            yield dict(case, a=dict(a, parts=a["parts"][:k] + a["parts"][k + 1:]))
    if case["lookups"] and len(case["lookups"]) > 1:
        for k in range(len(case["lookups"])):
            yield dict(case, lookups=case["lookups"][:k] + case["lookups"][k + 1:])

    # drop one feature everywhere (same stype in every build of the expression)
    def stypes(e):
        if e is None:
            return set()
        if e["op"] == "build":
            return {f["stype"] for f in e["frame"]["feats"]}
        if e["op"] == "sel":
            return stypes(e["of"])
        out = set()
        for p in e["parts"]:
            out |= stypes(p)
        return out

    def drop(e, st):
        if e is None:
            return None
        if e["op"] == "build":
            fr = e["frame"]
            feats = [f for f in fr["feats"] if f["stype"] != st]
            g = dict(fr, feats=feats)
            if not feats and fr["num_rows"] is None:
                g["num_rows"] = fr["n"]
            return {"op": "build", "frame": g}
        if e["op"] == "sel":
            return dict(e, of=drop(e["of"], st))
        return dict(e, parts=[drop(p, st) for p in e["parts"]])

    sts = stypes(case["a"]) | stypes(case["b"])
    if len(sts) > 1 and case["kind"] in ("rowpart", "perturb", "lookup"):
        for st in sorted(sts):
            yield dict(case, a=drop(case["a"], st), b=drop(case["b"], st),
                       lookups=[n for n in case["lookups"]])


def nontrivial_sig(case, obs):
    if not isinstance(obs, dict) or "a" not in obs:
        return None
    if case["kind"] == "allclose":
        return json.dumps(["allclose", case["pairs"][0]])
    case = plain(case)
    oa = obs["a"]
    kd = kinds_of_expr(case["a"])
    fr = oa.get("frame") or {}
    nontriv = (not oa["ok"]) or fr.get("len", 0) > 0 or "eq_ab" in obs
    if kd in ("none",) and case["sub"] != "empty-list":
        nontriv = False
    if not nontriv:
        return None
    nparts = len(case["a"]["parts"]) if case["a"]["op"] == "cat" else 0
    shapes = []
    if case["a"]["op"] == "cat":
        for p in case["a"]["parts"]:
            if p["op"] == "sel":
                shapes.append(p["idx"]["t"])
            elif p["op"] == "build":
                shapes.append(len(p["frame"]["feats"]))
    return json.dumps([case["kind"], case["sub"], kd, nparts, shapes, oa["ok"], fr.get("len"), obs.get("eq_ab"),
                       [l["ok"] for l in obs.get("lookups", [])]])


def stats(cases, obss):
    d = {"total": 0, "kinds": {}, "subkinds": {}, "storage": {}, "parts": {}, "rejections": 0, "eq_true": 0,
         "eq_false": 0, "featureless_exprs": 0, "lookups": 0, "zero_row_parts": 0, "forms": {}, "ne_checks": 0,
         "nonframe_eq_checks": 0}
    for c, o in zip(cases, obss):
        if c is None or not isinstance(o, dict) or "a" not in o:
            continue
        if c["kind"] == "allclose":
            d["allclose_pairs"] = d.get("allclose_pairs", 0) + len(c["pairs"])
            continue
        forms_of(c["a"], d["forms"])
        forms_of(c.get("b"), d["forms"])
        d["ne_checks"] += "ne_ab" in o
        d["nonframe_eq_checks"] += "eq_other" in o["a"]
        c = plain(c)
        d["total"] += 1
        d["kinds"][c["kind"]] = d["kinds"].get(c["kind"], 0) + 1
        ks = c["kind"] + "/" + c["sub"]
        d["subkinds"][ks] = d["subkinds"].get(ks, 0) + 1
        kd = kinds_of_expr(c["a"])
        for k in set(kd.replace("|", "+").split("+")):
            d["storage"][k] = d["storage"].get(k, 0) + 1
        d["featureless_exprs"] += kd.replace("|", "").replace("featureless", "") == ""
        if c["a"]["op"] == "cat":
            n = len(c["a"]["parts"])
            d["parts"][n] = d["parts"].get(n, 0) + 1
        if c["kind"] == "rowpart":
            d["zero_row_parts"] += any(len(p) == 0 for p in c["meta"]["poss"])
        d["rejections"] += not o["a"]["ok"]
        if c["kind"] != "malformed":                     # outside the deliberate rejection families
            d["nonmalformed_total"] = d.get("nonmalformed_total", 0) + 1
            d["nonmalformed_rejections"] = d.get("nonmalformed_rejections", 0) + (not o["a"]["ok"])
        eqs = o.get("eq_ab") if isinstance(o.get("eq_ab"), list) else [o.get("eq_ab")]
        d["eq_true"] += sum(e is True for e in eqs)
        d["eq_false"] += sum(e is False for e in eqs)
        d["lookups"] += len(c["lookups"])
    return d


# ------------------------------------------------------------------ Coq side
def expr_modelable(e):
    if e is None:
        return True
    if e["op"] == "build":
        fr = e["frame"]
        for f in fr["feats"]:
            if f.get("ndim1"):
                return False
            if f["kind"] != "dense" and "ncols" in f:
                return False
        return True
    if e["op"] in ("sel", "via"):
        return expr_modelable(e["of"])
    return all(expr_modelable(p) for p in e["parts"])


def eq_code(v):
    if v is True:
        return 1
    if v is False:
        return 0
    if isinstance(v, str):
        return 2
    return 3


def coq_lobs(lk):
    if not lk["ok"]:
        return "LErr"
    return f"(LCol {F.coq_stype(lk['stype'])} {F.coq_featobs(lk['feat'])})"


def views_of(fr):
    """(stype, kind, payload) of the ragged features of a description"""
    return [(f["stype"], f["kind"], f) for f in fr["feats"] if f["kind"] != "dense"]


def hyp_terms(case):
    """instances of the ragged-cat hypotheses of Props/C08.v occurring in this case"""
    out = []
    case = plain(case)
    if case["kind"] == "rowpart" and case["a"]["parts"]:
        fr = case["a"]["parts"][0]["of"]["frame"]
        for st, kind, f in views_of(fr):
            mats = [f["comps"][k] for k in f["keys"]] if kind == "dict" else [f["cells"]]
            for m in mats:
                ms = [[m[i] for i in pos] for pos in case["meta"]["poss"]]
                c = len(f["names"])
                if kind == "met":
                    ws = C.clist([len(x) for x in m[0]], C.cnat)
                    out.append(f"c08_hyp_rows_met {ws} {C.clist(ms, F.coq_cells)}")
                else:
                    out.append(f"c08_hyp_rows_mnt {c}%nat {C.clist(ms, F.coq_cells)}")
    if case["kind"] == "colpart":
        full = case["b"]["frame"]
        n = full["n"]
        for f, cuts in zip(full["feats"], case["meta"]["chunks"]):
            if f["kind"] == "dense":
                continue
            mats = [f["comps"][k] for k in f["keys"]] if f["kind"] == "dict" else [f["cells"]]
            for m in mats:
                pieces = [(cuts[j], cuts[j + 1]) for j in range(len(cuts) - 1) if cuts[j + 1] > cuts[j]]
                if f["kind"] == "met":
                    items = C.clist(pieces, lambda ab: f"({C.clist([len(x) for x in m[0][ab[0]:ab[1]]], C.cnat)}, "
                                    f"{F.coq_cells([row[ab[0]:ab[1]] for row in m])})")
                    out.append(f"c08_hyp_cols_met {n}%nat {items}")
                else:
                    items = C.clist(pieces, lambda ab: f"({ab[1] - ab[0]}%nat, "
                                    f"{F.coq_cells([row[ab[0]:ab[1]] for row in m])})")
                    out.append(f"c08_hyp_cols_mnt {n}%nat {items}")
    return out


def store_terms(obs):
    """executable form of Props/C08.v cat_col_names_inputs_unchanged on every column cat this case performed"""
    out = []
    for t in obs.get("cat_trace", []):
        if t["dim"] != 1 or not t["before"]:
            continue
        res = "None" if t["result"] is None else f"(Some {F.coq_names(t['result'])})"
        out.append(f"c08_store_check {C.clist(t['before'], F.coq_names)} {C.clist(t['after'], F.coq_names)} {res}")
    return out


def coq_term(case, obs):
    if case["kind"] == "allclose":
        ts = []
        for (x, z, dt), got in zip(case["pairs"], obs["decisions"]):
            (xn, xd), (zn, zd) = float(x).as_integer_ratio(), float(z).as_integer_ratio()
            ts.append(f"c08_allclose_check {C.cz(xn)} {xd}%positive {C.cz(zn)} {zd}%positive {C.cbool(got)}")
        return "(" + " && ".join(ts) + ")"
    t = coq_term_main(case, obs)
    if t is None:
        return None
    st = store_terms(obs)
    return "(" + " && ".join([t] + st) + ")" if st else t


def undemanded_accept(e, ob):
    """the current code raises here without backing from the statement, and the implementation returned normally"""
    if e is None or not ob or not ob.get("ok"):
        return False
    try:
        F.ref_ev(e)
    except R.RefErr as ex:
        return not demanded(str(ex))
    return False


def coq_term_main(case, obs):
    if not isinstance(obs, dict) or "a" not in obs:
        return None
    if case["kind"] != "reuse" and (undemanded_accept(case["a"], obs.get("a")) or undemanded_accept(case.get("b"), obs.get("b"))):
        return None
    if case["kind"] == "reuse":
        # the model is pure: reuse of an object is re-evaluation of the expression it is bound to
        if len(obs["subs"]) != len(case["checks"]):
            return None
        terms = [coq_term_main(pc, so) for pc, so in zip(pure_checks(case), obs["subs"])]
        if any(t is None for t in terms):
            return None
        return "(" + " && ".join(terms) + ")"
    if not expr_modelable(case["a"]) or not expr_modelable(case["b"]):
        return None
    if "tol-below" in case["sub"] or "tol-above" in case["sub"]:
        return None      # off the 1/8 grid: `close` is a parameter of the model; torch's decision is judged by the oracle
    oa = obs["a"]
    if oa["ok"] and oa.get("frame") is None:
        return None
    a = F.coq_expr(case["a"])
    foa = F.coq_obs(oa["frame"] if oa["ok"] else None)
    if case["b"] is not None:
        ob = obs["b"]
        if ob["ok"] and ob.get("frame") is None:
            return None
        b = f"(Some {F.coq_expr(case['b'])})"
        fob = F.coq_obs(ob["frame"] if ob["ok"] else None)
        eab, eba = eq_code(obs.get("eq_ab")), eq_code(obs.get("eq_ba"))
    else:
        b, fob, eab, eba = "None", "FOErr", 3, 3
    names = C.clist(case["lookups"], C.cstr)
    lks = C.clist(obs["lookups"], coq_lobs)
    term = f"c08_check {a} {b} {names} {foa} {fob} {eab}%nat {eba}%nat {lks}"
    hyps = hyp_terms(case)
    return "(" + " && ".join([term] + hyps) + ")"
