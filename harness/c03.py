"""C03 — column statistics equal their definitions and define the category index space."""
from __future__ import annotations

import calendar
import copy
import datetime as dt
import json
import math
import os
from fractions import Fraction

os.environ.setdefault("TQDM_DISABLE", "1")

from harness import common as C  # noqa: E402
from harness import dfgen as G  # noqa: E402

PROP = "C03"
# Clause-by-clause coverage of the property text: clause -> oracle key(s) that judge it <- generator kind(s) that exercise it.
# Keys are prefixed direct:<stype>: (compute_col_stats called on the series) or stats:<stype>[:target]: (dataset.col_stats).
# Every raise / assert / try-except / early return / special case / dtype cast of the anchored code (stats.py, the
# statistics part of Dataset.materialize) : generator kind that reaches it -> oracle key that notices if it is removed,
# loosened or replaced by a default.
ERROR_PATHS = [
    "_flatten: all sequences empty -> empty float array (no second hstack) : sequence_numerical/allempty -> *:sequence_numerical:default, *:raises",
    "_flatten: np.hstack dtype follows the cells (int64 for lists of Python ints) : sequence_numerical bigint -> *:mean (sum wrap), *:std",
    "MEAN / STD / QUANTILES: isfinite mask; `not mask.any()` -> NaN : NaN / inf inside sequences, onlyinf / allnan / allmissing columns, +/-inf in every float backing -> *:default, *:mean, *:std, *:quantiles",
    "MEAN: np.mean accumulates in float64 also for integer data : int64 around 2^62 (sum beyond 2^63), int32, uint8 -> *:mean, Coq int_mean_ok (theorems int64_accumulation_*)",
    "STD: population (ddof 0), no snapping : scales 2^-40 .. 2^40 and 1 + k 2^-30, constant columns -> *:std",
    "QUANTILES: q list and linear method : every numerical column, ties, even / odd n, single value -> *:quantiles",
    "COUNT / MULTI_COUNT: value_counts(ascending=False) on the dropna'd series; split_by_sep -> set -> explode -> dropna : ties, duplicated tokens, blank / missing cells -> *:count, *:order, *:extra, *:missing, *:dup",
    "YEAR_RANGE / NEWEST / OLDEST / MEDIAN: iloc[-1], iloc[0], iloc[len // 2] of the sorted series; to_tensor nan_to_num(-1).to(long) : unsorted, tied, even / odd counts -> *:year_range, *:oldest_time, *:newest_time, *:median_time",
    "EMB_DIM: len(ser.iloc[0]) (position, not label) : offset / permuted / string / duplicated index labels -> *:emb_dim",
    "compute_col_stats: inf mask for numerical (any float backing) : +/-inf cells -> *:mean ...; TypeError for a non-numeric numerical column : retry histories (first attempt), otherwise outside the quantifier",
    "compute_col_stats: to_datetime(errors='coerce') before the all-null test; sort_values; `isnull().all()` -> defaults : allgarbage / allmissing / single -> *:default, *:raises",
    "compute_col_stats: dropna before compute : missing cells in every stype -> *:count, *:median_time, *:mean",
    "materialize: early return when already materialized : not a statistics attempt (by design); path given and file exists -> load : cache-stats",
    "materialize: loop over col_to_stype overwriting _col_stats (shared dict, partial after a raise) : histories retry / colselect -> every key on the final frame, Coq history_ok",
    "materialize: binary-target re-sort only when len(index) == 2 and col is the categorical target : binary / multi-class / numerical targets -> stats:categorical:target:target-order, :order",
    "materialize: split_col plays no role in the statistics : split kinds -> *:mean ..., frame-columns, stats-columns",
    "_update_col_stats: only when an embedding feature exists; offset differences; int() cast : embedding + stub children with different widths -> stats:*:emb_dim, Coq update_col_stats_ok",
]

CLAUSES = [
    "mean / population std / five quantiles over the non-missing finite values, numerical and sequence columns -> "
    "*:mean, *:std, *:quantiles, *:keys <- numerical/{usable,single} x {dyadic,int,const,skew,ties,coarse} x inf/NaN rates "
    "x float64 / int64 dtype; sequence_numerical/{usable,single} with NaN and inf inside sequences",
    "every distinct value with its exact count, non-increasing, categorical and multicategorical -> *:dup, *:extra, "
    "*:count, *:missing, *:order, *:shape <- categorical / multicategorical usable x {tie,skew,uniform,random} "
    "frequencies, cells empty / missing / with duplicated tokens, str and object dtype, sep string / list cells",
    "timestamps: year range, oldest, newest, upper median -> *:year_range, *:oldest_time, *:newest_time, *:median_time "
    "<- timestamp/{usable,single}, unsorted, tied, unparseable and missing entries, even / odd counts, seven formats",
    "embeddings: the vector width -> *:emb_dim <- embedding widths 1-6, text_embedded / image_embedded stubs "
    "(EMB_DIM written by _update_col_stats); text_tokenized columns get no statistics -> stats:text_tokenized:keys",
    "a column with no usable value gets the neutral defaults instead of an error -> *:default, *:raises, "
    "materialize-raises:* <- kinds allmissing / onlyinf / allempty / allnan / allgarbage",
    "two-class categorical target listed in sorted order -> stats:categorical:target:target-order <- binary targets "
    "whose frequency order differs from the sorted order; multi-class and numerical targets",
    "the i-th listed category is the one encoded as index i -> index-space:<stype> <- every category column and row",
    "statistics are those of the frame that is materialized, however the Dataset object was used before -> all keys "
    "above on histories retry / colselect; Coq history_ok",
    # Backing of every must-not-raise key (there is no must-raise key in this module; the first attempt of a retry
    # history may raise or not -- the statement demands nothing about a text cell in a numerical column):
    "*:raises / materialize-raises:* <- 'A column with no usable value gets the documented neutral defaults instead of "
    "an error' and 'the statistics computed at materialization equal their definitions' (a raise computes nothing)",
    "constructor and call forms do not matter -> all keys above, frame-columns, stats-columns, cache-stats <- split "
    "column kinds, sep / time-format / embedder / tokenizer configuration as dict, partial dict, plain value; "
    "compute_col_stats positional / keyword / defaulted; materialize(device, path) forms",
]
HEADER = "Require Import Coq.QArith.QArith PF.Lib.QStats PF.Model.Stats.\nOpen Scope Z_scope."
MODEL_TARGETS = ["Model/Stats.vo"]
SHARD = 60
RULE = ("(45 % of the datasets are built with a split column (0/1/2, incl. no train rows / all train); separators, time formats and embedder configurations are passed as complete dicts, partial dicts or one plain value; 30 % of the frames are materialized at the end of a HISTORY on the same Dataset object: a failed first materialize followed by row removal + dtype repair + retry, or a column-selected copy materialized first and rows removed afterwards; the statistics must be those of the frame finally materialized) materialized frames of 1-14 rows with 1-3 feature columns (+ optional numerical / two-class / multi-class "
        "target) drawn from generators that stratify the value multiset (dyadic / integer / constant / skewed / single "
        "value / only-inf / all-missing / tied and skewed category frequencies / duplicated, empty and missing "
        "multicategorical cells / unsorted, tied, unparseable and missing timestamps / sequences with NaN and inf or "
        "all empty / embeddings incl. stub-embedded text and images); distinct = distinct (stype, value-multiset shape "
        "signature: n, #usable, #distinct, tie pattern of counts, parity) per column; non-trivial = the column has at "
        "least one usable value or is one of the no-usable-value kinds the property names")
TRUSTED = [
    "Coq 8.16.1 kernel + vm_compute",
    "hand-written model coq/Model/Stats.v of stats.py (compute_col_stats, StatType.compute, _flatten, defaults) and of "
    "Dataset.materialize's binary-target re-sort and _update_col_stats, tied to /repo by this run's correspondence",
    "modelled primitives: numpy mean/std/quantile(linear) as exact rational definitions (Lib/QStats.v); pandas "
    "value_counts as a checked relation (valid_count_order), dropna/isnull/mask/sort_values; to_datetime(coerce) as a "
    "black box cell -> (epoch second, seven calendar components) or NaT; string splitting of multicategorical cells "
    "(C01) -- the model receives token lists",
    "harness/c03.py: generator, exact-Fraction oracle, Coq literal printer (doubles shipped as mantissa*2^exp)",
]
ASSUMPTIONS = [
    "numbers are dyadic rationals with <= 8 fractional bits and |x| <= 64, so numpy's sum, mean and quantile "
    "interpolation are exact up to the final correctly-rounded division: mean and quantiles are compared exactly "
    "(mean: nearest double of the exact rational), std through exact fractions with relative tolerance 1e-12 on the variance",
    "category values are shipped to Coq as their rank in the Python-sorted list of the column's distinct values",
    "the count clause is checked, not predicted: there is no model of pandas value_counts; the proved checker "
    "valid_count_order is applied to the implementation's answer on every case (theorems are about the checker)",
    "no input is REQUIRED to raise: in a retry history the first materialize (text in a numerical column) may raise or "
    "succeed; only the statistics of the frame finally materialized are judged, and the Coq history model is told by the "
    "observation whether that attempt completed",
    "columns of pandas `category` dtype (unobserved categories listed with count 0) and category columns mixing "
    "int and str values are outside the quantifier and never drawn",
    "numerical columns held as float32 / Float32 / float16 (numpy computes in that type): values are exactly "
    "representable, statistics are compared within 4 eps of the largest magnitude; in Coq only which statistics are NaN",
    "std is accepted within relative 1e-12 on the variance or within 8 ulps of the largest magnitude (conditioning of "
    "a tiny spread around a large value); data are drawn at scales 2^-40 .. 2^40 and as 1 + k 2^-30",
    "timestamp strings with time_format=None are ISO ('%Y-%m-%d %H:%M:%S'); sub-second and tz-aware timestamps are not drawn",
]

TOL = Fraction(1, 10 ** 12)
ALL_INDEX = ["range", "range", "offset", "perm", "string", "dup"]


# ------------------------------------------------------------------ generation
def dy(rng, bits=8, lo=-64, hi=64):
    return rng.randint(lo * (1 << bits), hi * (1 << bits)) / (1 << bits)


def gen_numbers(rng, k, kind):
    if kind == "const":
        c = dy(rng)
        return [c] * k
    if kind == "int":
        return [float(rng.randint(-20, 20)) for _ in range(k)]
    if kind == "skew":
        base = dy(rng, 3)
        return [base if rng.chance(0.75) else dy(rng) for _ in range(k)]
    if kind == "ties":
        pool = [dy(rng, 2) for _ in range(rng.randint(1, 3))]
        return [rng.pick(pool) for _ in range(k)]
    if kind == "coarse":
        return [dy(rng, 1, -8, 8) for _ in range(k)]
    if kind == "const0":
        c = dy(rng, 1, -8, 8)
        return [c] * k
    if kind == "int8":
        return [float(rng.randint(-8, 8)) for _ in range(k)]
    return [dy(rng) for _ in range(k)]


NUM_KINDS = [(6, "dyadic"), (2, "int"), (1, "const"), (2, "skew"), (2, "ties"), (1, "coarse")]
# scale of the data: x * 2^e (exact in binary floating point, so mean and quantiles stay exactly comparable), or a tiny
# spread around 1 (1 + k * 2^-30: population std around 1e-9 .. 1e-8)
SCALES = [(10, 0), (2, -40), (1, -30), (2, 40), (1, 30), (2, "offset")]
EPS = {"float32": 2.0 ** -23, "Float32": 2.0 ** -23, "float16": 2.0 ** -10}


def col_eps(col):
    """0: statistics compared exactly; > 0: the column's values are not exactly summable in float64 (reduced-precision
    float types, int64 values beyond 2^53): compared within 4 eps of the largest magnitude"""
    if col.get("bigint"):
        return 2.0 ** -50
    return EPS.get(col.get("np_dtype"), 0.0)


def rescale(rng, vals, scale):
    if scale == 0:
        return vals
    if scale == "offset":
        return [1.0 + float(int(v * 256) % 61) * 2.0 ** -30 for v in vals]
    return [v * 2.0 ** scale for v in vals]


def base_col(name, st):
    return {"name": name, "stype": st, "dtype": "object", "sep": None, "fmt": None, "width": None}


def gen_num_col(rng, name, n, for_target=False, shared=None):
    col = base_col(name, "numerical")
    col["dtype"] = "float"
    shape = "usable" if for_target else rng.wpick([(12, "usable"), (2, "single"), (1, "allmissing"), (1, "onlyinf")])
    backing = rng.wpick([(12, "float64"), (2, "float32"), (2, "float16"), (2, "Float64"), (2, "Float32"),
                         (2, "bigint"), (1, "int32"), (1, "uint8")])
    if backing in ("bigint", "int32", "uint8"):
        # integer-backed columns: no missing cells, no inf; `bigint`: int64 values around 2^62 whose TOTAL passes 2^63
        # (exactly representable as floats: multiples of 1024), e.g. nanosecond-epoch ids
        if backing == "bigint":
            vals = [float(2 ** 52 - rng.randint(0, 4000)) * 1024 * rng.pick([1, 1, 1, -1] if rng.chance(0.2) else [1])
                    for _ in range(n)]
        elif backing == "int32":
            vals = [float(rng.randint(-2 ** 30, 2 ** 30)) for _ in range(n)]
        else:
            vals = [float(rng.randint(0, 255)) for _ in range(n)]
        col.update(cells=vals, gen="usable", scale=0, np_dtype="int64" if backing == "bigint" else backing,
                   bigint=backing == "bigint")
        return col
    if backing in ("float32", "float16", "Float32"):
        vals = gen_numbers(rng, n, rng.pick(["coarse", "coarse", "const0", "int8"]))   # exactly representable in float16
        col["scale"] = 0
    else:
        col["scale"] = rng.wpick(SCALES)
        vals = rescale(rng, gen_numbers(rng, n, rng.wpick(NUM_KINDS)), col["scale"])
    mp = rng.pick([0.0, 0.0, 0.2, 0.5])
    ip = 0.0 if for_target else rng.pick([0.0, 0.0, 0.15, 0.4])
    if backing != "float64" and not for_target:
        ip = rng.pick([0.15, 0.3, 0.5])                 # +/-inf in every float backing pandas offers
    cells = []
    for v in vals:
        if rng.chance(mp) and not for_target:
            cells.append(None)
        elif rng.chance(ip):
            cells.append(rng.pick(["inf", "-inf"]))
        else:
            cells.append(v)
    if shape == "single":
        keep = rng.randrange(n)
        cells = [vals[i] if i == keep else rng.pick([None, None, "inf", "-inf"]) for i in range(n)]
    elif shape == "allmissing":
        cells = [None] * n
    elif shape == "onlyinf":
        cells = [rng.pick([None, "inf", "-inf", "inf"]) for _ in range(n)]
    col["cells"] = cells
    col["gen"] = shape
    if backing != "float64":
        col["np_dtype"] = backing
    elif all(isinstance(c, float) and c == int(c) and abs(c) < 2 ** 50 for c in cells) and rng.chance(0.6):
        col["np_dtype"] = "int64"               # an integer-valued column without missing cells held as int64
    return col


def gen_seq_col(rng, name, n, shared=None):
    col = base_col(name, "sequence_numerical")
    shape = rng.wpick([(10, "usable"), (2, "allempty"), (2, "allnan"), (1, "allmissing"), (1, "single"), (2, "bigint")])
    if shape == "bigint":
        # every non-missing cell is a non-empty list of large Python ints (np.hstack gives an int64 array)
        cells = [None if rng.chance(0.2) else [(2 ** 52 - rng.randint(0, 4000)) * 1024 for _ in range(rng.randint(1, 4))]
                 for _ in range(n)]
        if all(c is None for c in cells):
            cells[0] = [2 ** 62, 2 ** 62 - 1024, 2 ** 62 - 4096]
        col.update(cells=cells, nan_kind="none", gen="usable", scale=0, bigint=True)
        return col
    vals_kind = rng.wpick(NUM_KINDS)
    col["scale"] = rng.wpick(SCALES)
    mp = rng.pick([0.0, 0.2, 0.5])
    cells = []
    for _ in range(n):
        if shape == "allmissing" or (rng.chance(mp) and shape != "allmissing"):
            cells.append(None)
            continue
        k = rng.wpick([(2, 0), (3, 1), (3, 2), (2, 3), (1, 5)])
        if shape == "allempty":
            cells.append([])
        elif shape == "allnan":
            cells.append([rng.pick([None, None, "inf", "-inf"]) for _ in range(k)])
        else:
            xs = rescale(rng, gen_numbers(rng, k, vals_kind), col["scale"])
            cells.append([None if rng.chance(0.12) else (rng.pick(["inf", "-inf"]) if rng.chance(0.08) else x)
                          for x in xs])
    if shape == "single":
        cells = [rng.pick([None, [], [None], ["inf"]]) for _ in range(n)]
        one = rescale(rng, [dy(rng)], col["scale"])[0]
        cells[rng.randrange(n)] = [None, one] if rng.chance(0.5) else [one]
    col["cells"] = cells
    col["nan_kind"] = rng.pick(["none", "nan"])
    col["gen"] = shape
    return col


def freq_plan(rng, k, n):
    """Weights producing ties, skew or uniform category frequencies."""
    style = rng.pick(["tie", "skew", "uniform", "random"])
    if style == "tie":
        return [rng.pick([1, 2]) for _ in range(k)], style
    if style == "skew":
        return [8] + [1] * (k - 1), style
    if style == "uniform":
        return [1] * k, style
    return [rng.randint(1, 5) for _ in range(k)], style


def exact_counts_cells(rng, pool, n, style):
    """Cells with (nearly) prescribed counts so that ties really occur."""
    if style in ("tie", "uniform"):
        cells = [pool[i % len(pool)] for i in range(n)]
        rng.shuffle(cells)
        return cells
    return None


def gen_cat_col(rng, name, n, for_target=None, shared=None):
    col = base_col(name, "categorical")
    vk = rng.wpick([(5, "str"), (2, "int")])
    if for_target == "binary":
        k = 2
    elif for_target == "multi":
        k = rng.randint(3, 5)
    else:
        k = rng.randint(1, 6)
    pool = rng.sample(G.WORDS + ["B", "a b", "zz", "A"], k) if vk == "str" else rng.sample(range(-3, 12), k)
    col["dtype"] = rng.pick(["object", "str"]) if vk == "str" else "object"
    weights, style = freq_plan(rng, k, n)
    cells = exact_counts_cells(rng, pool, n, style)
    if cells is None:
        cells = [rng.wpick(list(zip(weights, pool))) for _ in range(n)]
    shape = "usable"
    if for_target:
        # >= 2 classes present, no missing labels
        if n >= 2:
            cells[0], cells[1] = pool[0], pool[1]
        if for_target == "binary" and n >= 3 and rng.chance(0.7):
            # make the frequency order differ from the sorted order
            hi = max(pool)
            cells = [hi if (i != 1 and rng.chance(0.8)) else min(pool) for i in range(n)]
            cells[0], cells[1] = hi, min(pool)
    else:
        shape = rng.wpick([(12, "usable"), (1, "allmissing"), (1, "single")])
        mp = rng.pick([0.0, 0.0, 0.2, 0.5])
        cells = [None if rng.chance(mp) else c for c in cells]
        if shape == "allmissing":
            cells = [None] * n
        elif shape == "single":
            keep = rng.randrange(n)
            cells = [c if i == keep else None for i, c in enumerate(cells)]
            if cells[keep] is None:
                cells[keep] = pool[0]
    col["cells"] = cells
    col["nan_kind"] = rng.pick(["none", "nan"])
    col["gen"] = shape + "/" + style
    return col


def gen_multi_col(rng, name, n, shared=None):
    col = base_col(name, "multicategorical")
    use_sep = rng.chance(0.6) if not (shared and "sep" in shared) else shared["sep"] is not None
    pool = rng.sample(G.TOKENS, rng.randint(1, 6))
    shape = rng.wpick([(12, "usable"), (1, "allmissing"), (2, "allempty"), (1, "single")])
    mp = rng.pick([0.0, 0.2, 0.4])
    weights, style = freq_plan(rng, len(pool), n)
    toks_cells = []
    for _ in range(n):
        if shape == "allmissing" or rng.chance(mp):
            toks_cells.append(None)
        elif shape == "allempty":
            toks_cells.append([])
        else:
            k = rng.wpick([(2, 0), (3, 1), (3, 2), (2, 3), (1, 5)])
            toks_cells.append([rng.wpick(list(zip(weights, pool))) for _ in range(k)])   # repeats allowed
    if shape == "single":
        toks_cells = [rng.pick([None, []]) for _ in range(n)]
        toks_cells[rng.randrange(n)] = [pool[0]] * rng.randint(1, 3)
    if use_sep:
        sep = rng.pick(["|", ","]) if not (shared and "sep" in shared) else shared["sep"]
        col["sep"] = sep
        col["dtype"] = rng.pick(["object", "str"])
        cells = []
        for t in toks_cells:
            if t is None:
                cells.append(None)
            elif not t:
                cells.append(rng.pick(["", " ", "  "]))
            else:
                cells.append(sep.join(rng.pick(["", " ", "  "]) + x + rng.pick(["", " ", "\t"]) for x in t))
    else:
        cells = toks_cells
    col["cells"] = cells
    col["nan_kind"] = rng.pick(["none", "nan", "pynan"])
    col["gen"] = shape + "/" + style
    return col


def rand_time(rng, fmt, near=None):
    if near is not None and rng.chance(0.4):
        return list(near)
    y = rng.pick([rng.randint(1700, 2200), rng.randint(1990, 2030), 2000, 2001])
    m = rng.randint(1, 12)
    d = rng.randint(1, calendar.monthrange(y, m)[1])
    if fmt in ("%Y-%m-%d %H:%M:%S", "%d/%m/%Y %H:%M:%S", "datetime64", None):
        hh, mm, ss = rng.randint(0, 23), rng.randint(0, 59), rng.randint(0, 59)
    else:
        hh = mm = ss = 0
    return [y, m, d, hh, mm, ss]


def gen_time_col(rng, name, n, shared=None):
    col = base_col(name, "timestamp")
    fmt = rng.pick(G.FMTS) if not (shared and "fmt" in shared) else shared["fmt"]
    col["fmt"] = fmt
    shape = rng.wpick([(12, "usable"), (1, "allmissing"), (1, "allgarbage"), (2, "single")])
    mp = rng.pick([0.0, 0.2, 0.4])
    can_garbage = fmt not in (None, "datetime64")
    if shape == "allgarbage" and not can_garbage:
        shape = "allmissing"
    cells, prev = [], None
    for _ in range(n):
        if shape == "allmissing" or rng.chance(mp):
            cells.append(None)
        elif shape == "allgarbage":
            cells.append(rng.pick(["garbage", None]))
        elif can_garbage and rng.chance(0.08):
            cells.append("garbage")
        else:
            t = rand_time(rng, fmt, prev if rng.chance(0.5) else None)   # ties (identical timestamps)
            prev = t
            cells.append(t)
    if shape == "single":
        cells = [rng.pick([None, "garbage"]) if can_garbage else None for _ in range(n)]
        cells[rng.randrange(n)] = rand_time(rng, fmt)
    col["cells"] = cells
    if fmt not in (None, "datetime64"):
        col["dtype"] = rng.pick(["object", "str"])
    if fmt == "datetime64":
        col["dtype"] = "datetime64"
    col["gen"] = shape
    return col


def gen_emb_col(rng, name, n, shared=None):
    st = rng.wpick([(4, "embedding"), (1, "text_embedded"), (1, "image_embedded"), (1, "text_tokenized")])
    col = base_col(name, st)
    if st == "embedding":
        w = rng.randint(1, 6)
        col["width"] = w
        col["cells"] = [[dy(rng, 3, -8, 8) for _ in range(w)] for _ in range(n)]
    else:
        col["dtype"] = rng.pick(["object", "str"])
        col["cells"] = [None if rng.chance(0.2) else rng.pick(G.WORDS) + rng.pick(["", " t", "!"]) for _ in range(n)]
        col["batch_size"] = rng.pick([None, 1, 2])
        col["nan_kind"] = rng.pick(["none", "nan"])
    col["gen"] = "usable"
    return col


FEATURE_GENS = [(5, gen_num_col), (4, gen_seq_col), (5, gen_cat_col), (5, gen_multi_col), (5, gen_time_col),
                (2, gen_emb_col)]


def gen_case(rng, tier):
    n = rng.wpick([(1, 1), (1, 2), (1, 3), (2, 4), (2, 5), (4, rng.randint(6, 14))])
    k = rng.wpick([(3, 1), (3, 2), (2, 3)])
    names = rng.sample(["alpha", "beta", "gamma", "delta", "eps", "zeta", "eta", "theta"], k + 1)
    shared = {}
    if rng.chance(0.4):
        # one separator / one time format for all columns, so that the constructor can be given a plain string
        shared["sep"] = rng.pick(["|", ",", None])
        shared["fmt"] = rng.pick([f for f in G.FMTS if f != "datetime64"])
    cols = [rng.wpick(FEATURE_GENS)(rng, names[i], n, shared=shared) for i in range(k)]
    target = None
    tk = rng.wpick([(4, None), (3, "binary"), (2, "multi"), (2, "num")])
    if tk is not None and n >= 2:
        if tk == "num":
            cols.append(gen_num_col(rng, names[k], n, for_target=True))
        else:
            cols.append(gen_cat_col(rng, names[k], n, for_target=tk))
        target = names[k]
    order = [c["name"] for c in cols]
    rng.shuffle(order)
    case = {"n": n, "index": rng.pick(ALL_INDEX), "cols": cols, "target": target, "col_order": order}
    case["ctor"] = gen_ctor(rng, case)
    if n >= 3 and rng.chance(0.3):
        case["history"] = gen_history(rng, case)
    return case


def gen_ctor(rng, case):
    """Non-default ways of constructing the Dataset: a split column (values 0/1/2; the statistics are those of the WHOLE
    column whatever the split), and the forms in which separators / time formats / embedder configurations are passed
    (dict over all columns, dict omitting the columns whose value is None, one plain value for all columns)."""
    n = case["n"]
    ctor = {"split": None, "sep_form": "dict", "fmt_form": "dict", "cfg_form": "dict"}
    if rng.chance(0.45):
        kind = rng.wpick([(4, "random"), (2, "sorted"), (1, "no_train"), (1, "all_train"), (1, "train_first")])
        if kind == "random":
            sp = [rng.pick([0, 0, 1, 2]) for _ in range(n)]
        elif kind == "sorted":
            sp = sorted(rng.pick([0, 1, 2]) for _ in range(n))
        elif kind == "no_train":
            sp = [rng.pick([1, 2]) for _ in range(n)]
        elif kind == "all_train":
            sp = [0] * n
        else:
            sp = [0] + [rng.pick([1, 2]) for _ in range(n - 1)]
        ctor["split"] = sp
        ctor["split_kind"] = kind
    seps = [c["sep"] for c in case["cols"] if c["stype"] == "multicategorical"]
    if seps:
        forms = ["dict"] + (["plain"] * 2 if len(set(seps)) == 1 else []) + (["partial"] * 2 if None in seps else [])
        ctor["sep_form"] = rng.pick(forms)
    fmts = [None if c["fmt"] in (None, "datetime64") else c["fmt"] for c in case["cols"] if c["stype"] == "timestamp"]
    if fmts:
        forms = ["dict"] + (["plain"] * 2 if len(set(fmts)) == 1 else []) + (["partial"] * 2 if None in fmts else [])
        ctor["fmt_form"] = rng.pick(forms)
    if any(c["stype"] in ("text_embedded", "image_embedded", "text_tokenized") for c in case["cols"]):
        ctor["cfg_form"] = rng.pick(["dict", "plain"])
    ctor["direct_form"] = rng.pick(["keyword", "positional", "defaulted"])
    ctor["device"] = rng.pick(["default", "default", "pos_none", "kw_str", "kw_device"])
    ctor["path"] = rng.chance(0.12)
    return ctor


SPLIT = "__split__"


def build_ds(desc, df, ctor):
    """Dataset over df, constructed as `ctor` says (G.build_dataset always passes complete dicts and no split column)."""
    import torch_frame
    from torch_frame.config.image_embedder import ImageEmbedderConfig
    from torch_frame.config.text_embedder import TextEmbedderConfig
    from torch_frame.data import Dataset
    ctor = ctor or {}
    by = {c["name"]: c for c in desc["cols"]}
    col_to_stype = {name: getattr(torch_frame, by[name]["stype"]) for name in df.columns if name in by}

    def form(values, how):
        if not values:
            return None
        if how == "plain":
            return next(iter(values.values()))
        if how == "partial":
            return {k: v for k, v in values.items() if v is not None}
        return dict(values)
    sep = form({n: by[n]["sep"] for n in col_to_stype if by[n]["stype"] == "multicategorical"}, ctor.get("sep_form"))
    fmt = form({n: (by[n].get("cfg_fmt") if by[n]["fmt"] == "datetime64" else by[n]["fmt"])
                for n in col_to_stype if by[n]["stype"] == "timestamp"}, ctor.get("fmt_form"))
    te = {n: TextEmbedderConfig(text_embedder=G.StubTextEmbedder(3), batch_size=by[n].get("batch_size"))
          for n in col_to_stype if by[n]["stype"] == "text_embedded"}
    ie = {n: ImageEmbedderConfig(image_embedder=G.StubImageEmbedder(2), batch_size=by[n].get("batch_size"))
          for n in col_to_stype if by[n]["stype"] == "image_embedded"}
    from torch_frame.config.text_tokenizer import TextTokenizerConfig
    tt = {n: TextTokenizerConfig(text_tokenizer=G.StubTokenizer("list"), batch_size=by[n].get("batch_size"))
          for n in col_to_stype if by[n]["stype"] == "text_tokenized"}
    te = form(te, ctor.get("cfg_form"))
    ie = form(ie, ctor.get("cfg_form"))
    tt = form(tt, ctor.get("cfg_form"))
    for n in col_to_stype:
        dt = by[n].get("np_dtype")
        if dt and df[n].dtype == float and (dt != "int64" or not df[n].isna().any()):
            df[n] = df[n].astype(dt)
    kw = {}
    if ctor.get("split") is not None:
        df[SPLIT] = list(ctor["split"])
        kw["split_col"] = SPLIT
    return Dataset(df, col_to_stype, target_col=desc["target"], col_to_sep=sep, col_to_time_format=fmt,
                   col_to_text_embedder_cfg=te, col_to_image_embedder_cfg=ie, col_to_text_tokenizer_cfg=tt, **kw)


def gen_history(rng, case):
    """What happened to the Dataset object before the materialization whose statistics are checked: the frame that is
    finally materialized is the described one WITHOUT `drop_rows` (the rows the user removed in between).
    retry     -- a numerical column declared last holds text in the rows to be dropped: the first materialize raises
                 the documented TypeError; the user drops those rows, fixes the dtype and materializes again.
    colselect -- `ds[[cols]].materialize()` (a column-selected copy of the dataset) ran first; rows were then
                 dropped from ds.df and ds itself is materialized."""
    n = case["n"]
    k = rng.randint(1, max(1, n // 2))
    keep_min = 2 if case["target"] else 0                   # dfgen targets: the first two rows carry two classes
    cand = list(range(keep_min, n))
    drop = sorted(rng.sample(cand, min(k, len(cand))))
    feats = [c for c in case["cols"] if c["name"] != case["target"]]
    nums = [c["name"] for c in feats if c["stype"] == "numerical"]
    if nums and len(case["cols"]) >= 2 and rng.chance(0.6):
        dirty = rng.pick(nums)
        case["col_order"] = [x for x in case["col_order"] if x != dirty] + [dirty]      # declared after the others
        return {"kind": "retry", "dirty": dirty, "drop_rows": drop}
    sel = rng.sample([c["name"] for c in feats], rng.randint(1, len(feats)))
    return {"kind": "colselect", "cols": sel, "drop_rows": drop}


def final_desc(case):
    """The frame that is materialized in the end (what the statistics must be the statistics OF)."""
    h = case.get("history")
    if not h:
        return case
    keep = [i for i in range(case["n"]) if i not in set(h["drop_rows"])]
    d = dict(case, n=len(keep), cols=[dict(c, cells=[c["cells"][i] for i in keep]) for c in case["cols"]])
    d.pop("history")
    return d


def small_scope(tier):
    """Exhaustive small scope (thorough): every multiset over a 3-value alphabet (+missing, +inf) of length <= 4 as a
    numerical column, every category column over {a, b, missing} of length <= 5 as feature and as binary target."""
    import itertools
    out = []
    alpha = [None, "inf", 0.5, -1.25, 3.0]
    for n in range(1, 5):
        for cells in itertools.combinations_with_replacement(alpha, n):
            col = base_col("alpha", "numerical")
            col.update(dtype="float", cells=list(cells), gen="scope")
            out.append({"n": n, "index": "range", "cols": [col], "target": None, "col_order": ["alpha"]})
    for n in range(1, 6):
        for cells in itertools.product([None, "a", "B"], repeat=n):
            col = base_col("alpha", "categorical")
            col.update(cells=list(cells), nan_kind="none", gen="scope")
            out.append({"n": n, "index": "range", "cols": [col], "target": None, "col_order": ["alpha"]})
            if None not in cells and len(set(cells)) == 2:
                feat = base_col("beta", "numerical")
                feat.update(dtype="float", cells=[float(i) for i in range(n)], gen="scope")
                out.append({"n": n, "index": "offset", "cols": [col, feat], "target": "alpha",
                            "col_order": ["beta", "alpha"]})
    for n in range(1, 6):
        for ks in itertools.product(range(0, 4), repeat=n):
            # timestamps on consecutive days, 0 = missing
            col = base_col("alpha", "timestamp")
            col.update(fmt="%Y-%m-%d", gen="scope",
                       cells=[None if k == 0 else [2019 + k, 12 if k == 1 else 1, 31 if k == 1 else k, 0, 0, 0] for k in ks])
            out.append({"n": n, "index": "range", "cols": [col], "target": None, "col_order": ["alpha"]})
    return out


# Deterministic streams, run on every quick run whatever the seed: (1) hand-written boundary cases, (2) a FIXED-seed
# stream of generated cases that by itself satisfies every requirement of sanity() (so no requirement depends on the
# run's random draws).
BOUNDARIES = [
    "a big-integer sequence column whose only non-missing cells are removed by the history (colselect / retry): the "
    "frame finally materialized has no usable value -> NaN defaults (found by the thorough tier: the int_mean_ok "
    "term compared an empty column with the exact-mean branch)",
    "a big-integer numerical / sequence column whose total passes 2^63, with and without a history",
    "FIXED_STREAM_SEED stream: every stype, column kind, backing, scale, split kind, constructor / call form, history "
    "kind and target kind that sanity() requires",
]
FIXED_STREAM_SEED = 20260930
FIXED_STREAM_SIZE = 320


def boundary_cases():
    big = [2 ** 62, 2 ** 62 - 1024, 2 ** 62 - 4096]
    out = []

    def seqcol(cells):
        c = base_col("alpha", "sequence_numerical")
        c.update(cells=cells, nan_kind="none", gen="usable", scale=0, bigint=True)
        return c

    def numcol(name, cells, **kw):
        c = base_col(name, "numerical")
        c.update(dtype="float", cells=cells, gen="usable", scale=0)
        c.update(kw)
        return c
    ctor = {"split": None, "sep_form": "dict", "fmt_form": "dict", "cfg_form": "dict", "direct_form": "keyword",
            "device": "default", "path": False}
    x4 = numcol("beta", [1.0, 2.0, 3.0, 4.0])
    dirty = numcol("gamma", [5.0, 6.0, 7.0, 8.0])
    # the only usable cell is in a row the history removes
    out.append({"n": 4, "index": "range", "cols": [seqcol([None, big, None, None]), x4], "target": None,
                "col_order": ["alpha", "beta"], "ctor": dict(ctor),
                "history": {"kind": "colselect", "cols": ["alpha"], "drop_rows": [1, 2]}})
    out.append({"n": 4, "index": "offset", "cols": [seqcol([None, None, big, None]), x4, dirty], "target": None,
                "col_order": ["alpha", "beta", "gamma"], "ctor": dict(ctor),
                "history": {"kind": "retry", "dirty": "gamma", "drop_rows": [2]}})
    # the usable cells survive: totals beyond 2^63
    out.append({"n": 4, "index": "range", "cols": [seqcol([big, None, big[:2], [big[0]]]), x4], "target": None,
                "col_order": ["alpha", "beta"], "ctor": dict(ctor),
                "history": {"kind": "colselect", "cols": ["beta"], "drop_rows": [1]}})
    out.append({"n": 4, "index": "range", "cols": [seqcol([big, None, big[:2], [big[0]]]), x4], "target": None,
                "col_order": ["alpha", "beta"], "ctor": dict(ctor)})
    out.append({"n": 4, "index": "dup", "target": None, "col_order": ["delta", "beta"], "ctor": dict(ctor),
                "cols": [numcol("delta", [float(v) for v in big + [2 ** 62 - 8192]], np_dtype="int64", bigint=True), x4]})
    return out


def generate(rng, tier):
    n = 380 if tier == "quick" else 12000
    fixed_rng = C.Rng(FIXED_STREAM_SEED)
    cases = boundary_cases() + [gen_case(fixed_rng, tier) for _ in range(FIXED_STREAM_SIZE)]
    cases += [gen_case(rng, tier) for _ in range(n)]
    if tier == "thorough":
        cases += small_scope(tier)
    return cases


# ------------------------------------------------------------------ implementation
def prep(desc):
    """dfgen frame description with 'inf' / '-inf' inside sequence cells turned into floats."""
    d = copy.deepcopy(desc)
    for c in d["cols"]:
        if c["stype"] == "sequence_numerical":
            c["cells"] = [None if cell is None else [float(x) if isinstance(x, str) else x for x in cell]
                          for cell in c["cells"]]
    return d


def run(case):
    import torch_frame
    from torch_frame.data.stats import compute_col_stats
    import pandas as pd
    d = prep(case)
    out = {"ok": False}
    h = case.get("history")
    try:
        ctor = case.get("ctor")
        if not h:
            ds = build_ds(d, G.build_df(d), ctor)
        else:
            df = G.build_df(d)
            keep = [i for i in range(case["n"]) if i not in set(h["drop_rows"])]
            def direct_of(frame, dd):
                res = {}
                for c in dd["cols"]:
                    try:
                        fmt = None if c["fmt"] in (None, "datetime64") else c["fmt"]
                        st = compute_col_stats(frame[c["name"]], getattr(torch_frame, c["stype"]), sep=c["sep"], time_format=fmt)
                        res[c["name"]] = G.read_stats({c["name"]: st})[c["name"]]
                    except Exception as ex:
                        res[c["name"]] = {"exc": C.exc_name(ex)}
                return res
            if h["kind"] == "retry":
                vals = df[h["dirty"]].tolist()
                for i in h["drop_rows"]:
                    vals[i] = "oops"
                df[h["dirty"]] = pd.Series(vals, dtype=object, index=df.index)
                ds = build_ds(d, df, ctor)
                out["direct_initial"] = direct_of(ds.df, d)
                try:
                    ds.materialize()
                    out["first_attempt"] = "no-raise"
                except Exception as ex:
                    out["first_attempt"] = C.exc_name(ex)
                # the user removes the offending rows and repairs the dtype, then tries again
                ds.df = ds.df.iloc[keep].copy()
                ds.df[h["dirty"]] = ds.df[h["dirty"]].astype(float)
            else:
                ds = build_ds(d, df, ctor)
                out["direct_initial"] = direct_of(ds.df, d)
                sub = ds[list(h["cols"])]
                sub.materialize()
                out["first_attempt"] = "colselect-materialized"
                ds.df = ds.df.iloc[keep].copy()
            d = prep(final_desc(case))
    except Exception as ex:
        return {"ok": False, "stage": "build", "exc": C.exc_name(ex), "msg": str(ex)[:300], "tb": C.fmt_exc()}
    # direct observation point: compute_col_stats(series, stype, sep, time_format)
    direct = {}
    for c in d["cols"]:
        try:
            fmt = None if c["fmt"] in (None, "datetime64") else c["fmt"]
            ser, sty = ds.df[c["name"]], getattr(torch_frame, c["stype"])
            dform = (case.get("ctor") or {}).get("direct_form", "keyword")
            if dform == "positional":
                st = compute_col_stats(ser, sty, c["sep"], fmt)
            elif dform == "defaulted" and c["sep"] is None and fmt is None:
                st = compute_col_stats(ser, sty)
            else:
                st = compute_col_stats(ser=ser, stype=sty, sep=c["sep"], time_format=fmt)
            direct[c["name"]] = G.read_stats({c["name"]: st})[c["name"]]
        except Exception as ex:
            direct[c["name"]] = {"exc": C.exc_name(ex), "msg": str(ex)[:200]}
    out["direct"] = direct
    import shutil
    import tempfile
    import torch
    ct = case.get("ctor") or {}
    tmp = tempfile.mkdtemp(prefix="c03_") if ct.get("path") else None
    kw = {"path": os.path.join(tmp, "cache.pt")} if tmp else {}
    try:
        try:
            dev = ct.get("device", "default")
            if dev == "pos_none":
                ds.materialize(None, **kw)
            elif dev == "kw_str":
                ds.materialize(device="cpu", **kw)
            elif dev == "kw_device":
                ds.materialize(device=torch.device("cpu"), **kw)
            else:
                ds.materialize(**kw)
        except Exception as ex:
            out.update(stage="materialize", exc=C.exc_name(ex), msg=str(ex)[:300], tb=C.fmt_exc())
            return out
        if tmp:
            # a fresh dataset over the same frame that finds the cache file: its statistics come from the file
            try:
                df2 = ds.df.copy()
                ct2 = dict(ct, split=df2.pop(SPLIT).tolist() if SPLIT in df2 else None)
                ds2 = build_ds(d, df2, ct2)
                ds2.materialize(path=kw["path"])
                out["cached_stats"] = G.read_stats(ds2.col_stats)
            except Exception as ex:
                out["cached_stats"] = {"exc": C.exc_name(ex), "msg": str(ex)[:200]}
    finally:
        if tmp:
            shutil.rmtree(tmp, ignore_errors=True)
    out.update(ok=True, stats=G.read_stats(ds.col_stats), tf=G.read_tf(ds.tensor_frame))
    emb = ds.tensor_frame.feat_dict.get(torch_frame.embedding)
    if emb is not None:
        out["emb_offset"] = [int(x) for x in emb.offset.tolist()]
    return out


# ------------------------------------------------------------------ independent reference (plain Python, Fractions)
def usable_numbers(col):
    out = []
    if col["stype"] == "numerical":
        for c in col["cells"]:
            if c is not None and not isinstance(c, str):
                out.append(Fraction(c))
    else:
        for cell in col["cells"]:
            if cell is None:
                continue
            for x in cell:
                if x is not None and not isinstance(x, str):
                    out.append(Fraction(x))
    return out


def ref_quantile(s, k):
    """k-th quartile of the sorted Fractions s by linear interpolation between order statistics."""
    n = len(s)
    h = Fraction(k, 4) * (n - 1)
    lo = h.numerator // h.denominator
    t = h - lo
    hi = min(lo + 1, n - 1)
    return s[lo] + (s[hi] - s[lo]) * t


def ref_num_stats(col):
    xs = usable_numbers(col)
    if not xs:
        return None
    n = len(xs)
    mean = sum(xs) / n
    var = sum((x - mean) ** 2 for x in xs) / n
    s = sorted(xs)
    return {"mean": mean, "var": var, "quant": [ref_quantile(s, k) for k in range(5)], "maxabs": max(abs(x) for x in xs)}


def cat_values(col):
    return [c for c in col["cells"] if c is not None]


def multi_values(col):
    """one occurrence per cell and distinct token (cells are sets)"""
    out = []
    for cell in col["cells"]:
        toks = G.tokens_of(cell, col["sep"])
        if toks is not None:
            out.extend(sorted(toks))
    return out


def time_values(col):
    return sorted(tuple(c) for c in col["cells"] if c is not None and c != "garbage")


def comps(t):
    y, m, d, hh, mm, ss = t
    return [y, m - 1, d - 1, dt.date(y, m, d).weekday(), hh, mm, ss]


def std_close(s, var, maxabs):
    """observed std s vs exact population variance: relative 1e-12 on the variance, or within the conditioning of the
    computation (8 ulps of the largest magnitude: sqrt of a difference of nearly equal numbers cannot do better)"""
    s = Fraction(s)
    if abs(s * s - var) <= TOL * var:
        return True
    b = Fraction(8, 2 ** 52) * maxabs
    lo, hi = s - b, s + b
    return (lo <= 0 or lo * lo <= var) and var <= hi * hi


def check_num(colname, where, st, ref, eps=0.0):
    """st: observed {MEAN, STD, QUANTILES}.  Returns failure (key suffix, text, expected, observed) or None.
    eps > 0: the column is held in a reduced-precision float type and numpy computes in that type: compared within
    4 eps of the largest magnitude instead of exactly."""
    if set(st) != {"MEAN", "STD", "QUANTILES"}:
        return ("keys", f"statistics present: {sorted(st)}", ["MEAN", "STD", "QUANTILES"], sorted(st))
    if ref is None:
        if st["MEAN"] is not None or st["STD"] is not None or st["QUANTILES"] != [None] * 5:
            return ("default", "column without usable value must have NaN mean/std/quantiles",
                    {"MEAN": None, "STD": None, "QUANTILES": [None] * 5}, st)
        return None
    if eps:
        tol = 4 * eps * max(float(ref["maxabs"]), 1e-300)
        sd = math.sqrt(ref["var"])
        exp = {"MEAN": float(ref["mean"]), "STD": sd, "QUANTILES": [float(q) for q in ref["quant"]]}
        flat_o = [st["MEAN"], st["STD"]] + (st["QUANTILES"] if isinstance(st["QUANTILES"], list) else [None] * 5)
        flat_e = [exp["MEAN"], exp["STD"]] + exp["QUANTILES"]
        names = ["mean", "std"] + ["quantiles"] * 5
        for o, e, nm in zip(flat_o, flat_e, names):
            if not isinstance(o, float) or not abs(o - e) <= tol:
                return (nm, f"{nm.upper()} {o!r} differs from {e!r} (reduced-precision column, tolerance {tol:g})", exp, st)
        return None
    em = float(ref["mean"])
    if not isinstance(st["MEAN"], float) or st["MEAN"] != em:
        return ("mean", f"MEAN {st['MEAN']!r} differs from the mean {em!r} of the usable values", em, st["MEAN"])
    eq = [float(q) for q in ref["quant"]]
    if st["QUANTILES"] != eq:
        return ("quantiles", f"QUANTILES {st['QUANTILES']} differ from min/quartiles/max {eq}", eq, st["QUANTILES"])
    s = st["STD"]
    if not isinstance(s, float) or s < 0:
        return ("std", f"STD {s!r} is not a non-negative number", math.sqrt(ref["var"]), s)
    if not std_close(s, ref["var"], ref["maxabs"]):
        return ("std", f"STD {s!r} is not the population standard deviation {math.sqrt(ref['var'])!r}",
                math.sqrt(ref["var"]), s)
    return None


def check_count(st, key, values, sorted_two_class):
    if set(st) != {key}:
        return ("keys", f"statistics present: {sorted(st)}", [key], sorted(st))
    o = st[key]
    if not (isinstance(o, list) and len(o) == 2 and len(o[0]) == len(o[1])):
        return ("shape", f"{key} is not a pair of equally long lists", None, o)
    cats, counts = o
    exp = {}
    for v in values:
        exp[v] = exp.get(v, 0) + 1
    if len(set(map(repr, cats))) != len(cats):
        return ("dup", f"{key} lists a category twice: {cats}", sorted(exp.items(), key=repr), o)
    for c, k in zip(cats, counts):
        if c not in exp:
            return ("extra", f"{key} lists {c!r}, which does not occur among the non-missing values", exp, o)
        if exp[c] != k:
            return ("count", f"{key} gives {c!r} the count {k}, it occurs {exp[c]} times", exp, o)
    if len(cats) != len(exp):
        return ("missing", f"{key} lists {len(cats)} of {len(exp)} distinct values", exp, o)
    if sorted_two_class and len(cats) == 2:
        if not cats[0] < cats[1]:
            return ("target-order", f"two-class target lists its classes as {cats}, not in sorted order", sorted(cats), o)
    elif any(a < b for a, b in zip(counts, counts[1:])):
        return ("order", f"{key} counts {counts} are not non-increasing", sorted(counts, reverse=True), o)
    return None


def check_time(st, ts):
    keys = {"YEAR_RANGE", "NEWEST_TIME", "OLDEST_TIME", "MEDIAN_TIME"}
    if set(st) != keys:
        return ("keys", f"statistics present: {sorted(st)}", sorted(keys), sorted(st))
    if not ts:
        exp = {"YEAR_RANGE": [-1, -1], "NEWEST_TIME": [-1] * 7, "OLDEST_TIME": [-1] * 7, "MEDIAN_TIME": [-1] * 7}
    else:
        exp = {"YEAR_RANGE": [ts[0][0], ts[-1][0]], "NEWEST_TIME": comps(ts[-1]), "OLDEST_TIME": comps(ts[0]),
               "MEDIAN_TIME": comps(ts[len(ts) // 2])}
    for k in ("YEAR_RANGE", "OLDEST_TIME", "NEWEST_TIME", "MEDIAN_TIME"):
        if st[k] != exp[k]:
            return (k.lower() if ts else "default", f"{k} = {st[k]}, definition gives {exp[k]} "
                    f"({len(ts)} usable timestamps)", exp[k], st[k])
    return None


def check_col_stats(case, col, st, is_target_resorted):
    """Compare one column's observed statistics with their definitions."""
    s = col["stype"]
    if isinstance(st, dict) and "exc" in st:
        return ("raises", f"computing the statistics raised {st['exc']}: {st.get('msg')}", None, st)
    if s in ("numerical", "sequence_numerical"):
        return check_num(col["name"], "", st, ref_num_stats(col), col_eps(col))
    if s == "categorical":
        return check_count(st, "COUNT", cat_values(col), is_target_resorted)
    if s == "multicategorical":
        return check_count(st, "MULTI_COUNT", multi_values(col), False)
    if s == "timestamp":
        return check_time(st, time_values(col))
    return None


def emb_width(col):
    if col["stype"] == "embedding":
        return col["width"]
    return 3 if col["stype"] == "text_embedded" else 2


def locate(tfj, col):
    parent = {"text_embedded": "embedding", "image_embedded": "embedding"}.get(col["stype"], col["stype"])
    names = tfj["names"].get(parent)
    if names is None or col["name"] not in names:
        return None
    return parent, names.index(col["name"])


def tf_column(case, obs, col):
    """cells of the column in the materialized TensorFrame (y for the target)"""
    tfj = obs["tf"]
    if col["name"] == case["target"]:
        return None if tfj["y"] is None else [[v] for v in tfj["y"]]
    loc = locate(tfj, col)
    if loc is None:
        return None
    st, j = loc
    return [row[j] for row in tfj["feats"][st]]


def oracle(case, obs):
    return _oracle(final_desc(case), obs)


def _oracle(case, obs):
    if "harness_exc" in obs:
        return dict(key="harness-exc", what=obs["harness_exc"], tb=obs.get("tb"))
    if obs.get("stage") == "build":
        return dict(key="harness-build", what=f"could not build the dataset: {obs['exc']} {obs['msg']}", tb=obs.get("tb"))
    # 1. compute_col_stats called directly
    for col in case["cols"]:
        f = check_col_stats(case, col, obs["direct"][col["name"]], False)
        if f is None and col["stype"] == "embedding":
            d = obs["direct"][col["name"]]
            if d != {"EMB_DIM": emb_width(col)}:
                f = ("emb_dim", f"EMB_DIM statistics {d}, vectors have width {emb_width(col)}", emb_width(col), d)
        if f is not None:
            return dict(key=f"direct:{col['stype']}:{f[0]}", what=f"compute_col_stats on column {col['name']} "
                        f"({col['stype']}, {col.get('gen')}): {f[1]}", expected=f[2], observed=f[3], col=col["name"])
    if not obs["ok"]:
        sts = sorted({c["stype"] + "/" + str(c.get("gen")) for c in case["cols"]})
        return dict(key=f"materialize-raises:{obs['exc']}", what=f"materialize raised {obs['exc']}: {obs['msg']} "
                    f"(columns: {sts})", tb=obs.get("tb"))
    # the split column (and the target) is not a feature: it must not appear in the frame
    in_frame = sorted(n for names in obs["tf"]["names"].values() for n in names)
    feats = sorted(c["name"] for c in case["cols"] if c["name"] != case["target"])
    if in_frame != feats:
        return dict(key="frame-columns", what="the TensorFrame does not hold exactly the feature columns (the split column "
                    "and the target are not features)", expected=feats, observed=in_frame)
    # 2. dataset.col_stats (exactly the declared columns: the split column gets no statistics)
    if set(obs["stats"]) != {c["name"] for c in case["cols"]}:
        return dict(key="stats-columns", what="col_stats does not have exactly the dataset's columns",
                    expected=sorted(c["name"] for c in case["cols"]), observed=sorted(obs["stats"]))
    for col in case["cols"]:
        st = obs["stats"][col["name"]]
        is_t = col["name"] == case["target"]
        f = check_col_stats(case, col, st, is_t)
        if f is None and col["stype"] == "text_tokenized" and st != {}:
            f = ("keys", f"a text_tokenized column has no statistics, found {sorted(st)}", [], sorted(st))
        if f is None and col["stype"] in ("embedding", "text_embedded", "image_embedded"):
            if st != {"EMB_DIM": emb_width(col)}:
                f = ("emb_dim", f"EMB_DIM statistics {st}, vectors have width {emb_width(col)}", emb_width(col), st)
        if f is not None:
            return dict(key=f"stats:{col['stype']}{':target' if is_t else ''}:{f[0]}",
                        what=f"col_stats of column {col['name']} ({col['stype']}, {col.get('gen')}): {f[1]}",
                        expected=f[2], observed=f[3], col=col["name"])
        if "cached_stats" in obs and obs["cached_stats"].get(col["name"]) != st:
            return dict(key="cache-stats", what=f"a dataset materialized from the cache file of this one reports other "
                        f"statistics for column {col['name']}", expected=st, observed=obs["cached_stats"].get(col["name"]))
        # 3. index space: the i-th listed category is the one encoded as i in the TensorFrame
        if col["stype"] in ("categorical", "multicategorical"):
            cells = tf_column(case, obs, col)
            if cells is None:
                return dict(key="column-missing", what=f"column {col['name']} not in the TensorFrame")
            cats = st["COUNT" if col["stype"] == "categorical" else "MULTI_COUNT"][0]
            for i, raw in enumerate(col["cells"]):
                if col["stype"] == "categorical":
                    exp = [-1] if raw is None else [cats.index(raw)]
                else:
                    toks = G.tokens_of(raw, col["sep"])
                    exp = [-1] if toks is None else sorted(cats.index(t) for t in toks)
                got = sorted(cells[i])
                if got != exp:
                    return dict(key=f"index-space:{col['stype']}",
                                what=f"row {i} of column {col['name']} holds {raw!r}; with categories listed as {cats} "
                                     f"it must be encoded as {exp}, the TensorFrame has {got}",
                                expected=exp, observed=got, col=col["name"], row=i)
    return None


def shrink(case):
    ct = case.get("ctor") or {}
    if ct.get("split") is not None and not case.get("history"):
        yield dict(case, ctor=dict(ct, split=None))
    if case.get("history"):
        h = case["history"]
        for k in range(len(h["drop_rows"])):
            if len(h["drop_rows"]) > 1:
                yield dict(case, history=dict(h, drop_rows=h["drop_rows"][:k] + h["drop_rows"][k + 1:]))
        cols = case["cols"]
        for k, c in enumerate(cols):
            if c["name"] != case["target"] and c["name"] != h.get("dirty") and c["name"] not in h.get("cols", []) \
                    and len(cols) > 2:
                yield dict(case, cols=cols[:k] + cols[k + 1:], col_order=[n for n in case["col_order"] if n != c["name"]])
        return
    cols = case["cols"]
    for k, c in enumerate(cols):
        if c["name"] != case["target"] and len(cols) > 1:
            rest = cols[:k] + cols[k + 1:]
            yield dict(case, cols=rest, col_order=[n for n in case["col_order"] if n != c["name"]])
    if case["target"] is not None and len(cols) > 1:
        rest = [c for c in cols if c["name"] != case["target"]]
        yield dict(case, cols=rest, target=None, col_order=[n for n in case["col_order"] if n != case["target"]])
    if case["n"] > 1:
        for k in range(case["n"]):
            c2 = dict(case, n=case["n"] - 1,
                      cols=[dict(c, cells=c["cells"][:k] + c["cells"][k + 1:]) for c in cols])
            if ct.get("split") is not None:
                c2["ctor"] = dict(ct, split=ct["split"][:k] + ct["split"][k + 1:])
            yield c2
    if case["index"] != "range":
        yield dict(case, index="range")
    # simplify single cells of multi-valued columns
    for ci, c in enumerate(cols):
        if c["stype"] == "sequence_numerical" or (c["stype"] == "multicategorical" and c["sep"] is None):
            for k, cell in enumerate(c["cells"]):
                if isinstance(cell, list) and len(cell) > 1:
                    for j in range(len(cell)):
                        nc = dict(c, cells=c["cells"][:k] + [cell[:j] + cell[j + 1:]] + c["cells"][k + 1:])
                        yield dict(case, cols=cols[:ci] + [nc] + cols[ci + 1:])


def col_sig(case, col):
    s = col["stype"]
    n = len(col["cells"])
    if s in ("numerical", "sequence_numerical"):
        xs = usable_numbers(col)
        return (s, n, len(xs), len(set(xs)), len(xs) % 2, any(isinstance(c, str) for c in col["cells"]))
    if s in ("categorical", "multicategorical"):
        vals = cat_values(col) if s == "categorical" else multi_values(col)
        cnt = {}
        for v in vals:
            cnt[v] = cnt.get(v, 0) + 1
        return (s, n, tuple(sorted(cnt.values(), reverse=True)), col["name"] == case["target"], col["dtype"])
    if s == "timestamp":
        ts = time_values(col)
        return (s, n, len(ts), len(set(ts)), str(col["fmt"]), ts == [tuple(c) for c in col["cells"]
                                                                      if c is not None and c != "garbage"])
    return (s, n, emb_width(col))


def nontrivial_sig(case, obs):
    if not obs.get("ok"):
        return None
    hist = [(case.get("history") or {}).get("kind"), (case.get("ctor") or {}).get("split_kind"),
            (case.get("ctor") or {}).get("sep_form"), (case.get("ctor") or {}).get("fmt_form")]
    case = final_desc(case)
    return json.dumps([hist, sorted(col_sig(case, c) for c in case["cols"])], default=str)


def stats(cases, obss):
    d = {"columns": {}, "gen_kinds": {}, "rows": {}, "index": {}, "targets": {"none": 0, "binary": 0, "multi": 0, "num": 0},
         "raised": 0, "tied_count_columns": 0, "no_usable_value_columns": 0, "even_n": 0, "odd_n": 0, "total": 0}
    d["histories"] = {"none": 0, "retry": 0, "colselect": 0}
    d["split"] = {"none": 0}
    d["ctor_forms"] = {}
    d["split_with_numeric_columns"] = 0
    d["first_attempt"] = {}
    for c, o in zip(cases, obss):
        if c is None:
            continue
        d["total"] += 1
        d["histories"][(c.get("history") or {}).get("kind", "none")] += 1
        ct = c.get("ctor") or {}
        sk = ct.get("split_kind", "none") if ct.get("split") is not None else "none"
        d["split"][sk] = d["split"].get(sk, 0) + 1
        if sk != "none" and any(x["stype"] in ("numerical", "sequence_numerical") for x in c["cols"]):
            d["split_with_numeric_columns"] += 1
        for k in ("direct_form", "device", "path"):
            d.setdefault("call_" + k, {})
            d["call_" + k][str(ct.get(k))] = d["call_" + k].get(str(ct.get(k)), 0) + 1
        d["int64_numerical_columns"] = d.get("int64_numerical_columns", 0) + \
            sum(1 for x in c["cols"] if x.get("np_dtype") == "int64")
        d.setdefault("integer_backings", {})
        for x in c["cols"]:
            if x.get("bigint"):
                k = x["stype"] + ":bigint"
                tot = sum(usable_numbers(x))
                k += ":sum>2^63" if abs(tot) >= 2 ** 63 else ""
                d["integer_backings"][k] = d["integer_backings"].get(k, 0) + 1
            elif x.get("np_dtype") in ("int32", "uint8", "int64"):
                d["integer_backings"][x["np_dtype"]] = d["integer_backings"].get(x["np_dtype"], 0) + 1
        d.setdefault("float_backing_with_inf", {})
        d.setdefault("scales", {})
        for x in c["cols"]:
            if x["stype"] == "numerical":
                bk = x.get("np_dtype") or "float64"
                if any(isinstance(v, str) for v in x["cells"]) and any(isinstance(v, float) for v in x["cells"]):
                    d["float_backing_with_inf"][bk] = d["float_backing_with_inf"].get(bk, 0) + 1
            if x["stype"] in ("numerical", "sequence_numerical") and "scale" in x:
                k = x["stype"] + ":" + str(x["scale"])
                d["scales"][k] = d["scales"].get(k, 0) + 1
        for k in ("sep_form", "fmt_form", "cfg_form"):
            kk = k + ":" + str(ct.get(k, "dict"))
            d["ctor_forms"][kk] = d["ctor_forms"].get(kk, 0) + 1
        if c.get("history"):
            fa = (o or {}).get("first_attempt")
            d["first_attempt"][str(fa)] = d["first_attempt"].get(str(fa), 0) + 1
        c = final_desc(c)
        d["rows"][c["n"]] = d["rows"].get(c["n"], 0) + 1
        d["index"][c["index"]] = d["index"].get(c["index"], 0) + 1
        if not (o or {}).get("ok"):
            d["raised"] += 1
        if c["target"] is None:
            d["targets"]["none"] += 1
        for col in c["cols"]:
            s = col["stype"]
            d["columns"][s] = d["columns"].get(s, 0) + 1
            g = s + "/" + str(col.get("gen"))
            d["gen_kinds"][g] = d["gen_kinds"].get(g, 0) + 1
            if col["name"] == c["target"]:
                if s == "numerical":
                    d["targets"]["num"] += 1
                else:
                    d["targets"]["binary" if len(set(col["cells"])) == 2 else "multi"] += 1
            sig = col_sig(c, col)
            if s in ("categorical", "multicategorical"):
                cn = sig[2]
                if len(cn) != len(set(cn)):
                    d["tied_count_columns"] += 1
                if not cn:
                    d["no_usable_value_columns"] += 1
            elif s in ("numerical", "sequence_numerical", "timestamp"):
                if sig[2] == 0:
                    d["no_usable_value_columns"] += 1
                elif sig[2] % 2 == 0:
                    d["even_n"] += 1
                else:
                    d["odd_n"] += 1
    return d


def sanity(cases, obss):
    """Fail-closed distribution check: every column kind and every distinction the property quantifies over is drawn."""
    d = stats(cases, obss)
    probs = []
    if d["total"] and d["raised"] > 0.2 * d["total"]:
        probs.append(f"{d['raised']} of {d['total']} frames failed to materialize")
    for st in ("numerical", "categorical", "multicategorical", "sequence_numerical", "timestamp", "embedding",
               "text_embedded", "image_embedded"):
        if d["columns"].get(st, 0) == 0:
            probs.append(f"stype {st} never drawn")
    kinds = d["gen_kinds"]
    need = ["numerical/single", "numerical/allmissing", "numerical/onlyinf", "sequence_numerical/allempty",
            "sequence_numerical/allnan", "sequence_numerical/allmissing", "timestamp/allmissing", "timestamp/single"]
    for k in need:
        if kinds.get(k, 0) == 0:
            probs.append(f"column kind {k} never drawn")
    for pre in ("categorical/allmissing", "multicategorical/allmissing", "multicategorical/allempty", "categorical/single"):
        if not any(k.startswith(pre) for k in kinds):
            probs.append(f"column kind {pre} never drawn")
    for k in ("tied_count_columns", "no_usable_value_columns", "even_n", "odd_n"):
        if d[k] == 0:
            probs.append(f"{k} = 0")
    for k in ("binary", "multi", "num", "none"):
        if d["targets"][k] == 0:
            probs.append(f"target kind {k} never drawn")
    for k in ("random", "sorted", "no_train", "all_train", "train_first"):
        if d["split"].get(k, 0) == 0:
            probs.append(f"split column kind {k} never drawn")
    if d["split_with_numeric_columns"] == 0:
        probs.append("no dataset with a split column and a numerical / sequence column")
    for k in ("sep_form:plain", "sep_form:partial", "fmt_form:plain", "fmt_form:partial", "cfg_form:plain"):
        if d["ctor_forms"].get(k, 0) == 0:
            probs.append(f"constructor argument form {k} never drawn")
    for grp, ks in {"call_direct_form": ["keyword", "positional", "defaulted"],
                    "call_device": ["default", "pos_none", "kw_str", "kw_device"], "call_path": ["True", "False"]}.items():
        for k in ks:
            if (d.get(grp) or {}).get(k, 0) == 0:
                probs.append(f"{grp} = {k} never drawn")
    for k in ("numerical:bigint:sum>2^63", "sequence_numerical:bigint:sum>2^63", "int32", "uint8", "int64"):
        if (d.get("integer_backings") or {}).get(k, 0) == 0:
            probs.append(f"integer backing {k} never drawn")
    for bk in ("float64", "float32", "float16", "Float64", "Float32"):
        if (d.get("float_backing_with_inf") or {}).get(bk, 0) == 0:
            probs.append(f"no {bk} numerical column holding +/-inf next to finite values")
    for st in ("numerical", "sequence_numerical"):
        for sc in ("0", "-40", "-30", "40", "30", "offset"):
            if (d.get("scales") or {}).get(st + ":" + sc, 0) == 0:
                probs.append(f"no {st} column at scale {sc}")
    if d.get("int64_numerical_columns", 0) == 0:
        probs.append("no int64 numerical column")
    if d["columns"].get("text_tokenized", 0) == 0:
        probs.append("stype text_tokenized never drawn")
    for k in ("retry", "colselect"):
        if d["histories"][k] == 0:
            probs.append(f"history kind {k} never drawn")
    # two-class targets whose frequency order differs from the sorted order
    swapped = 0
    for c in cases:
        if c is None or c["target"] is None:
            continue
        c = final_desc(c)
        col = next(x for x in c["cols"] if x["name"] == c["target"])
        if col["stype"] == "categorical" and len(set(col["cells"])) == 2:
            a, b = sorted(set(col["cells"]))
            swapped += int(col["cells"].count(b) > col["cells"].count(a))
    if swapped == 0:
        probs.append("no two-class target whose frequency order differs from its sorted order")
    return probs


# ------------------------------------------------------------------ Coq side
def cq(x):
    """exact rational of a dyadic float as a Coq Q literal"""
    f = Fraction(x)
    return f"({f.numerator} # {f.denominator})" if f.numerator >= 0 else f"(({f.numerator}) # {f.denominator})"


def cnum(x):
    if x is None:
        return "NNaN"
    if x in ("inf", float("inf")):
        return "NPosInf"
    if x in ("-inf", float("-inf")):
        return "NNegInf"
    return f"NFin {cq(x)}"


def cdbl(x):
    """observed double: None (NaN) | DInf | exact value mantissa * 2^exp"""
    if x is None:
        return "None"
    if isinstance(x, str) or (isinstance(x, float) and math.isinf(x)):
        return "(Some DInf)"
    x = float(x)
    if x == 0.0:
        return "(Some (DFin 0 0))"
    m, e = math.frexp(x)
    mi = int(m * (1 << 53))
    assert Fraction(mi) * Fraction(2) ** (e - 53) == Fraction(x)
    return f"(Some (DFin {C.cz(mi)} {C.cz(e - 53)}))"


def epoch(t):
    y, m, d, hh, mm, ss = t
    return (dt.date(y, m, d).toordinal() - dt.date(1970, 1, 1).toordinal()) * 86400 + hh * 3600 + mm * 60 + ss


def ranks(values):
    vs = sorted(set(values))
    return {v: i for i, v in enumerate(vs)}


def split_tokens(cell, sep):
    """token list of a raw multicategorical cell, duplicates kept (string splitting is C01's subject)"""
    if cell is None:
        return None
    if isinstance(cell, list):
        return list(cell)
    if cell.strip() == "":
        return []
    return [t.strip() for t in cell.split(sep)]


def coq_col(case, obs, col, extra):
    """(column literal, observation literal) or None when the observation has an unexpected shape;
    additional boolean terms are appended to `extra`."""
    s = col["stype"]
    st = obs["stats"][col["name"]]
    is_t = col["name"] == case["target"]
    if s == "numerical":
        c = f"CNum {C.clist(col['cells'], cnum)}"
    elif s == "sequence_numerical":
        c = "CSeq " + C.clist(col["cells"], lambda cell: C.copt(cell, lambda l: C.clist(l, cnum)))
    if s in ("numerical", "sequence_numerical"):
        if set(st) != {"MEAN", "STD", "QUANTILES"} or not isinstance(st["QUANTILES"], list):
            return None
        o = f"ONum {cdbl(st['MEAN'])} {cdbl(st['STD'])} {C.clist(st['QUANTILES'], cdbl)}"
        if col.get("bigint"):
            # integer-backed data beyond 2^53: the implementation's MEAN is the exact mean of the integers (numpy
            # accumulates in float64), and NOT the int64-wrapped one when the total leaves the int64 range
            flat_i = col["cells"] if s == "numerical" else [x for cell in col["cells"] if cell is not None for x in cell]
            extra.append(f"int_mean_ok {C.clist([int(x) for x in flat_i], C.cz)} {cdbl(st['MEAN'])}")
        if col_eps(col):
            # reduced-precision backing / int64 beyond 2^53: only which statistics are NaN is compared in Coq
            flat = col["cells"] if s == "numerical" else [x for cell in col["cells"] if cell is not None for x in cell]
            extra.append(f"col_shape_ok {C.clist(flat, cnum)} {cdbl(st['MEAN'])} {cdbl(st['STD'])} "
                         f"{C.clist(st['QUANTILES'], cdbl)}")
            return "skip", None
        return c, o
    if s in ("categorical", "multicategorical"):
        key = "COUNT" if s == "categorical" else "MULTI_COUNT"
        if set(st) != {key}:
            return None
        cats, counts = st[key]
        if s == "categorical":
            raw = [[v] for v in cat_values(col)]
        else:
            raw = [split_tokens(cell, col["sep"]) for cell in col["cells"] if cell is not None]
        universe = [v for cell in raw for v in cell]
        try:
            rk = ranks(universe + [c for c in cats if c not in universe])
        except TypeError:
            return None
        if any(c not in rk for c in cats):
            return None
        tfc = tf_column(case, obs, col)
        if tfc is None:
            return None
        o = "OCount " + C.clist(list(zip(cats, counts)), lambda p: f"({C.cz(rk[p[0]])}, {C.cnat(p[1])})") + " " + \
            C.clist(tfc, lambda cell: C.clist(sorted(cell), C.cz))
        if s == "categorical" and is_t:
            # a frequency order of the raw cells (built here), re-sorted by the model, must be the statistics
            vals = cat_values(col)
            freq = sorted(set(vals), key=lambda v: (-vals.count(v), vals.index(v)))
            extra.append("target_resort_ok " + C.clist(freq, lambda v: f"({C.cz(rk[v])}, {C.cnat(vals.count(v))})") + " " +
                         C.clist(list(zip(cats, counts)), lambda p: f"({C.cz(rk[p[0]])}, {C.cnat(p[1])})"))
        if s == "categorical":
            c = f"CCat {C.cbool(is_t)} " + C.clist(col["cells"], lambda v: C.copt(v, lambda x: C.cz(rk[x])))
        else:
            c = "CMulti " + C.clist(col["cells"], lambda cell: C.copt(
                split_tokens(cell, col["sep"]), lambda l: C.clist(l, lambda x: C.cz(rk[x]))))
        return c, o
    if s == "timestamp":
        keys = ["YEAR_RANGE", "NEWEST_TIME", "OLDEST_TIME", "MEDIAN_TIME"]
        if set(st) != set(keys):
            return None

        def ct(cell):
            if cell is None or cell == "garbage":
                return "None"
            return f"(Some ({C.cz(epoch(cell))}, {C.clist(comps(cell), C.cz)}))"
        c = "CTime " + C.clist(col["cells"], ct)
        o = "OTime " + " ".join(C.clist(st[k], C.cz) for k in keys)
        return c, o
    # embeddings: widths of the vectors as materialized (public cells), EMB_DIM statistic
    tfc = tf_column(case, obs, col)
    if tfc is None or set(st) != {"EMB_DIM"}:
        return None
    if s == "embedding":
        c = "CEmb " + C.clist(col["cells"], lambda v: C.clist(v, cq))
    else:
        c = "CEmbedded " + C.clist([len(v) for v in tfc], C.cnat)
    return c, f"OEmb {C.cz(st['EMB_DIM'])}"


def same_stats(observed, direct):
    """the statistics `direct` (a compute_col_stats result) are contained in `observed` (count tables as sets of pairs:
    the binary-target re-sort may reorder them)"""
    if not isinstance(direct, dict) or "exc" in direct:
        return False
    for k, v in direct.items():
        if k not in observed:
            return False
        if k in ("COUNT", "MULTI_COUNT"):
            if sorted(zip(map(repr, v[0]), v[1])) != sorted(zip(map(repr, observed[k][0]), observed[k][1])):
                return False
        elif observed[k] != v:
            return False
    return True


def coq_history(case, obs):
    """Model/Stats.v run_history on the case's history: frame versions 0 (before the user's edit) and 1 (the frame finally
    materialized); every column's observed statistics are identified with the version they are the statistics of."""
    h = case.get("history")
    order = list(case["col_order"])
    raises, flags = [], [True]
    if not h:
        ops = [(order, 1)]
    elif h["kind"] == "retry":
        ops = [(order, 0), (order, 1)]
        flags = [obs.get("first_attempt") == "no-raise", True]
        raises = [] if flags[0] else [(c, 0) for c in order if "exc" in obs["direct_initial"].get(c, {})]
    else:
        sub = list(h["cols"]) + ([case["target"]] if case["target"] and case["target"] not in h["cols"] else [])
        ops = [(sub, 0), (order, 1)]
        raises = [(c, 0) for c in sub if "exc" in obs["direct_initial"].get(c, {})]
        flags = [True, True]
    vers = []
    for c in order:
        if same_stats(obs["stats"][c], obs["direct"].get(c)):
            vers.append(1)
        elif h and same_stats(obs["stats"][c], obs["direct_initial"].get(c)):
            vers.append(0)
        else:
            vers.append(-1)
    cs = lambda l: C.clist(l, C.cstr)   # noqa: E731
    return (f"history_ok {C.clist(raises, lambda p: f'({C.cstr(p[0])}, {C.cnat(p[1])})')} "
            f"{C.clist(ops, lambda o: f'({cs(o[0])}, {C.cnat(o[1])})')} {C.clist(flags, C.cbool)} {cs(order)} "
            f"{C.clist(vers, C.cz)}")


def coq_term(case, obs):
    if not obs.get("ok"):
        return None
    hist_term = coq_history(case, obs)
    case = final_desc(case)
    terms = []
    for col in case["cols"]:
        if col["stype"] == "text_tokenized":
            if obs["stats"][col["name"]] != {}:
                return "false"
            continue
        r = coq_col(case, obs, col, terms)
        if r is not None and r[0] == "skip":
            continue
        if r is None:
            return "false"
        terms.append(f"col_stats_ok ({r[0]}) ({r[1]})")
    # _update_col_stats: EMB_DIM of every column of the merged embedding feature from its offsets
    emb = obs["tf"]["names"].get("embedding")
    if emb:
        widths = [len(v) for v in obs["tf"]["feats"]["embedding"][0]] if obs["tf"]["num_rows"] else None
        if widths is not None:
            dims = [obs["stats"][nm].get("EMB_DIM") for nm in emb]
            if any(not isinstance(x, int) for x in dims):
                return "false"
            terms.append(f"update_col_stats_ok {C.clist(obs.get('emb_offset', []), C.cnat)} "
                         f"{C.clist(widths, C.cnat)} {C.clist(dims, C.cz)}")
    return "(" + " && ".join(terms + [hist_term]) + ")"
