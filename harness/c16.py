"""C16 — user text/image embedders and tokenizers get strings, once per row, in row order."""
from __future__ import annotations

import atexit
import functools
import collections
import collections.abc
import itertools
import json
import os
import shutil
import tempfile
import types

os.environ.setdefault("TQDM_DISABLE", "1")

import numpy as np  # noqa: E402
import pandas as pd  # noqa: E402
import torch  # noqa: E402

import torch_frame  # noqa: E402
from torch_frame.config.image_embedder import ImageEmbedder, ImageEmbedderConfig  # noqa: E402
from torch_frame.config.text_embedder import TextEmbedderConfig  # noqa: E402
from torch_frame.config.text_tokenizer import TextTokenizerConfig  # noqa: E402
from torch_frame.data import Dataset  # noqa: E402

from harness import common as C  # noqa: E402
from harness import dfgen as D  # noqa: E402

try:        # the mapper classes the property's anchors name; exercised directly when importable
    from torch_frame.data.mapper import EmbeddingTensorMapper, TextTokenizationTensorMapper
    HAVE_MAPPERS = True
except Exception:  # pragma: no cover
    HAVE_MAPPERS = False

PROP = "C16"
HEADER = "Require Import PF.Lib.ListX PF.Lib.Chunks PF.Model.Embedders."
MODEL_TARGETS = ["Model/Embedders.vo"]
SHARD = 150
RULE = ("DataFrames of 1-8 rows with 1-3 text_embedded / image_embedded / text_tokenized columns (any strings incl. "
        "'nan'/'None'/'' and non-ASCII, missing cells as None / np.nan / float('nan') / pd.NA, object / str / string dtype, five "
        "index labelings), batch_size in {None, 1..n+1}, per-column or shared configs, four tokenizer stub variants, "
        "embedder stubs returning float32 / float64 / int64 / float16, through Dataset.materialize or the mapper directly, "
        "followed by 0-2 further DataFrames through the SAME mapper objects / the dataset's converter; distinct = distinct (via, per-column (stype, dtype, "
        "missing kinds present, n vs batch_size relation, tokenizer variant), shared); non-trivial = every case (n >= 1)")
TRUSTED = [
    "Coq 8.16.1 kernel + vm_compute (no native_compute)",
    "hand-written model coq/Model/Embedders.v of EmbeddingTensorMapper.forward / TextTokenizationTensorMapper.forward / "
    "the converter's per-column config lookup, tied to /repo by this run's observational correspondence (recorded "
    "calls, assembled rows, raise/no-raise)",
    "the mini-batch loop is modelled as written (Python range(0, n, bs) + list slicing, Model/Embedders.v "
    "batch_slices) and PROVED equal to the consecutive chunks (c16_batch_loop_is_chunks); the correspondence evaluates "
    "that loop on every case",
    "modelled primitives: pandas Series.tolist() per dtype (str dtype stores missing values as NaN), Python str(), "
    "list slicing, torch.cat, MultiNestedTensor.from_tensor_mat as a column of cells",
    "harness/c16.py (generator, recording stubs, plain-Python chunking oracle, Coq literal printer)",
]
ASSUMPTIONS = [
    "callables are recording stubs whose output is a deterministic function of the argument list (row-wise except the "
    "batch-padded mapping-format tokenizer, whose rows are checked against the output for their own chunk)",
    "columns have at least one row (an empty column raises in every branch; outside the property)",
    "stub outputs are dyadic floats / small ints, so float32 round-trips are exact",
    "raise demands (see RAISE_DEMANDS): none.  For an image cell that cannot be opened the oracle accepts a raise OR one "
    "image per row with row i = forward_embed's output for the i-th image (a placeholder image is accepted, a dropped row "
    "is not); the Coq model of the default retrieval (raise at the first unopenable path) is compared when the "
    "implementation raised and not when it returned normally",
    "'called only with lists of Python strings (never a float or None)' is a typing fact of the Coq model "
    "(arg_lists : list (list string)), not a theorem about mapper.py; for the real code it is OBSERVED by this harness "
    "on every run: the stubs record the raw argument objects and the oracle requires type(args) is list and "
    "type(x) is str for every element of every call (keys nonlist-arg:* / nonstr-arg:*); which config family serves "
    "which stype (_get_mapper's dispatch) is likewise observed (each column has its own recording stub), not modelled",
]

# Clause-by-clause coverage of the property statement (PART A audit): clause -> oracle keys that judge it
# -> generator kinds that exercise it.  sanity() fails closed when a generator kind is never drawn.
CLAUSES = [
    ("called only with lists of Python strings",
     ["nonlist-arg:<stype>", "nonstr-arg:<stype>"],
     ["all three stypes x callable given as object / function / lambda / bound method / functools.partial; image "
      "embedders with overridden and with the library's default forward_retrieve (real PNG files)"]),
    ("a missing cell is passed as its string rendering, never as a float or None",
     ["nonstr-arg:*", "calls:* (expected rendering 'None' / 'nan' / '<NA>')"],
     ["missing kinds None / np.nan / float('nan') / pd.NA x dtypes object / str / string / category"]),
    ("covering the column's rows exactly once, in row order, in consecutive chunks of at most the configured batch "
     "size (a single call when no batch size is set)",
     ["calls:<stype>:<variant>:batched|unbatched", "image-embed-calls", "image-embed-args"],
     ["bs_vs_n: None, bs>n, bs=n, bs|n, rem1, rem>1; batch_size given by keyword / positionally / left at its default "
      "in the Config and in the mapper constructors; five index labelings incl. duplicated"]),
    ("outputs are assembled in the same row order: row i of the embedding / token tensors is the callable's output "
     "for row i's text",
     ["rows:*", "dtype:*", "column-missing:*", "raises:*", "history-aborted"],
     ["1-3 columns, per-column and shared configs, embedder output dtypes float32/float64/int64/float16, device "
      "omitted / None / torch.device / 'cpu' by keyword and positionally, repeated image paths"]),
    ("identically for batched and unbatched operation",
     ["rows:*:batched vs rows:*:unbatched against one batch-size independent reference", "dtype:*"],
     ["every (stype, dtype, tokenizer variant) x batch_size None / 1..n+1 (exhaustive tier)"]),
    ("and for both tokenizer output formats (one mapping of 2-D tensors, or a list of per-sentence mappings)",
     ["rows:text_tokenized:list/*", "rows:text_tokenized:dict/*", "raises:text_tokenized:*"],
     ["tok variants list/none, list/fixed, dict/batch, dict/fixed x mapping flavours dict / UserDict / "
      "MappingProxyType / custom Mapping"]),
    ("(history) every use of a mapper object / of the dataset's converter behaves like a fresh one",
     ["*:reuse"], ["via mapper: the same mapper object on 2-3 Series; via dataset: materialize then "
                   "convert_to_tensor_frame(df2)"]),
]

# FALSE-ALARM audit of the oracle's "must raise" demands: each with the words of the statement that back it.
RAISE_DEMANDS = [
    ("unopenable-image:row-not-covered:<kind> (formerly a bare must-raise)",
     "NOT a raise demand.  Backed by 'covering the column's rows exactly once, in row order' and 'row i of the resulting "
     "embedding ... is the callable's output for row i': the oracle accepts a raise OR one image per row of every chunk "
     "with row i = forward_embed's output for the i-th image.  A rewrite that substitutes a placeholder image for an "
     "unopenable path is ACCEPTED: the statement speaks of the user's callable (here forward_embed) and cannot say which "
     "image an unopenable path denotes; what it excludes is a row that is skipped, duplicated or shifted"),
    ("nonlist-arg:*, nonstr-arg:*", "backed by 'called only with lists of Python strings -- a missing cell is passed as its "
                                    "string rendering, never as a float or None' (a type demand, not a raise demand)"),
    ("raises:*, history-aborted, result-unreadable, column-missing:* are must-NOT-raise demands",
     "backed by 'row i of the resulting embedding or token tensors is the callable's output for row i's text' for every "
     "column in the quantifier (n >= 1)"),
    ("empty column / batch_size 0 / malformed tokenizer output (the code raises)", "NOT backed and never generated; the Coq "
     "examples c16_ex_empty_column_raises / c16_calls_unguarded_refuted describe the model only"),
]

# Every raise / assert / try-except / special-case branch / dtype cast of the anchored code (mapper.py embedder and
# tokenizer mappers, config/image_embedder.py, dataset.py _get_mapper / config canonicalisation), the generator kind that
# reaches it (required by sanity() unless marked n/a) and the oracle key that notices if it is removed, loosened or made
# to return a default.
ERROR_PATHS = [
    ("mapper.py: ser_list = [str(x) for x in ser.tolist()]  (cast of every cell to str)",
     "missing kinds x dtypes object/str/string/category", "nonstr-arg:*, calls:*"),
    ("mapper.py: self.batch_size is None -> single call | else range/slice loop", "bs=None, bs=1, n-1, n, n+1",
     "calls:*:batched|unbatched"),
    ("mapper.py: isinstance(tokenized_outputs, Mapping) (unbatched and batched)", "map_kind dict/userdict/proxy/custom x "
     "list/dict format", "raises:text_tokenized:*, rows:text_tokenized:*"),
    ("mapper.py: assert tensors.ndim == 2 / tensor.ndim == 1", "n/a: malformed tokenizer output is outside the property "
     "(callables are deterministic row-wise stubs)", "-"),
    ("mapper.py: emb.to(device), MultiEmbeddingTensor(...).to(device), tensor.to(device)",
     "device omitted/None/torch.device/'cpu' x embedder dtypes float32/float64/int64/float16", "dtype:*, rows:*"),
    ("mapper.py: torch.cat(emb_list, dim=0) (raises on an empty list / mismatching widths)", "n/a: n >= 1 and row-wise "
     "stubs; empty column raises in every branch (Props/C16.v c16_ex_empty_column_raises)", "-"),
    ("mapper.py: len(values[0]) (IndexError on an empty tensor)", "n/a: n >= 1", "-"),
    ("mapper.py: no clean-up of the embedder output (NaN / inf must arrive unchanged)",
     "nonfinite:nan|inf|-inf x batched/unbatched x float32/float64/float16", "rows:* (NaN-aware exact comparison)"),
    ("mapper.py: embedder is None -> np.stack(ser.values).astype(dtype)", "n/a: plain `embedding` stype, property C01", "-"),
    ("image_embedder.py: Image.open(path) raises for a missing / unreadable / non-image path (no try/except); modelled: "
     "Model/Embedders.v forward_retrieve / image_call / emb_forward_raising, theorems c16_image_*",
     "unopenable: nonexistent / directory / nonimage / missing cell at first / middle / last row",
     "unopenable-image:row-not-covered:<kind>, result-unreadable"),
    ("image_embedder.py: image.convert('RGB')", "non_rgb_file (grey-scale and RGBA PNGs)", "image-mode, image-embed-args"),
    ("image_embedder.py: one image per path, duplicates included", "real_images repeated/*", "image-embed-args, image-embed-calls"),
    ("dataset.py _get_mapper: config looked up by column name, one mapper per column and call",
     "one_config / one_callable / distinct_callables x equal_bs / none_vs_k / k_vs_k2; histories", "calls:*, *:reuse"),
    ("dataset.py canonicalize_col_to_pattern: single config broadcast | dict; ValueError for a missing column; "
     "TypeError for a value that is not a Config", "shared (single config) and per-column dicts; the two raises are n/a "
     "(a frame without a config for a text column is not in the quantifier)", "calls:*, column-missing:*"),
    ("dataset.py _merge_feat: text_embedded / image_embedded merged into the embedding stype",
     "text_embedded + image_embedded columns in one frame", "column-missing:*, rows:*"),
]

STYPES = ["text_embedded", "image_embedded", "text_tokenized"]
FAMILY = {"text_embedded": "col_to_text_embedder_cfg", "image_embedded": "col_to_image_embedder_cfg",
          "text_tokenized": "col_to_text_tokenizer_cfg"}
TOK_KEYS = ["input_ids", "attention_mask", "token_type_ids"]
TOK_VARIANTS = [("list", "none"), ("list", "fixed"), ("dict", "batch"), ("dict", "fixed")]
ALPHABET = ["a", "b", "Z", "0", " ", "|", ",", "é", "漢", "\"", "'", "\\", "\t", "\n", "-", "(*", "%"]
SPECIAL = ["", " ", "nan", "None", "NaN", "<NA>", "none", "0", "1.5", "a b", "x|y", "inf", "-inf", "inf", "nan"]
FIXED_LEN = 5


# ------------------------------------------------------------------ the stubs
def tok_ids(s):
    return [(ord(c) % 89) + 2 for c in s][:FIXED_LEN]


def tok_rows(variant, nkeys, chunk):
    """Pure reference of the tokenizer stubs: per-sentence mappings key -> list of ints for one call."""
    fmt, pad = variant
    idss = [tok_ids(s) for s in chunk]
    if pad == "fixed":
        L = FIXED_LEN
    elif pad == "batch":
        L = max([len(i) for i in idss] + [1])
    else:
        L = None
    rows = []
    for ids in idss:
        m = len(ids)
        if L is not None:
            full = ids + [0] * (L - m)
            mask = [1] * m + [0] * (L - m)
            typ = [7] * L
        else:
            full, mask, typ = ids, [1] * m, [7] * m
        rows.append(dict(zip(TOK_KEYS[:nkeys], [full, mask, typ][:nkeys])))
    return rows


def record(xs):
    return {"container": "list" if type(xs) is list else "not-list:" + type(xs).__name__,
            "elems": [x if type(x) is str else {"nonstr": type(x).__name__, "repr": repr(x)[:40]} for x in xs]}


EMB_DTYPES = {"float32": torch.float32, "float64": torch.float64, "int64": torch.int64, "float16": torch.float16}
# scale that makes every stub value of the dtype an exact integer (Coq literals)
EMB_SCALE = {"float32": 8, "float16": 8, "float64": 2 ** 20, "int64": 1}


def emb_vals(s, w, dt):
    """Deterministic output row of the stub embedders for one string.  float64 / int64 values are NOT representable
    in float32, so any silent down-cast on the way into the frame is visible."""
    base = D.hash_vec(s, w)                    # k/8 with 0 <= k < 64
    if dt == "int64":
        return [2 ** 40 + 1 + int(v * 8) for v in base]
    row = [(2 ** 40 + 1) + 0.1 + v for v in base] if dt == "float64" else list(base)   # exact in float32 / float16
    # a user embedder may legitimately return non-finite values: the frame must hold exactly what it returned
    # ('nan' is also the rendering of most missing cells)
    nf = NONFINITE.get(s)
    if nf is not None:
        row[0] = nf
    return row


NONFINITE = {"nan": float("nan"), "inf": float("inf"), "-inf": float("-inf")}


def jrow(row):
    """A row of floats in the JSON form the frames are read in (NaN -> None, inf -> 'inf')."""
    return [D.fnum(float(x)) if isinstance(x, float) else x for x in row]


class TextEmbedderStub:
    def __init__(self, w, dt="float32"):
        self.w, self.dt, self.calls = w, dt, []

    def __call__(self, xs):
        self.calls.append(record(xs))
        return torch.tensor([emb_vals(str(x), self.w, self.dt) for x in xs],
                            dtype=EMB_DTYPES[self.dt]).reshape(len(xs), self.w)


class ImageEmbedderStub(ImageEmbedder):
    """"Images" are the path strings themselves (no PIL); records what retrieval receives."""

    def __init__(self, w, dt="float32"):
        super().__init__()
        self.w, self.dt, self.calls, self.embed_sizes = w, dt, [], []

    def forward_retrieve(self, path_to_images):
        self.calls.append(record(path_to_images))
        return ["img:" + str(p) for p in path_to_images]

    def forward_embed(self, images):
        self.embed_sizes.append(len(images))
        return torch.tensor([emb_vals(str(x)[4:], self.w, self.dt) for x in images],
                            dtype=EMB_DTYPES[self.dt]).reshape(len(images), self.w)


# ---- real image files (default ImageEmbedder.forward_retrieve): tiny PNGs whose pixels encode the file's id
try:
    from PIL import Image as PILImage
    HAVE_PIL = True
except Exception:  # pragma: no cover
    HAVE_PIL = False
N_IMAGES = 6
_IMG_DIR = [None]


def img_dir():
    """Directory of the PNG files, created on first use and removed when the check exits."""
    if _IMG_DIR[0] is None:
        d = tempfile.mkdtemp(prefix="c16_img_")
        atexit.register(shutil.rmtree, d, True)
        for k in range(N_IMAGES):
            # files 4 and 5 are not RGB on disk (grey-scale, RGBA): retrieval must hand over RGB images
            if k == 4:
                im = PILImage.new("L", (2, 2), k)
            elif k == 5:
                im = PILImage.new("RGBA", (2, 2), (10 * k + 5, 200 - 7 * k, k, 255))
            else:
                im = PILImage.new("RGB", (2, 2), (10 * k + 5, 200 - 7 * k, k))
            im.save(os.path.join(d, f"img{k}.png"))
        with open(os.path.join(d, "notimg.txt"), "w") as f:
            f.write("this is not an image")
        os.mkdir(os.path.join(d, "adir.png"))
        _IMG_DIR[0] = d
    return _IMG_DIR[0]


UNOPENABLE = {"nonexistent": "nofile.png", "directory": "adir.png", "nonimage": "notimg.txt", "missing": None}

def img_id(path):
    return int(os.path.basename(path)[3:-4])


def img_vals(k, w):
    """Output row of RealImageEmbedderStub for image file k (small ints: exact in every dtype)."""
    return [(k + 1) * 4 + t for t in range(w)]


class RealImageEmbedderStub(ImageEmbedderStub):
    """A user subclass of the public ImageEmbedder that implements only forward_embed: the library's default
    forward_retrieve opens the files (this class only records what it was given before delegating to it).
    The embedding is derived from the pixel content."""

    def __init__(self, w, dt="float32"):
        super().__init__(w, dt)
        self.embed_ids, self.modes = [], []

    def forward_retrieve(self, path_to_images):
        self.calls.append(record(path_to_images))
        return ImageEmbedder.forward_retrieve(self, path_to_images)

    def forward_embed(self, images):
        self.modes.extend(im.mode for im in images)
        ids = [im.convert("RGB").getpixel((0, 0))[2] for im in images]
        self.embed_sizes.append(len(images))
        self.embed_ids.append(ids)
        return torch.tensor([img_vals(k, self.w) for k in ids], dtype=EMB_DTYPES[self.dt]).reshape(len(ids), self.w)


# ---- the Mapping flavours a tokenizer may return (HuggingFace's BatchEncoding is a UserDict)
class CustomMapping(collections.abc.Mapping):
    def __init__(self, d):
        self._d = dict(d)

    def __getitem__(self, k):
        return self._d[k]

    def __iter__(self):
        return iter(self._d)

    def __len__(self):
        return len(self._d)


MAP_KINDS = {"dict": dict, "userdict": collections.UserDict, "proxy": lambda d: types.MappingProxyType(dict(d)),
             "custom": CustomMapping}


class TokenizerStub:
    def __init__(self, variant, nkeys, map_kind="dict"):
        self.variant, self.nkeys, self.calls = tuple(variant), nkeys, []
        self.wrap = MAP_KINDS[map_kind]

    def __call__(self, xs):
        self.calls.append(record(xs))
        rows = tok_rows(self.variant, self.nkeys, [str(x) for x in xs])
        if self.variant[0] == "list":
            return [self.wrap({k: torch.tensor(v, dtype=torch.long) for k, v in r.items()}) for r in rows]
        return self.wrap({k: torch.tensor([r[k] for r in rows], dtype=torch.long).reshape(len(rows), -1)
                          for k in TOK_KEYS[:self.nkeys]})


def make_stub(col):
    if col["stype"] == "text_embedded":
        return TextEmbedderStub(col["w"], col.get("emb_dtype", "float32"))
    if col["stype"] == "image_embedded":
        cls = RealImageEmbedderStub if col.get("real_images") else ImageEmbedderStub
        return cls(col["w"], col.get("emb_dtype", "float32"))
    return TokenizerStub(col["tok"], col["nkeys"], col.get("map_kind", "dict"))


CALLABLE_FORMS = ["object", "function", "lambda", "method", "partial"]
DEVICE_FORMS = ["omitted", "none", "device", "str"]


def as_callable(col, stub):
    """The user callable in the form the case asks for (a class instance, a plain function, a lambda, a bound
    method, a functools.partial): all of them are `Callable[[list[str]], ...]`."""
    form = col.get("callable_form", "object")
    if form == "function":
        def user_function(xs):
            return stub(xs)
        return user_function
    if form == "lambda":
        return lambda xs: stub(xs)
    if form == "method":
        return stub.__call__
    if form == "partial":
        return functools.partial(stub)
    return stub


def device_kw(case):
    form = case.get("device_form", "omitted")
    if form == "none":
        return {"device": None}
    if form == "device":
        return {"device": torch.device("cpu")}
    if form == "str":
        return {"device": "cpu"}
    return {}


def make_cfg(col, stub, wrapped=False):
    cls, name = {"text_embedded": (TextEmbedderConfig, "text_embedder"),
                 "image_embedded": (ImageEmbedderConfig, "image_embedder"),
                 "text_tokenized": (TextTokenizerConfig, "text_tokenizer")}[col["stype"]]
    f = stub if wrapped else as_callable(col, stub)
    form = col.get("cfg_form", "kw")
    if form == "pos":
        return cls(f, col["batch_size"])                       # Config(callable, batch_size)
    if form == "bs_omitted" and col["batch_size"] is None:
        return cls(**{name: f})                                # batch_size left at its default (None)
    return cls(**{name: f, "batch_size": col["batch_size"]})


def make_mapper(col, stub):
    f = as_callable(col, stub)
    form = col.get("cfg_form", "kw")
    if col["stype"] == "text_tokenized":
        if form == "pos":
            return TextTokenizationTensorMapper(f, col["batch_size"])
        return TextTokenizationTensorMapper(text_tokenizer=f, batch_size=col["batch_size"])
    if form == "pos":
        return EmbeddingTensorMapper(f, col["batch_size"])
    if form == "bs_omitted" and col["batch_size"] is None:
        return EmbeddingTensorMapper(embedder=f)
    return EmbeddingTensorMapper(embedder=f, batch_size=col["batch_size"])


# ------------------------------------------------------------------ generation
def gen_string(rng):
    if rng.chance(0.3):
        return rng.pick(SPECIAL)
    return "".join(rng.pick(ALPHABET) for _ in range(rng.randint(1, 7)))


def gen_col(rng, name, st, n, bs=None, variant=None, miss_p=None, dtype=None, nan_kind=None):
    miss_p = rng.pick([0.0, 0.2, 0.5, 1.0]) if miss_p is None else miss_p
    pool = [gen_string(rng) for _ in range(rng.randint(1, 4))] if rng.chance(0.3) else None
    cells = [None if rng.chance(miss_p) else (rng.pick(pool) if pool else gen_string(rng)) for _ in range(n)]
    col = {"name": name, "stype": st, "dtype": dtype or rng.pick(["object", "str", "object", "str", "string", "category"]), "cells": cells,
           "nan_kind": nan_kind or rng.pick(["none", "nan", "pynan", "NA"]),
           "batch_size": (None if rng.chance(0.25) else
                          (rng.pick([1, max(1, n - 1), n, n + 1]) if rng.chance(0.5) else rng.randint(1, n + 1)))
           if bs is None else (bs or None)}
    if miss_p not in (0.0, 1.0) and rng.chance(0.3):
        k_ = rng.randint(1, n)
        col["cells"][n - k_:] = [None] * k_             # the LAST rows are missing
    col["cfg_form"] = rng.pick(["kw", "pos", "bs_omitted"])
    col["callable_form"] = rng.pick(CALLABLE_FORMS)
    if st == "text_tokenized":
        col["tok"] = list(variant or rng.pick(TOK_VARIANTS))
        col["nkeys"] = rng.randint(1, 3)
        col["map_kind"] = rng.pick(["dict", "dict", "userdict", "proxy", "custom"])
    else:
        col["w"] = rng.randint(1, 3)
        col["emb_dtype"] = rng.wpick([(5, "float32"), (3, "float64"), (1, "int64"), (1, "float16")])
    return col


def gen_cells(rng, n, miss_p):
    return [None if rng.chance(miss_p) else gen_string(rng) for _ in range(n)]


def gen_case(rng):
    n = rng.wpick([(1, 1), (2, 2), (2, 3), (5, rng.randint(4, 8))])
    k = rng.wpick([(4, 1), (3, 2), (3, 3)])
    names = rng.sample(["txt", "alpha", "Beta", "gamma", "img", "z9", "col 1", "δ"], k)
    sts = [rng.pick(STYPES) for _ in range(k)]
    if rng.chance(0.4):
        sts = [sts[0]] * k                       # several columns of one stype (cross-column wiring)
    cols = [gen_col(rng, names[i], sts[i], n) for i in range(k)]
    # the text_tokenized columns of one frame live in one dict of containers: same key set for all of them
    for c in cols:
        if c["stype"] == "text_tokenized":
            c["nkeys"] = next(x for x in cols if x["stype"] == "text_tokenized")["nkeys"]
    via = "mapper" if (HAVE_MAPPERS and rng.chance(0.25)) else "dataset"
    shared = []
    if via == "dataset":
        for st in STYPES:
            same = [c for c in cols if c["stype"] == st]
            if len(same) >= 2 and rng.chance(0.4):      # one config object for all columns of the stype
                shared.append(st)
                for c in same[1:]:
                    for f in ("batch_size", "tok", "nkeys", "w"):
                        if f in same[0]:
                            c[f] = same[0][f]
    # per-column configs that name ONE callable object but keep their own batch sizes
    shared_callable = []
    if via == "dataset":
        for st in STYPES:
            same = [c for c in cols if c["stype"] == st]
            if len(same) >= 2 and st not in shared and rng.chance(0.5):
                shared_callable.append(st)
                for c in same[1:]:
                    for f in ("tok", "nkeys", "w", "map_kind", "callable_form", "emb_dtype"):
                        if f in same[0]:
                            c[f] = same[0][f]
                # different batch sizes on purpose: None vs k, k vs k'
                opts = [None] + list(range(1, n + 2))
                rng.shuffle(opts)
                for c, b_ in zip(same, opts):
                    c["batch_size"] = b_
    case = {"n": n, "index": rng.pick(["range", "range", "offset", "perm", "string", "dup"]), "cols": cols,
            "via": via, "shared": shared, "shared_callable": shared_callable, "extra_num": via == "dataset" and rng.chance(0.3),
            "device_form": rng.pick(DEVICE_FORMS), "device_positional": rng.chance(0.5)}
    # image columns holding paths of real files, served by a subclass that relies on the library's default retrieval
    # (repeated paths within a chunk are the point; a missing path cannot be opened, so no missing cells)
    for c in cols:
        if HAVE_PIL and c["stype"] == "image_embedded" and "image_embedded" not in shared \
                and "image_embedded" not in shared_callable and rng.chance(0.45):
            c["real_images"] = True
            c["callable_form"] = "object"       # must stay the ImageEmbedder subclass instance
            pool = rng.sample(range(N_IMAGES), rng.randint(1, 3))
            c["cells"] = [f"img{rng.pick(pool)}.png" for _ in range(n)]
            if rng.chance(0.3):
                # one cell that cannot be opened as an image: the conversion must RAISE (dropping the row silently
                # would break "every row exactly once"); first / middle / last position
                kind = rng.pick(sorted(UNOPENABLE))
                pos = rng.pick(sorted({0, n // 2, n - 1}))
                c["cells"][pos] = UNOPENABLE[kind]
                c["bad_cell"] = {"kind": kind, "pos": pos}
    if via == "dataset":
        # the embedded columns of one frame are concatenated into one container: one output dtype for all of them
        embs = [c for c in cols if c["stype"] != "text_tokenized"]
        for c in embs:
            c["emb_dtype"] = embs[0]["emb_dtype"]
    order = [c["name"] for c in cols]
    rng.shuffle(order)
    case["col_order"] = order
    # history: the SAME mapper objects (via mapper) / the dataset's converter (via dataset) are applied to further
    # DataFrames of other lengths; each result must be what a fresh mapper gives
    case["more"] = []
    for _ in range(0 if any(c.get("bad_cell") for c in cols) else rng.wpick([(5, 0), (3, 1), (2, 2)])):
        m = rng.randint(1, 7)
        case["more"].append({"n": m, "index": rng.pick(["range", "offset", "dup"]),
                             "cells": {c["name"]: ([f"img{rng.randint(0, 2)}.png" for _ in range(m)]
                                                   if c.get("real_images") else gen_cells(rng, m, rng.pick([0.0, 0.3])))
                                       for c in cols}})
    return case


def views(case):
    """The frames of a case's history as case-like dicts (frame 0 = the case itself)."""
    out = [case]
    for m in case.get("more", []):
        out.append(dict(case, n=m["n"], index=m["index"],
                        cols=[dict(c, cells=m["cells"][c["name"]]) for c in case["cols"]]))
    return out


def exhaustive(rng):
    """n <= 5 x batch_size in {None, 1..n+1} x stype/tokenizer variant x dtype, one missing cell."""
    out = []
    for n in range(1, 6):
        for bs in [0] + list(range(1, n + 2)):              # 0 stands for None
            for st, variant in [("text_embedded", None), ("image_embedded", None), ("image_embedded", "real")] + \
                    [("text_tokenized", v) for v in TOK_VARIANTS]:
                for dtype in ("object", "str", "string"):
                    real = variant == "real"
                    if real and not HAVE_PIL:
                        continue
                    col = gen_col(rng, "txt", st, n, bs=bs, variant=None if real else variant, miss_p=0.0, dtype=dtype)
                    if real:
                        col["real_images"] = True
                        col["callable_form"] = "object"
                        col["cells"] = [f"img{(r * r) % 3}.png" for r in range(n)]       # repeated paths
                    else:
                        col["cells"][rng.randint(0, n - 1)] = None
                    if st == "text_tokenized":
                        col["map_kind"] = ["dict", "userdict", "proxy", "custom"][(n + bs) % 4]
                    out.append({"n": n, "index": "range", "cols": [col], "via": "dataset", "shared": [],
                                "extra_num": False, "col_order": ["txt"], "more": []})
    return out


def generate(rng, tier):
    cases = required_cases()            # every run, any seed, both tiers
    if tier == "quick":
        cases += [gen_case(rng) for _ in range(420)]
        cases += [c for c in exhaustive(rng) if c["n"] in (1, 3)]
    else:
        cases += [gen_case(rng) for _ in range(9000)]
        cases += exhaustive(rng)
    return cases


# -------------------------------------------------------------- implementation
def cell_text(col, c):
    """The string a non-missing cell holds (for a real-image column the path of the file)."""
    return os.path.join(img_dir(), c) if col.get("real_images") else c


def missing_value(nk):
    return {"none": None, "nan": np.nan, "pynan": float("nan"), "NA": pd.NA}[nk]


def build_df(case):
    data = {}
    by = {c["name"]: c for c in case["cols"]}
    for name in case["col_order"]:
        col = by[name]
        mv = missing_value(col["nan_kind"])
        vals = [mv if c is None else cell_text(col, c) for c in col["cells"]]
        if col["dtype"] == "category":
            data[name] = pd.Series(vals, dtype=object).astype("category")
        else:
            data[name] = pd.Series(vals, dtype={"str": "str", "string": "string"}.get(col["dtype"], object))
    if case.get("extra_num"):
        data["num"] = pd.Series([float(i) for i in range(case["n"])], dtype=float)
    df = pd.DataFrame(data)
    labels = D.index_labels(case["index"], case["n"])
    if labels is not None:
        df.index = labels
    return df


def stub_mark(stub):
    return (len(stub.calls), len(getattr(stub, "embed_sizes", [])))


def read_stub(stub, mark=(0, 0)):
    """What the stub recorded since `mark`."""
    o = {"calls": list(stub.calls[mark[0]:])}
    if isinstance(stub, ImageEmbedderStub):
        o["embed_sizes"] = list(stub.embed_sizes[mark[1]:])
    if isinstance(stub, RealImageEmbedderStub):
        o["embed_ids"] = list(stub.embed_ids[mark[1]:])
        o["modes"] = sorted(set(stub.modes))
    return o


def read_column(col, tfj):
    rec = {}
    parent = "text_tokenized" if col["stype"] == "text_tokenized" else "embedding"
    names = tfj["names"].get(parent, [])
    if col["name"] not in names:
        rec["missing_in_frame"] = True
        return rec
    j = names.index(col["name"])
    feat = tfj["feats"][parent]
    if parent == "text_tokenized":
        rec["rows"] = {k: [r[j] for r in v] for k, v in feat.items()}
    else:
        rec["rows"] = [r[j] for r in feat]
    rec["num_rows"] = tfj["num_rows"]
    return rec


def run(case):
    stubs, shared_stub = {}, {}
    one_obj = list(case["shared"]) + list(case.get("shared_callable", []))
    for col in case["cols"]:
        st = col["stype"]
        if st in one_obj:
            if st not in shared_stub:
                shared_stub[st] = make_stub(col)
            stubs[col["name"]] = shared_stub[st]
        else:
            stubs[col["name"]] = make_stub(col)
    frames = []
    vs = views(case)
    if case["via"] == "mapper":
        # one mapper object per column, used for every frame of the history
        mappers = {}
        for col in case["cols"]:
            mappers[col["name"]] = make_mapper(col, stubs[col["name"]])
        for v in vs:
            df = build_df(v)
            o = {"cols": {}}
            for col in v["cols"]:
                stub = stubs[col["name"]]
                mark = stub_mark(stub)
                rec = {}
                out = None
                try:
                    out = mappers[col["name"]].forward(df[col["name"]], **device_kw(case))
                except Exception as ex:
                    rec["exc"] = C.exc_name(ex)
                    rec["msg"] = str(ex)[:200]
                try:                        # reading the result is a separate matter from producing it
                    if out is None:
                        pass
                    elif col["stype"] == "text_tokenized":
                        rec["rows"] = {k: [r[0] for r in D.read_feat(x)] for k, x in out.items()}
                    else:
                        rec["rows"] = [r[0] for r in D.read_feat(out)]
                        rec["num_rows"] = out.num_rows
                        rec["dtype"] = str(out.values.dtype).replace("torch.", "")
                except Exception as ex:
                    rec["read_exc"] = f"{C.exc_name(ex)}: {str(ex)[:160]}"
                rec.update(read_stub(stub, mark))
                o["cols"][col["name"]] = rec
            frames.append(o)
    else:
        # through Dataset: the configs are given per column, or one config object per stype; frame 0 is
        # materialized, the further frames go through the dataset's converter
        kw = {}
        for st in STYPES:
            same = [c for c in case["cols"] if c["stype"] == st]
            if not same:
                continue
            if st in case["shared"]:
                kw[FAMILY[st]] = make_cfg(same[0], shared_stub[st])
            elif st in case.get("shared_callable", []):
                fn = as_callable(same[0], shared_stub[st])       # ONE callable object, a config per column
                kw[FAMILY[st]] = {c["name"]: make_cfg(c, fn, wrapped=True) for c in same}
            else:
                kw[FAMILY[st]] = {c["name"]: make_cfg(c, stubs[c["name"]]) for c in same}
        col_to_stype = {name: getattr(torch_frame, next(c for c in case["cols"] if c["name"] == name)["stype"])
                        for name in case["col_order"]}
        if case.get("extra_num"):
            col_to_stype["num"] = torch_frame.numerical
        ds = None
        for k, v in enumerate(vs):
            df = build_df(v)
            o = {"cols": {}}
            marks = {name: stub_mark(st_) for name, st_ in stubs.items()}
            tfj, tf, edt = None, None, None
            try:
                if k == 0:
                    ds = Dataset(df, col_to_stype, **kw)
                    dk = device_kw(case)
                    if dk and case.get("device_positional"):
                        ds.materialize(dk["device"])
                    else:
                        ds.materialize(**dk)
                    tf = ds.tensor_frame
                else:
                    dk = device_kw(case)
                    if dk and case.get("device_positional"):
                        tf = ds.convert_to_tensor_frame(df, dk["device"])
                    else:
                        tf = ds.convert_to_tensor_frame(df, **dk)
            except Exception as ex:
                o["exc"] = C.exc_name(ex)
                o["msg"] = str(ex)[:200]
                tf = None
            if tf is not None:
                try:                        # reading the result is a separate matter from producing it
                    tfj = D.read_tf(tf)
                    emb = tf.feat_dict.get(torch_frame.embedding)
                    edt = None if emb is None else str(emb.values.dtype).replace("torch.", "")
                except Exception as ex:
                    o["read_exc"] = f"{C.exc_name(ex)}: {str(ex)[:160]}"
                    tfj = None
            for col in v["cols"]:
                rec = read_stub(stubs[col["name"]], marks[col["name"]])
                if tfj is not None:
                    rec.update(read_column(col, tfj))
                    if col["stype"] != "text_tokenized":
                        rec["dtype"] = edt
                o["cols"][col["name"]] = rec
            frames.append(o)
            if ds is None:
                break
    obs = frames[0]
    obs["more"] = frames[1:]
    return obs


# ----------------------------------------------------------------------- oracle
def rendered(col):
    """What the callable must receive for every cell: the cell's string; a missing cell as the string
    rendering of the value pandas holds for it."""
    out = []
    for c in col["cells"]:
        if c is not None:
            out.append(cell_text(col, c))
        elif col["dtype"] == "str":
            out.append("nan")          # the NaN-backed native string dtype holds NaN for every missing value
        elif col["dtype"] == "string":
            out.append("<NA>")         # the NA-backed string dtype holds pd.NA
        elif col["dtype"] == "category":
            out.append("nan")          # a categorical column holds NaN for every missing value
        else:
            out.append({"none": "None", "nan": "nan", "pynan": "nan", "NA": "<NA>"}[col["nan_kind"]])
    return out


def py_chunks(xs, bs):
    if bs is None:
        return [list(xs)]
    return [xs[i:i + bs] for i in range(0, len(xs), bs)]


def expected_rows(col, chunks):
    if col["stype"] == "text_tokenized":
        keys = TOK_KEYS[:col["nkeys"]]
        rows = [r for ch in chunks for r in tok_rows(tuple(col["tok"]), col["nkeys"], ch)]
        return {k: [r[k] for r in rows] for k in keys}
    return [jrow(row_vals(col, s)) for ch in chunks for s in ch]


def row_vals(col, s):
    """The embedder stub's output row for the string s of column col."""
    if col.get("real_images"):
        return img_vals(img_id(s), col["w"])
    return emb_vals(s, col["w"], col.get("emb_dtype", "float32"))


def split_shared(case, obs):
    """For columns served by one callable object (one config for the stype, or per-column configs naming the same
    callable): attribute the recorded calls to the columns BY CONTENT.  A column is converted completely before the
    next one, so its calls are consecutive and cover its n rows; the order in which columns are processed is not part
    of the property."""
    per_col = {}
    n = case["n"]
    for st in list(case["shared"]) + list(case.get("shared_callable", [])):
        same = [c for c in case["cols"] if c["stype"] == st]
        calls = obs["cols"][same[0]["name"]]["calls"]
        groups, cur, cnt = [], [], 0
        ok = True
        for call in calls:
            cur.append(call)
            cnt += len(call["elems"])
            if cnt == n:
                groups.append(cur)
                cur, cnt = [], 0
            elif cnt > n:
                ok = False
                break
        if cur or len(groups) != len(same):
            ok = False
        if not ok:
            for c in same:
                per_col[c["name"]] = None
            continue
        # columns may hold identical text: prefer the column whose own chunking the group shows, then one with the
        # same text, then any (the per-column check then reports the discrepancy)
        left, todo = list(same), []
        for g in groups:
            elems = [call["elems"] for call in g]
            hit = next((c for c in left if py_chunks(rendered(c), c["batch_size"]) == elems), None)
            if hit is None:
                todo.append(g)
            else:
                left.remove(hit)
                per_col[hit["name"]] = g
        for g in todo:
            flat = [e for call in g for e in call["elems"]]
            hit = next((c for c in left if rendered(c) == flat), left[0])
            left.remove(hit)
            per_col[hit["name"]] = g
    return per_col


def col_calls(case, obs):
    shared = split_shared(case, obs)
    return {c["name"]: (shared[c["name"]] if c["name"] in shared else obs["cols"][c["name"]]["calls"])
            for c in case["cols"]}


def oracle(case, obs):
    if "harness_exc" in obs:
        return dict(key="harness-exc", what="harness failed to run the case: " + obs["harness_exc"], tb=obs.get("tb"))
    vs = views(case)
    frames = [obs] + list(obs.get("more", []))
    if len(frames) != len(vs):
        return dict(key="history-aborted", what=f"only {len(frames)} of {len(vs)} frames of the history were converted")
    for k, (v, o) in enumerate(zip(vs, frames)):
        f = oracle_frame(v, o)
        if f is not None:
            if k > 0:
                # every use of the same mapper / converter must behave like a fresh one
                f["key"] += ":reuse"
                f["what"] = f"on use #{k + 1} of the same {'mapper object' if case['via'] == 'mapper' else 'converter'}: " \
                            + f["what"]
                f["frame"] = k
            return f
    return None


def col_tag(col):
    mode = "unbatched" if col["batch_size"] is None else "batched"
    return f"{col['stype']}:{'/'.join(col['tok']) if col['stype'] == 'text_tokenized' else 'emb'}:{mode}"


def oracle_frame(case, obs):
    calls_of = col_calls(case, obs)
    # 1. only lists of Python strings (every call of every column, whatever happened afterwards)
    for col in case["cols"]:
        st = col["stype"]
        for call in obs["cols"][col["name"]]["calls"]:
            if call["container"] != "list":
                return dict(key=f"nonlist-arg:{st}", what=f"the {st} callable received a {call['container']}, not a list")
            bad = [e for e in call["elems"] if type(e) is not str]     # record() keeps str only if type(x) is str
            if bad:
                return dict(key=f"nonstr-arg:{st}", what=f"the {st} callable of column {col['name']!r} received a "
                            f"{bad[0]['nonstr']} ({bad[0]['repr']}) instead of a string", observed=call)
    # a real-image column with a cell that cannot be opened: the clean behaviour class is "raises"
    # a real-image column with a cell that cannot be opened.  The statement does not demand a raise; it demands
    # "covering the column's rows exactly once" and "row i ... is the callable's output for row i".  So: EITHER the
    # conversion raises, OR forward_embed got exactly one image per row of each chunk (whatever image stands in for
    # the unopenable cell; the files that can be opened must be the right ones) and the result has n rows with row i =
    # forward_embed's output for the i-th image it was given.  Dropping the row is the violation.
    bad = [c for c in case["cols"] if c.get("bad_cell")]
    if bad and ("exc" in obs or all("exc" in obs["cols"][c["name"]] for c in bad)):
        return None
    for c in bad:
        rec = obs["cols"][c["name"]]
        want = py_chunks(rendered(c), c["batch_size"])
        pos, ids = c["bad_cell"]["pos"], rec.get("embed_ids") or []
        flat = [i for ch in ids for i in ch]
        shape_ok = [len(ch) for ch in ids] == [len(w) for w in want]
        ids_ok = shape_ok and all(flat[r] == img_id(x) for r, x in enumerate(rendered(c)) if r != pos)
        rows_ok = shape_ok and rec.get("num_rows") == case["n"] and \
            rec.get("rows") == [jrow(img_vals(k, c["w"])) for k in flat]
        if not (ids_ok and rows_ok):
            return dict(key=f"unopenable-image:row-not-covered:{c['bad_cell']['kind']}",
                        what=f"column {c['name']!r} holds a cell that cannot be opened as an image ({c['bad_cell']['kind']}, "
                             f"row {pos}); the conversion neither raised nor covered every row: {rec.get('num_rows')} result "
                             f"rows for {case['n']} cells, forward_embed saw {rec.get('embed_sizes')} images for chunks of "
                             f"{[len(w) for w in want]}", observed=rec.get("rows"))
    if bad:
        rest = [c for c in case["cols"] if not c.get("bad_cell")]
        if not rest:
            return None
        case = dict(case, cols=rest)          # the other columns are judged as usual
    rx = obs.get("read_exc") or next((obs["cols"][c["name"]]["read_exc"] for c in case["cols"]
                                      if "read_exc" in obs["cols"][c["name"]]), None)
    if rx:
        return dict(key="result-unreadable", what=f"the conversion returned a frame whose cells cannot be read ({rx}): "
                                                  f"the result is ill-formed")
    if "exc" in obs:
        # the conversion of the whole frame raised: columns processed later were never reached, so attribute the
        # raise to the column whose callable was served completely (its assembly failed), else to the first one
        def served(c):
            got = calls_of[c["name"]]
            return got is not None and [x["elems"] for x in got] == py_chunks(rendered(c), c["batch_size"])
        done = [c for c in case["cols"] if served(c)]
        culprit = (done or case["cols"])[-1] if done else case["cols"][0]
        return dict(key=f"raises:{col_tag(culprit)}", what=f"raised {obs['exc']}: {obs.get('msg')}")
    for col in case["cols"]:
        st = col["stype"]
        tag = col_tag(col)
        rec = obs["cols"][col["name"]]
        # 2. every row exactly once, in row order, in consecutive chunks of at most batch_size
        want = py_chunks(rendered(col), col["batch_size"])
        got = calls_of[col["name"]]
        got_elems = None if got is None else [c["elems"] for c in got]
        if got_elems != want:
            return dict(key=f"calls:{tag}", what=f"the {st} callable of column {col['name']!r} (batch_size="
                        f"{col['batch_size']}) was not called with the consecutive chunks of the rendered column",
                        expected=want, observed=got_elems if got_elems is not None else rec["calls"])
        if col.get("real_images") and rec.get("modes") not in (None, [], ["RGB"]):
            return dict(key="image-mode", what=f"forward_embed of column {col['name']!r} received images in modes "
                                               f"{rec['modes']}, not RGB")
        if col.get("real_images"):
            want_ids = [[img_id(x) for x in w] for w in want]
            if rec.get("embed_ids") != want_ids:
                return dict(key="image-embed-args", what=f"forward_embed of column {col['name']!r} did not receive exactly "
                            f"one image per row of each chunk, in row order (image ids by pixel content)",
                            expected=want_ids, observed=rec.get("embed_ids"))
        if st == "image_embedded" and rec.get("embed_sizes") is not None and col["name"] in obs["cols"] \
                and st not in case["shared"] and st not in case.get("shared_callable", []) \
                and rec["embed_sizes"] != [len(w) for w in want]:
            return dict(key="image-embed-calls", what="forward_embed was not called once per retrieved batch",
                        expected=[len(w) for w in want], observed=rec["embed_sizes"])
        # 3. outputs assembled in row order
        if "exc" in obs or "exc" in rec:
            return dict(key=f"raises:{tag}", what=f"raised {obs.get('exc') or rec.get('exc')}: "
                                                   f"{obs.get('msg') or rec.get('msg')}")
        if rec.get("missing_in_frame"):
            return dict(key=f"column-missing:{st}", what=f"column {col['name']!r} is not in the materialized frame")
        if st != "text_tokenized" and rec.get("dtype") != col.get("emb_dtype", "float32"):
            return dict(key=f"dtype:{tag}", what=f"the embedder of column {col['name']!r} returns "
                        f"{col.get('emb_dtype', 'float32')} but the frame holds {rec.get('dtype')}",
                        expected=col.get("emb_dtype", "float32"), observed=rec.get("dtype"))
        exp = expected_rows(col, want)
        if rec.get("rows") != exp or (st != "text_tokenized" and rec.get("num_rows") != case["n"]):
            return dict(key=f"rows:{tag}", what=f"row i of the result for column {col['name']!r} is not the callable's "
                        f"output for row i's text", expected=exp, observed=rec.get("rows"))
    return None


# ----------------------------------------------------------------------- shrink
def shrink(case):
    cols = case["cols"]
    more = case.get("more", [])
    for k in range(len(more)):
        yield dict(case, more=more[:k] + more[k + 1:])
    for k, m in enumerate(more):
        if m["n"] > 1:
            for r in range(m["n"]):
                m2 = dict(m, n=m["n"] - 1, cells={name: cs[:r] + cs[r + 1:] for name, cs in m["cells"].items()})
                yield dict(case, more=more[:k] + [m2] + more[k + 1:])
    if len(cols) > 1:
        for k in range(len(cols)):
            rest = cols[:k] + cols[k + 1:]
            sh = [s for s in case["shared"] if sum(c["stype"] == s for c in rest) >= 2]
            sc = [s for s in case.get("shared_callable", []) if sum(c["stype"] == s for c in rest) >= 2]
            yield dict(case, cols=rest, col_order=[x for x in case["col_order"] if x != cols[k]["name"]], shared=sh,
                       shared_callable=sc)
    if case.get("extra_num"):
        yield dict(case, extra_num=False)
    if case["index"] != "range":
        yield dict(case, index="range")
    if case["n"] > 1 and not any(c.get("bad_cell") for c in cols):
        for r in range(case["n"]):
            yield dict(case, n=case["n"] - 1, cols=[dict(c, cells=c["cells"][:r] + c["cells"][r + 1:]) for c in cols])
    for k, c in enumerate(cols):
        for r, v in enumerate(c["cells"]):
            simple = "img0.png" if c.get("real_images") else "a"
            if c.get("bad_cell") and r == c["bad_cell"]["pos"]:
                continue
            if v not in (None, simple) and not (c.get("real_images") and simple in c["cells"]):
                yield dict(case, cols=cols[:k] + [dict(c, cells=c["cells"][:r] + [simple] + c["cells"][r + 1:])] + cols[k + 1:])
        if c["stype"] == "text_tokenized" and c["nkeys"] > 1:
            yield dict(case, cols=cols[:k] + [dict(c, nkeys=1)] + cols[k + 1:])


# --------------------------------------------------------------------- evidence
def bs_rel(n, bs):
    if bs is None:
        return "None"
    return "bs>n" if bs > n else "bs=n" if bs == n else "bs|n" if n % bs == 0 else "rem1" if n % bs == 1 else "rem>1"


def nontrivial_sig(case, obs):
    sig = [case["via"], case["shared"], case.get("shared_callable"), case["index"] == "dup", [m["n"] for m in case.get("more", [])]]
    for c in case["cols"]:
        miss = sorted({c["nan_kind"] for v in c["cells"] if v is None})
        sig.append([c["stype"], c["dtype"], miss, bs_rel(case["n"], c["batch_size"]), c.get("tok"), c.get("emb_dtype"),
                    c.get("map_kind"), c.get("real_images")])
    return json.dumps(sig)


def stats(cases, obss):
    d = {"total": 0, "via": {}, "stype": {}, "dtype": {}, "bs_vs_n": {}, "missing_kind": {}, "tok_variant": {},
         "ncols": {}, "shared": 0, "index": {}, "error_cases": 0, "n": {}}
    for c, o in zip(cases, obss):
        if c is None:
            continue
        d["total"] += 1
        d["via"][c["via"]] = d["via"].get(c["via"], 0) + 1
        d["ncols"][len(c["cols"])] = d["ncols"].get(len(c["cols"]), 0) + 1
        d["index"][c["index"]] = d["index"].get(c["index"], 0) + 1
        d["n"][c["n"]] = d["n"].get(c["n"], 0) + 1
        d["shared"] += bool(c["shared"])
        fm = d.setdefault("forms", {})

        def bump(k):
            fm[k] = fm.get(k, 0) + 1
        bump(f"device:{c['via']}:{c.get('device_form', 'omitted')}" +
             (":pos" if c["via"] == "dataset" and c.get("device_positional") and c.get("device_form", "omitted") != "omitted" else ""))
        for col in c["cols"]:
            bump(f"cfg:{c['via']}:{col.get('cfg_form', 'kw')}" + (":bs=None" if col["batch_size"] is None else ":bs=int"))
            bump(f"callable:{col['stype']}:{col.get('callable_form', 'object')}")
        bd = d.setdefault("boundary", {})

        def hit(k):
            bd[k] = bd.get(k, 0) + 1
        n_ = c["n"]
        if n_ == 1:
            hit("one_row")
        for st in STYPES:
            same = [x for x in c["cols"] if x["stype"] == st]
            if len(same) >= 2:
                bss = [x["batch_size"] for x in same]
                mode = "one_config" if st in c["shared"] else "one_callable" if st in c.get("shared_callable", []) \
                    else "distinct_callables"
                diff = "equal_bs" if len(set(bss)) == 1 else \
                    ("none_vs_k" if None in bss else "k_vs_k2")
                hit(f"{mode}:{diff}")
        for col in c["cols"]:
            b_ = col["batch_size"]
            for name, val in (("bs=1", 1), ("bs=n-1", n_ - 1), ("bs=n", n_), ("bs=n+1", n_ + 1)):
                if b_ == val and val >= 1:
                    hit(name)
            if b_ is None:
                hit("bs=None")
            if b_ and n_ > b_ and n_ % b_ == 1:
                hit("last_chunk_of_1")
            if col.get("bad_cell"):
                bc = col["bad_cell"]
                where = "first" if bc["pos"] == 0 else "last" if bc["pos"] == n_ - 1 else "middle"
                hit(f"unopenable:{bc['kind']}")
                hit(f"unopenable@{where}")
            if col["stype"] != "text_tokenized" and not col.get("real_images") and col.get("emb_dtype") != "int64":
                for sv in set(rendered(col)) & set(NONFINITE):
                    hit(f"nonfinite:{sv}:" + ("unbatched" if b_ is None else "batched"))
                    hit(f"nonfinite:{col.get('emb_dtype', 'float32')}")
            if col.get("real_images") and any(x in ("img4.png", "img5.png") for x in col["cells"] if x):
                hit("non_rgb_file")
            cs = col["cells"]
            if all(v is None for v in cs):
                hit("all_missing")
            elif cs[-1] is None:
                hit("trailing_missing")
            if cs[0] is None:
                hit("leading_missing")
        h = f"{c['via']}:{len(c.get('more', []))}"
        d.setdefault("history", {})[h] = d.setdefault("history", {}).get(h, 0) + 1
        if o and ("exc" in o or any("exc" in r for r in o.get("cols", {}).values())):
            d["error_cases"] += 1
        for col in c["cols"]:
            d["stype"][col["stype"]] = d["stype"].get(col["stype"], 0) + 1
            d["dtype"][col["dtype"]] = d["dtype"].get(col["dtype"], 0) + 1
            r = bs_rel(c["n"], col["batch_size"])
            d["bs_vs_n"][r] = d["bs_vs_n"].get(r, 0) + 1
            if any(v is None for v in col["cells"]):
                k = col["nan_kind"] + "/" + col["dtype"]
                d["missing_kind"][k] = d["missing_kind"].get(k, 0) + 1
            if col["stype"] == "text_tokenized":
                k = "/".join(col["tok"])
                d["tok_variant"][k] = d["tok_variant"].get(k, 0) + 1
                k = col["tok"][0] + "/" + col.get("map_kind", "dict") + ("/unbatched" if col["batch_size"] is None else "/batched")
                d.setdefault("map_kind", {})[k] = d.setdefault("map_kind", {}).get(k, 0) + 1
            else:
                if col.get("real_images"):
                    rep = len(set(col["cells"])) < len(col["cells"])
                    k = ("repeated" if rep else "distinct") + ("/unbatched" if col["batch_size"] is None else "/batched")
                    d.setdefault("real_images", {})[k] = d.setdefault("real_images", {}).get(k, 0) + 1
                k = col.get("emb_dtype", "float32") + ("/unbatched" if col["batch_size"] is None else "/batched")
                d.setdefault("emb_dtype", {})[k] = d.setdefault("emb_dtype", {}).get(k, 0) + 1
    return d


def never_drawn(d):
    """The kinds / argument forms / boundaries a run must contain (judged on the stats dict)."""
    probs = []
    for st in STYPES:
        if not d["stype"].get(st):
            probs.append(f"stype {st} never drawn")
    for k in ("object", "str", "string"):
        if not d["dtype"].get(k):
            probs.append(f"dtype {k} never drawn")
    for k in ("None", "bs>n", "bs=n", "bs|n", "rem1", "rem>1"):
        if not d["bs_vs_n"].get(k):
            probs.append(f"batch_size/rows relation {k} never drawn")
    for nk in ("none", "nan", "pynan", "NA"):
        for dt in ("object", "str"):
            if not d["missing_kind"].get(f"{nk}/{dt}"):
                probs.append(f"missing kind {nk} in a {dt} column never drawn")
    for v in TOK_VARIANTS:
        if not d["tok_variant"].get("/".join(v)):
            probs.append(f"tokenizer variant {v} never drawn")
    for k in (1, 2, 3):
        if not d["ncols"].get(k):
            probs.append(f"{k}-column frames never drawn")
    for k in ("range", "offset", "perm", "string", "dup"):
        if not d["index"].get(k):
            probs.append(f"index labeling {k} never drawn")
    if not d["shared"]:
        probs.append("shared (single) config never drawn")
    for via in (["mapper"] if HAVE_MAPPERS else []) + ["dataset"]:
        if not (d.get("history", {}).get(f"{via}:1", 0) + d.get("history", {}).get(f"{via}:2", 0)):
            probs.append(f"no history (second use of the same mapper / converter) via {via}")
    need = [f"device:dataset:{f}" for f in ("omitted", "none", "device", "str")] + \
           [f"device:dataset:{f}:pos" for f in ("none", "device", "str")] + \
           [f"cfg:dataset:{f}" for f in ("kw:bs=None", "kw:bs=int", "pos:bs=None", "pos:bs=int", "bs_omitted:bs=None")] + \
           [f"callable:{st}:{f}" for st in STYPES for f in CALLABLE_FORMS]
    if HAVE_MAPPERS:
        need += [f"device:mapper:{f}" for f in DEVICE_FORMS] + \
                [f"cfg:mapper:{f}" for f in ("kw:bs=None", "kw:bs=int", "pos:bs=None", "pos:bs=int", "bs_omitted:bs=None")]
    for k in need:
        if not d.get("forms", {}).get(k):
            probs.append(f"argument form {k} never drawn")
    for k in ("one_row", "bs=1", "bs=n-1", "bs=n", "bs=n+1", "bs=None", "last_chunk_of_1", "all_missing",
              "trailing_missing", "leading_missing", "one_config:equal_bs", "one_callable:none_vs_k",
              "one_callable:k_vs_k2", "distinct_callables:equal_bs", "distinct_callables:none_vs_k",
              "distinct_callables:k_vs_k2"):
        if not d.get("boundary", {}).get(k):
            probs.append(f"boundary {k} never drawn")
    nf = [f"nonfinite:{v}:{m}" for v in NONFINITE for m in ("batched", "unbatched")] + \
         [f"nonfinite:{dt}" for dt in ("float32", "float64", "float16")]
    unop = ([f"unopenable:{k}" for k in UNOPENABLE] + [f"unopenable@{w}" for w in ("first", "middle", "last")] +
            ["non_rgb_file"]) if HAVE_PIL else []
    for k in nf + unop:
        if not d.get("boundary", {}).get(k):
            probs.append(f"error path / representation {k} never drawn")
    if not d["dtype"].get("category"):
        probs.append("dtype category never drawn")
    for fmt in ("list", "dict"):
        for mk in MAP_KINDS:
            for mode in ("batched", "unbatched"):
                if not d.get("map_kind", {}).get(f"{fmt}/{mk}/{mode}"):
                    probs.append(f"tokenizer returning {mk} mappings in {fmt} format never drawn {mode}")
    if HAVE_PIL:
        for mode in ("batched", "unbatched"):
            if not d.get("real_images", {}).get(f"repeated/{mode}"):
                probs.append(f"real image files with repeated paths never drawn {mode}")
    for dt in EMB_DTYPES:
        for mode in ("batched", "unbatched"):
            if not d.get("emb_dtype", {}).get(f"{dt}/{mode}"):
                probs.append(f"embedder output dtype {dt} never drawn {mode}")
    if HAVE_MAPPERS and not d["via"].get("mapper"):
        probs.append("direct mapper path never drawn")
    if not d["via"].get("dataset"):
        probs.append("Dataset path never drawn")
    return probs


REQUIRED_SEED = 20261001


def required_cases():
    """A DETERMINISTIC stream (fixed seed, independent of the run's seed and tier) that contains every kind,
    argument form and boundary never_drawn() asks for, so that no seed can trip sanity() on an unchanged tree.
    Greedy cover: cases are drawn from a fixed-seed generator and kept when they add a kind not yet covered."""
    rng = C.Rng(REQUIRED_SEED)
    need = set(never_drawn(stats([], [])))
    kept = []
    for _ in range(20000):
        if not need:
            break
        c = gen_case(rng)
        got = need - set(never_drawn(stats([c], [None])))
        if got:
            kept.append(c)
            need -= got
    return kept


def sanity(cases, obss):
    """Fail-closed distribution check: a run that does not cover the distinctions the property quantifies over
    must not report green."""
    d = stats(cases, obss)
    probs = []
    tot = d["total"]
    if not tot:
        return ["no cases"]
    if d["error_cases"] > 0.1 * tot:
        probs.append(f"{d['error_cases']} of {tot} cases raise")
    probs += never_drawn(d)
    import inspect
    sigs = {"EmbeddingTensorMapper.__init__": (EmbeddingTensorMapper.__init__, ["self", "embedder", "batch_size"]),
            "EmbeddingTensorMapper.forward": (EmbeddingTensorMapper.forward, ["self", "ser", "device"]),
            "TextTokenizationTensorMapper.__init__": (TextTokenizationTensorMapper.__init__, ["self", "text_tokenizer", "batch_size"]),
            "TextTokenizationTensorMapper.forward": (TextTokenizationTensorMapper.forward, ["self", "ser", "device"]),
            "TextEmbedderConfig": (TextEmbedderConfig.__init__, ["self", "text_embedder", "batch_size"]),
            "TextTokenizerConfig": (TextTokenizerConfig.__init__, ["self", "text_tokenizer", "batch_size"]),
            "ImageEmbedderConfig": (ImageEmbedderConfig.__init__, ["self", "image_embedder", "batch_size"]),
            "ImageEmbedder.__call__": (ImageEmbedder.__call__, ["self", "path_to_images"]),
            "Dataset.materialize": (Dataset.materialize, ["self", "device", "path", "col_stats"])} if HAVE_MAPPERS else {}
    for name, (fn, want) in sigs.items():
        got = list(inspect.signature(fn).parameters)
        if got != want:
            probs.append(f"public signature of {name} changed: {got}; the audit of drawn argument forms must be redone")
    # every recorded call element must have been inspected: at least one missing cell must have reached a callable
    seen_missing = 0
    for c, o in zip(cases, obss):
        if c is None or not o or "cols" not in o:
            continue
        for col in c["cols"]:
            if any(v is None for v in col["cells"]) and o["cols"].get(col["name"], {}).get("calls"):
                seen_missing += 1
    if not seen_missing:
        probs.append("no missing cell ever reached a callable")
    return probs


# --------------------------------------------------------------------- Coq side
def cstr(s):
    assert "\x00" not in s
    return '"' + s.replace('"', '""') + '"%string'


def cvec(v, scale=1):
    out = []
    for x in v:
        if isinstance(x, float) and x != x:
            x = None
        if x in ("inf", "-inf") or (isinstance(x, float) and x in (float("inf"), float("-inf"))):
            out.append("(-424243)%Z" if x in ("inf", float("inf")) else "(-424244)%Z")      # +inf / -inf
            continue
        if x is None:
            out.append("(-424245)%Z")                                                          # NaN
            continue
        y = None if isinstance(x, str) else x * scale
        # a value the stubs cannot have produced (non-dyadic) is shipped as a marker
        out.append(C.cz(int(y)) if y is not None and y == int(y) else "(-424242)%Z")
    return "[" + "; ".join(out) + "]"


def ccell(col, v):
    if v is not None:
        return f"CStr {cstr(cell_text(col, v))}"
    return {"none": "CNone", "nan": "CNaN", "pynan": "CNaN", "NA": "CNA"}[col["nan_kind"]]


def cstrs(xs):
    return C.clist(xs, cstr)


def tok_out_literal(col, chunk):
    rows = tok_rows(tuple(col["tok"]), col["nkeys"], chunk)
    keys = TOK_KEYS[:col["nkeys"]]
    if col["tok"][0] == "list":
        return "(OutList " + C.clist(rows, lambda r: C.clist(keys, lambda k: f"({cstr(k)}, {cvec(r[k])})")) + ")"
    return "(OutMap " + C.clist(keys, lambda k: f"({cstr(k)}, {C.clist(rows, lambda r: cvec(r[k]))})") + ")"


def table_literal(col, chunks):
    if col.get("real_images"):
        return "[]"          # real-image columns are evaluated through c16_img_col (files table), not a call table
    ents = []
    for ch in chunks:
        if col["stype"] == "text_tokenized":
            o = tok_out_literal(col, ch)
        else:
            dt = col.get("emb_dtype", "float32")
            o = C.clist(ch, lambda s: cvec(row_vals(col, s), EMB_SCALE[dt]))
        ents.append(f"({cstrs(ch)}, {o})")
    return C.clist(ents)


def coq_term(case, obs):
    if "cols" not in obs:
        return None
    # the model is stateless: every frame of a history is an independent evaluation ("equals a fresh mapper")
    parts = []
    for v, o in zip(views(case), [obs] + list(obs.get("more", []))):
        parts.append(coq_term_frame(v, o))
    parts = [p_ for p_ in parts if p_]
    if not parts:
        return None
    return "(" + " && ".join(parts) + ")"


def files_literal(col):
    """path -> id its pixels encode (None = cannot be opened), for every distinct string of the column."""
    ents = []
    for s_ in sorted(set(rendered(col))):
        base = os.path.basename(s_)
        ok = os.path.dirname(s_) == img_dir() and base.startswith("img") and base.endswith(".png") \
            and base[3:-4].isdigit() and int(base[3:-4]) < N_IMAGES
        ents.append(f"({cstr(s_)}, {'Some ' + C.cnat(int(base[3:-4])) if ok else 'None'})")
    return "[" + "; ".join(ents) + "]"


def coq_term_frame(case, obs):
    calls_of = col_calls(case, obs)
    terms = []
    for st in STYPES:
        same = [c for c in case["cols"] if c["stype"] == st]
        if not same:
            continue
        tabs = {c["name"]: py_chunks(rendered(c), c["batch_size"]) for c in same}
        bsl = lambda c: C.copt(c["batch_size"], C.cnat)  # noqa: E731
        if st in case["shared"]:
            # one callable: its table covers the chunks of every column it serves
            allch = []
            for c in same:
                for ch in tabs[c["name"]]:
                    if ch not in allch:
                        allch.append(ch)
            names = sorted(c["name"] for c in same)
            cfgs = f"(cfg_broadcast {cstrs(names)} ({table_literal(same[0], allch)}, {bsl(same[0])}))"
        elif st in case.get("shared_callable", []):
            allch = []
            for c in same:
                for ch in tabs[c["name"]]:
                    if ch not in allch:
                        allch.append(ch)
            tab = table_literal(same[0], allch)            # one callable: one table; every column keeps ITS batch size
            cfgs = C.clist(same, lambda c: f"({cstr(c['name'])}, ({tab}, {bsl(c)}))")
        else:
            cfgs = C.clist(same, lambda c: f"({cstr(c['name'])}, ({table_literal(c, tabs[c['name']])}, {bsl(c)}))")
        for c in same:
            rec = obs["cols"][c["name"]]
            any_bad = any(x.get("bad_cell") for x in case["cols"])
            raised = "exc" in obs or "exc" in rec
            if any_bad and not (c.get("bad_cell") and raised and rec.get("calls")):
                # the model mirrors the current code's raise for an unopenable cell; a conversion that returned
                # normally there is judged by the oracle only, and the other columns of an aborted frame (also a
                # second unopenable column that was never reached) say nothing
                continue
            got = calls_of[c["name"]]
            if got is None:
                got = rec["calls"]
            calls = C.clist(got, lambda call: cstrs([e if isinstance(e, str) else f"<nonstr:{e['nonstr']}>"
                                                     for e in call["elems"]]))
            dt = {"str": "DStr", "category": "DStr", "string": "DStringNA"}.get(c["dtype"], "DObject")
            raw = C.clist(c["cells"], lambda v: ccell(c, v))
            failed = "exc" in obs or "exc" in rec or rec.get("missing_in_frame") or "rows" not in rec
            if st == "text_tokenized":
                res = "None" if failed else "(Some " + C.clist(
                    list(rec["rows"].items()), lambda kv: f"({cstr(kv[0])}, {C.clist(kv[1], cvec)})") + ")"
                terms.append(f"c16_tok_obs_eqb (c16_tok_col {cfgs} {cstr(c['name'])} {dt} {raw}) (Some ({calls}, {res}))")
            else:
                res = "None" if failed else \
                    f"(Some ({C.cnat(rec['num_rows'])}, " \
                    f"{C.clist(rec['rows'], lambda v: cvec(v, EMB_SCALE[c.get('emb_dtype', 'float32')]))}))"
                if c.get("real_images"):
                    # the library's default retrieval + the user's forward_embed (Model/Embedders.v ImageRetrieval)
                    terms.append(f"c16_emb_obs_eqb (c16_img_col {files_literal(c)} {C.cnat(c['w'])} "
                                 f"{C.cz(EMB_SCALE[c.get('emb_dtype', 'float32')])} {bsl(c)} {dt} {raw}) "
                                 f"(Some ({calls}, {res}))")
                    continue
                terms.append(f"c16_emb_obs_eqb (c16_emb_col {cfgs} {cstr(c['name'])} {dt} {raw}) (Some ({calls}, {res}))")
    if not terms:
        return None
    return "(" + " && ".join(terms) + ")"
