"""C16 — user text/image embedders and tokenizers get strings, once per row, in row order."""
from __future__ import annotations

import itertools
import json
import os

os.environ.setdefault("TQDM_DISABLE", "1")

import numpy as np  # noqa: E402
import pandas as pd  # noqa: E402
import torch  # noqa: E402

import torch_frame  # noqa: E402
from torch_frame.config.image_embedder import ImageEmbedder, ImageEmbedderConfig  # noqa: E402
from torch_frame.config.text_embedder import TextEmbedderConfig  # noqa: E402
from torch_frame.config.text_tokenizer import TextTokenizerConfig  # noqa: E402
from torch_frame.data import Dataset  # noqa: E402

from harness import common as C  # noqa: E402
from harness import dfgen as D  # noqa: E402

try:        # the mapper classes the property's anchors name; exercised directly when importable
    from torch_frame.data.mapper import EmbeddingTensorMapper, TextTokenizationTensorMapper
    HAVE_MAPPERS = True
except Exception:  # pragma: no cover
    HAVE_MAPPERS = False

PROP = "C16"
HEADER = "Require Import PF.Lib.ListX PF.Lib.Chunks PF.Model.Embedders."
MODEL_TARGETS = ["Model/Embedders.vo"]
SHARD = 150
RULE = ("DataFrames of 1-8 rows with 1-3 text_embedded / image_embedded / text_tokenized columns (any strings incl. "
        "'nan'/'None'/'' and non-ASCII, missing cells as None / np.nan / float('nan') / pd.NA, object / str / string dtype, five "
        "index labelings), batch_size in {None, 1..n+1}, per-column or shared configs, four tokenizer stub variants, "
        "through Dataset.materialize or the mapper directly; distinct = distinct (via, per-column (stype, dtype, "
        "missing kinds present, n vs batch_size relation, tokenizer variant), shared); non-trivial = every case (n >= 1)")
TRUSTED = [
    "Coq 8.16.1 kernel + vm_compute (no native_compute)",
    "hand-written model coq/Model/Embedders.v of EmbeddingTensorMapper.forward / TextTokenizationTensorMapper.forward / "
    "the converter's per-column config lookup, tied to /repo by this run's observational correspondence (recorded "
    "calls, assembled rows, raise/no-raise)",
    "modelled primitives: pandas Series.tolist() per dtype (str dtype stores missing values as NaN), Python str(), "
    "list slicing, torch.cat, MultiNestedTensor.from_tensor_mat as a column of cells",
    "harness/c16.py (generator, recording stubs, plain-Python chunking oracle, Coq literal printer)",
]
ASSUMPTIONS = [
    "callables are recording stubs whose output is a deterministic function of the argument list (row-wise except the "
    "batch-padded mapping-format tokenizer, whose rows are checked against the output for their own chunk)",
    "columns have at least one row (an empty column raises in every branch; outside the property)",
    "stub outputs are dyadic floats / small ints, so float32 round-trips are exact",
    "'called only with lists of Python strings (never a float or None)' is a typing fact of the Coq model "
    "(arg_lists : list (list string)), not a theorem about mapper.py; for the real code it is OBSERVED by this harness "
    "on every run: the stubs record the raw argument objects and the oracle requires type(args) is list and "
    "type(x) is str for every element of every call (keys nonlist-arg:* / nonstr-arg:*); which config family serves "
    "which stype (_get_mapper's dispatch) is likewise observed (each column has its own recording stub), not modelled",
]

STYPES = ["text_embedded", "image_embedded", "text_tokenized"]
FAMILY = {"text_embedded": "col_to_text_embedder_cfg", "image_embedded": "col_to_image_embedder_cfg",
          "text_tokenized": "col_to_text_tokenizer_cfg"}
TOK_KEYS = ["input_ids", "attention_mask", "token_type_ids"]
TOK_VARIANTS = [("list", "none"), ("list", "fixed"), ("dict", "batch"), ("dict", "fixed")]
ALPHABET = ["a", "b", "Z", "0", " ", "|", ",", "é", "漢", "\"", "'", "\\", "\t", "\n", "-", "(*", "%"]
SPECIAL = ["", " ", "nan", "None", "NaN", "<NA>", "none", "0", "1.5", "a b", "x|y"]
FIXED_LEN = 5


# ------------------------------------------------------------------ the stubs
def tok_ids(s):
    return [(ord(c) % 89) + 2 for c in s][:FIXED_LEN]


def tok_rows(variant, nkeys, chunk):
    """Pure reference of the tokenizer stubs: per-sentence mappings key -> list of ints for one call."""
    fmt, pad = variant
    idss = [tok_ids(s) for s in chunk]
    if pad == "fixed":
        L = FIXED_LEN
    elif pad == "batch":
        L = max([len(i) for i in idss] + [1])
    else:
        L = None
    rows = []
    for ids in idss:
        m = len(ids)
        if L is not None:
            full = ids + [0] * (L - m)
            mask = [1] * m + [0] * (L - m)
            typ = [7] * L
        else:
            full, mask, typ = ids, [1] * m, [7] * m
        rows.append(dict(zip(TOK_KEYS[:nkeys], [full, mask, typ][:nkeys])))
    return rows


def record(xs):
    return {"container": "list" if type(xs) is list else "not-list:" + type(xs).__name__,
            "elems": [x if type(x) is str else {"nonstr": type(x).__name__, "repr": repr(x)[:40]} for x in xs]}


class TextEmbedderStub:
    def __init__(self, w):
        self.w, self.calls = w, []

    def __call__(self, xs):
        self.calls.append(record(xs))
        return torch.tensor([D.hash_vec(str(x), self.w) for x in xs], dtype=torch.float32).reshape(len(xs), self.w)


class ImageEmbedderStub(ImageEmbedder):
    """"Images" are the path strings themselves (no PIL); records what retrieval receives."""

    def __init__(self, w):
        super().__init__()
        self.w, self.calls, self.embed_sizes = w, [], []

    def forward_retrieve(self, path_to_images):
        self.calls.append(record(path_to_images))
        return ["img:" + str(p) for p in path_to_images]

    def forward_embed(self, images):
        self.embed_sizes.append(len(images))
        return torch.tensor([D.hash_vec(str(x)[4:], self.w) for x in images],
                            dtype=torch.float32).reshape(len(images), self.w)


class TokenizerStub:
    def __init__(self, variant, nkeys):
        self.variant, self.nkeys, self.calls = tuple(variant), nkeys, []

    def __call__(self, xs):
        self.calls.append(record(xs))
        rows = tok_rows(self.variant, self.nkeys, [str(x) for x in xs])
        if self.variant[0] == "list":
            return [{k: torch.tensor(v, dtype=torch.long) for k, v in r.items()} for r in rows]
        return {k: torch.tensor([r[k] for r in rows], dtype=torch.long).reshape(len(rows), -1)
                for k in TOK_KEYS[:self.nkeys]}


def make_stub(col):
    if col["stype"] == "text_embedded":
        return TextEmbedderStub(col["w"])
    if col["stype"] == "image_embedded":
        return ImageEmbedderStub(col["w"])
    return TokenizerStub(col["tok"], col["nkeys"])


def make_cfg(col, stub):
    if col["stype"] == "text_embedded":
        return TextEmbedderConfig(text_embedder=stub, batch_size=col["batch_size"])
    if col["stype"] == "image_embedded":
        return ImageEmbedderConfig(image_embedder=stub, batch_size=col["batch_size"])
    return TextTokenizerConfig(text_tokenizer=stub, batch_size=col["batch_size"])


# ------------------------------------------------------------------ generation
def gen_string(rng):
    if rng.chance(0.3):
        return rng.pick(SPECIAL)
    return "".join(rng.pick(ALPHABET) for _ in range(rng.randint(1, 7)))


def gen_col(rng, name, st, n, bs=None, variant=None, miss_p=None, dtype=None, nan_kind=None):
    miss_p = rng.pick([0.0, 0.2, 0.5, 1.0]) if miss_p is None else miss_p
    pool = [gen_string(rng) for _ in range(rng.randint(1, 4))] if rng.chance(0.3) else None
    cells = [None if rng.chance(miss_p) else (rng.pick(pool) if pool else gen_string(rng)) for _ in range(n)]
    col = {"name": name, "stype": st, "dtype": dtype or rng.pick(["object", "str", "object", "str", "string"]), "cells": cells,
           "nan_kind": nan_kind or rng.pick(["none", "nan", "pynan", "NA"]),
           "batch_size": (None if rng.chance(0.25) else rng.randint(1, n + 1)) if bs is None else (bs or None)}
    if st == "text_tokenized":
        col["tok"] = list(variant or rng.pick(TOK_VARIANTS))
        col["nkeys"] = rng.randint(1, 3)
    else:
        col["w"] = rng.randint(1, 3)
    return col


def gen_case(rng):
    n = rng.wpick([(1, 1), (2, 2), (2, 3), (5, rng.randint(4, 8))])
    k = rng.wpick([(4, 1), (3, 2), (3, 3)])
    names = rng.sample(["txt", "alpha", "Beta", "gamma", "img", "z9", "col 1", "δ"], k)
    sts = [rng.pick(STYPES) for _ in range(k)]
    if rng.chance(0.4):
        sts = [sts[0]] * k                       # several columns of one stype (cross-column wiring)
    cols = [gen_col(rng, names[i], sts[i], n) for i in range(k)]
    # the text_tokenized columns of one frame live in one dict of containers: same key set for all of them
    for c in cols:
        if c["stype"] == "text_tokenized":
            c["nkeys"] = next(x for x in cols if x["stype"] == "text_tokenized")["nkeys"]
    via = "mapper" if (HAVE_MAPPERS and rng.chance(0.25)) else "dataset"
    shared = []
    if via == "dataset":
        for st in STYPES:
            same = [c for c in cols if c["stype"] == st]
            if len(same) >= 2 and rng.chance(0.4):      # one config object for all columns of the stype
                shared.append(st)
                for c in same[1:]:
                    for f in ("batch_size", "tok", "nkeys", "w"):
                        if f in same[0]:
                            c[f] = same[0][f]
    case = {"n": n, "index": rng.pick(["range", "range", "offset", "perm", "string", "dup"]), "cols": cols,
            "via": via, "shared": shared, "extra_num": via == "dataset" and rng.chance(0.3)}
    order = [c["name"] for c in cols]
    rng.shuffle(order)
    case["col_order"] = order
    return case


def exhaustive(rng):
    """n <= 5 x batch_size in {None, 1..n+1} x stype/tokenizer variant x dtype, one missing cell."""
    out = []
    for n in range(1, 6):
        for bs in [0] + list(range(1, n + 2)):              # 0 stands for None
            for st, variant in [("text_embedded", None), ("image_embedded", None)] + \
                    [("text_tokenized", v) for v in TOK_VARIANTS]:
                for dtype in ("object", "str", "string"):
                    col = gen_col(rng, "txt", st, n, bs=bs, variant=variant, miss_p=0.0, dtype=dtype)
                    col["cells"][rng.randint(0, n - 1)] = None
                    out.append({"n": n, "index": "range", "cols": [col], "via": "dataset", "shared": [],
                                "extra_num": False, "col_order": ["txt"]})
    return out


def generate(rng, tier):
    if tier == "quick":
        cases = [gen_case(rng) for _ in range(450)]
        cases += [c for c in exhaustive(rng) if c["n"] in (1, 3)]
    else:
        cases = [gen_case(rng) for _ in range(9000)]
        cases += exhaustive(rng)
    return cases


# -------------------------------------------------------------- implementation
def missing_value(nk):
    return {"none": None, "nan": np.nan, "pynan": float("nan"), "NA": pd.NA}[nk]


def build_df(case):
    data = {}
    by = {c["name"]: c for c in case["cols"]}
    for name in case["col_order"]:
        col = by[name]
        mv = missing_value(col["nan_kind"])
        vals = [mv if c is None else c for c in col["cells"]]
        data[name] = pd.Series(vals, dtype={"str": "str", "string": "string"}.get(col["dtype"], object))
    if case.get("extra_num"):
        data["num"] = pd.Series([float(i) for i in range(case["n"])], dtype=float)
    df = pd.DataFrame(data)
    labels = D.index_labels(case["index"], case["n"])
    if labels is not None:
        df.index = labels
    return df


def read_stub(stub):
    o = {"calls": list(stub.calls)}
    if isinstance(stub, ImageEmbedderStub):
        o["embed_sizes"] = list(stub.embed_sizes)
    return o


def run(case):
    df = build_df(case)
    stubs, shared_stub = {}, {}
    for col in case["cols"]:
        st = col["stype"]
        if st in case["shared"]:
            if st not in shared_stub:
                shared_stub[st] = make_stub(col)
            stubs[col["name"]] = shared_stub[st]
        else:
            stubs[col["name"]] = make_stub(col)
    obs = {"cols": {}}
    if case["via"] == "mapper":
        for col in case["cols"]:
            stub = stubs[col["name"]]
            rec = {}
            try:
                if col["stype"] == "text_tokenized":
                    out = TextTokenizationTensorMapper(stub, col["batch_size"]).forward(df[col["name"]])
                    rec["rows"] = {k: [r[0] for r in D.read_feat(v)] for k, v in out.items()}
                else:
                    out = EmbeddingTensorMapper(stub, col["batch_size"]).forward(df[col["name"]])
                    rec["rows"] = [r[0] for r in D.read_feat(out)]
                    rec["num_rows"] = out.num_rows
            except Exception as ex:
                rec["exc"] = C.exc_name(ex)
                rec["msg"] = str(ex)[:200]
            rec.update(read_stub(stub))
            obs["cols"][col["name"]] = rec
        return obs
    # through Dataset: the configs are given per column, or one config object per stype
    kw = {}
    for st in STYPES:
        same = [c for c in case["cols"] if c["stype"] == st]
        if not same:
            continue
        if st in case["shared"]:
            kw[FAMILY[st]] = make_cfg(same[0], shared_stub[st])
        else:
            kw[FAMILY[st]] = {c["name"]: make_cfg(c, stubs[c["name"]]) for c in same}
    col_to_stype = {name: getattr(torch_frame, next(c for c in case["cols"] if c["name"] == name)["stype"])
                    for name in case["col_order"]}
    if case.get("extra_num"):
        col_to_stype["num"] = torch_frame.numerical
    try:
        ds = Dataset(df, col_to_stype, **kw)
        ds.materialize()
        tfj = D.read_tf(ds.tensor_frame)
    except Exception as ex:
        obs["exc"] = C.exc_name(ex)
        obs["msg"] = str(ex)[:200]
        tfj = None
    for col in case["cols"]:
        rec = read_stub(stubs[col["name"]])
        if tfj is not None:
            parent = "text_tokenized" if col["stype"] == "text_tokenized" else "embedding"
            names = tfj["names"].get(parent, [])
            if col["name"] not in names:
                rec["missing_in_frame"] = True
            else:
                j = names.index(col["name"])
                feat = tfj["feats"][parent]
                if parent == "text_tokenized":
                    rec["rows"] = {k: [r[j] for r in v] for k, v in feat.items()}
                else:
                    rec["rows"] = [r[j] for r in feat]
                rec["num_rows"] = tfj["num_rows"]
        obs["cols"][col["name"]] = rec
    return obs


# ----------------------------------------------------------------------- oracle
def rendered(col):
    """What the callable must receive for every cell: the cell's string; a missing cell as the string
    rendering of the value pandas holds for it."""
    out = []
    for c in col["cells"]:
        if c is not None:
            out.append(c)
        elif col["dtype"] == "str":
            out.append("nan")          # the NaN-backed native string dtype holds NaN for every missing value
        elif col["dtype"] == "string":
            out.append("<NA>")         # the NA-backed string dtype holds pd.NA
        else:
            out.append({"none": "None", "nan": "nan", "pynan": "nan", "NA": "<NA>"}[col["nan_kind"]])
    return out


def py_chunks(xs, bs):
    if bs is None:
        return [list(xs)]
    return [xs[i:i + bs] for i in range(0, len(xs), bs)]


def expected_rows(col, chunks):
    if col["stype"] == "text_tokenized":
        keys = TOK_KEYS[:col["nkeys"]]
        rows = [r for ch in chunks for r in tok_rows(tuple(col["tok"]), col["nkeys"], ch)]
        return {k: [r[k] for r in rows] for k in keys}
    return [D.hash_vec(s, col["w"]) for ch in chunks for s in ch]


def split_shared(case, obs):
    """For columns served by one shared callable: attribute its recorded calls to the columns
    (the order in which columns are processed is not part of the property)."""
    per_col = {}
    for st in case["shared"]:
        same = [c for c in case["cols"] if c["stype"] == st]
        calls = obs["cols"][same[0]["name"]]["calls"]
        exp = {c["name"]: py_chunks(rendered(c), c["batch_size"]) for c in same}
        m = len(next(iter(exp.values())))
        groups = [calls[i:i + m] for i in range(0, len(calls), m)]
        ok = len(calls) == m * len(same)
        chosen = None
        if ok:
            for perm in itertools.permutations([c["name"] for c in same]):
                if all([x["elems"] for x in g] == exp[name] for g, name in zip(groups, perm)):
                    chosen = perm
                    break
            if chosen is None:
                chosen = tuple(sorted(c["name"] for c in same))
            for g, name in zip(groups, chosen):
                per_col[name] = g
        else:
            for c in same:
                per_col[c["name"]] = None
    return per_col


def col_calls(case, obs):
    shared = split_shared(case, obs)
    return {c["name"]: (shared[c["name"]] if c["name"] in shared else obs["cols"][c["name"]]["calls"])
            for c in case["cols"]}


def oracle(case, obs):
    if "harness_exc" in obs:
        return dict(key="harness-exc", what="harness failed to run the case: " + obs["harness_exc"], tb=obs.get("tb"))
    calls_of = col_calls(case, obs)
    for col in case["cols"]:
        st = col["stype"]
        mode = "unbatched" if col["batch_size"] is None else "batched"
        tag = f"{st}:{'/'.join(col['tok']) if st == 'text_tokenized' else 'emb'}:{mode}"
        rec = obs["cols"][col["name"]]
        # 1. only lists of Python strings
        for call in rec["calls"]:
            if call["container"] != "list":
                return dict(key=f"nonlist-arg:{st}", what=f"the {st} callable received a {call['container']}, not a list")
            bad = [e for e in call["elems"] if type(e) is not str]     # record() keeps str only if type(x) is str
            if bad:
                return dict(key=f"nonstr-arg:{st}", what=f"the {st} callable of column {col['name']!r} received a "
                            f"{bad[0]['nonstr']} ({bad[0]['repr']}) instead of a string", observed=call)
        # 2. every row exactly once, in row order, in consecutive chunks of at most batch_size
        want = py_chunks(rendered(col), col["batch_size"])
        got = calls_of[col["name"]]
        got_elems = None if got is None else [c["elems"] for c in got]
        if got_elems != want:
            return dict(key=f"calls:{tag}", what=f"the {st} callable of column {col['name']!r} (batch_size="
                        f"{col['batch_size']}) was not called with the consecutive chunks of the rendered column",
                        expected=want, observed=got_elems if got_elems is not None else rec["calls"])
        if st == "image_embedded" and rec.get("embed_sizes") is not None and col["name"] in obs["cols"] \
                and st not in case["shared"] and rec["embed_sizes"] != [len(w) for w in want]:
            return dict(key="image-embed-calls", what="forward_embed was not called once per retrieved batch",
                        expected=[len(w) for w in want], observed=rec["embed_sizes"])
        # 3. outputs assembled in row order
        if "exc" in obs or "exc" in rec:
            return dict(key=f"raises:{tag}", what=f"raised {obs.get('exc') or rec.get('exc')}: "
                                                   f"{obs.get('msg') or rec.get('msg')}")
        if rec.get("missing_in_frame"):
            return dict(key=f"column-missing:{st}", what=f"column {col['name']!r} is not in the materialized frame")
        exp = expected_rows(col, want)
        if rec.get("rows") != exp or (st != "text_tokenized" and rec.get("num_rows") != case["n"]):
            return dict(key=f"rows:{tag}", what=f"row i of the result for column {col['name']!r} is not the callable's "
                        f"output for row i's text", expected=exp, observed=rec.get("rows"))
    return None


# ----------------------------------------------------------------------- shrink
def shrink(case):
    cols = case["cols"]
    if len(cols) > 1:
        for k in range(len(cols)):
            rest = cols[:k] + cols[k + 1:]
            sh = [s for s in case["shared"] if sum(c["stype"] == s for c in rest) >= 2]
            yield dict(case, cols=rest, col_order=[x for x in case["col_order"] if x != cols[k]["name"]], shared=sh)
    if case.get("extra_num"):
        yield dict(case, extra_num=False)
    if case["index"] != "range":
        yield dict(case, index="range")
    if case["n"] > 1:
        for r in range(case["n"]):
            yield dict(case, n=case["n"] - 1, cols=[dict(c, cells=c["cells"][:r] + c["cells"][r + 1:]) for c in cols])
    for k, c in enumerate(cols):
        for r, v in enumerate(c["cells"]):
            if v not in (None, "a"):
                yield dict(case, cols=cols[:k] + [dict(c, cells=c["cells"][:r] + ["a"] + c["cells"][r + 1:])] + cols[k + 1:])
        if c["stype"] == "text_tokenized" and c["nkeys"] > 1:
            yield dict(case, cols=cols[:k] + [dict(c, nkeys=1)] + cols[k + 1:])


# --------------------------------------------------------------------- evidence
def bs_rel(n, bs):
    if bs is None:
        return "None"
    return "bs>n" if bs > n else "bs=n" if bs == n else "bs|n" if n % bs == 0 else "rem1" if n % bs == 1 else "rem>1"


def nontrivial_sig(case, obs):
    sig = [case["via"], case["shared"], case["index"] == "dup"]
    for c in case["cols"]:
        miss = sorted({c["nan_kind"] for v in c["cells"] if v is None})
        sig.append([c["stype"], c["dtype"], miss, bs_rel(case["n"], c["batch_size"]), c.get("tok")])
    return json.dumps(sig)


def stats(cases, obss):
    d = {"total": 0, "via": {}, "stype": {}, "dtype": {}, "bs_vs_n": {}, "missing_kind": {}, "tok_variant": {},
         "ncols": {}, "shared": 0, "index": {}, "error_cases": 0, "n": {}}
    for c, o in zip(cases, obss):
        if c is None:
            continue
        d["total"] += 1
        d["via"][c["via"]] = d["via"].get(c["via"], 0) + 1
        d["ncols"][len(c["cols"])] = d["ncols"].get(len(c["cols"]), 0) + 1
        d["index"][c["index"]] = d["index"].get(c["index"], 0) + 1
        d["n"][c["n"]] = d["n"].get(c["n"], 0) + 1
        d["shared"] += bool(c["shared"])
        if o and ("exc" in o or any("exc" in r for r in o.get("cols", {}).values())):
            d["error_cases"] += 1
        for col in c["cols"]:
            d["stype"][col["stype"]] = d["stype"].get(col["stype"], 0) + 1
            d["dtype"][col["dtype"]] = d["dtype"].get(col["dtype"], 0) + 1
            r = bs_rel(c["n"], col["batch_size"])
            d["bs_vs_n"][r] = d["bs_vs_n"].get(r, 0) + 1
            if any(v is None for v in col["cells"]):
                k = col["nan_kind"] + "/" + col["dtype"]
                d["missing_kind"][k] = d["missing_kind"].get(k, 0) + 1
            if col["stype"] == "text_tokenized":
                k = "/".join(col["tok"])
                d["tok_variant"][k] = d["tok_variant"].get(k, 0) + 1
    return d


def sanity(cases, obss):
    """Fail-closed distribution check: a run that does not cover the distinctions the property quantifies over
    must not report green."""
    d = stats(cases, obss)
    probs = []
    tot = d["total"]
    if not tot:
        return ["no cases"]
    if d["error_cases"] > 0.1 * tot:
        probs.append(f"{d['error_cases']} of {tot} cases raise")
    for st in STYPES:
        if not d["stype"].get(st):
            probs.append(f"stype {st} never drawn")
    for k in ("object", "str", "string"):
        if not d["dtype"].get(k):
            probs.append(f"dtype {k} never drawn")
    for k in ("None", "bs>n", "bs=n", "bs|n", "rem1", "rem>1"):
        if not d["bs_vs_n"].get(k):
            probs.append(f"batch_size/rows relation {k} never drawn")
    for nk in ("none", "nan", "pynan", "NA"):
        for dt in ("object", "str"):
            if not d["missing_kind"].get(f"{nk}/{dt}"):
                probs.append(f"missing kind {nk} in a {dt} column never drawn")
    for v in TOK_VARIANTS:
        if not d["tok_variant"].get("/".join(v)):
            probs.append(f"tokenizer variant {v} never drawn")
    for k in (1, 2, 3):
        if not d["ncols"].get(k):
            probs.append(f"{k}-column frames never drawn")
    for k in ("range", "offset", "perm", "string", "dup"):
        if not d["index"].get(k):
            probs.append(f"index labeling {k} never drawn")
    if not d["shared"]:
        probs.append("shared (single) config never drawn")
    if HAVE_MAPPERS and not d["via"].get("mapper"):
        probs.append("direct mapper path never drawn")
    if not d["via"].get("dataset"):
        probs.append("Dataset path never drawn")
    # every recorded call element must have been inspected: at least one missing cell must have reached a callable
    seen_missing = 0
    for c, o in zip(cases, obss):
        if c is None or not o or "cols" not in o:
            continue
        for col in c["cols"]:
            if any(v is None for v in col["cells"]) and o["cols"].get(col["name"], {}).get("calls"):
                seen_missing += 1
    if not seen_missing:
        probs.append("no missing cell ever reached a callable")
    return probs


# --------------------------------------------------------------------- Coq side
def cstr(s):
    assert "\x00" not in s
    return '"' + s.replace('"', '""') + '"%string'


def cvec(v, scale=1):
    out = []
    for x in v:
        y = None if x is None or isinstance(x, str) else x * scale
        # a value the stubs cannot have produced (NaN, inf, non-dyadic) is shipped as a marker
        out.append(C.cz(int(y)) if y is not None and y == int(y) else "(-424242)%Z")
    return "[" + "; ".join(out) + "]"


def ccell(col, v):
    if v is not None:
        return f"CStr {cstr(v)}"
    return {"none": "CNone", "nan": "CNaN", "pynan": "CNaN", "NA": "CNA"}[col["nan_kind"]]


def cstrs(xs):
    return C.clist(xs, cstr)


def tok_out_literal(col, chunk):
    rows = tok_rows(tuple(col["tok"]), col["nkeys"], chunk)
    keys = TOK_KEYS[:col["nkeys"]]
    if col["tok"][0] == "list":
        return "(OutList " + C.clist(rows, lambda r: C.clist(keys, lambda k: f"({cstr(k)}, {cvec(r[k])})")) + ")"
    return "(OutMap " + C.clist(keys, lambda k: f"({cstr(k)}, {C.clist(rows, lambda r: cvec(r[k]))})") + ")"


def table_literal(col, chunks):
    ents = []
    for ch in chunks:
        if col["stype"] == "text_tokenized":
            o = tok_out_literal(col, ch)
        else:
            o = C.clist(ch, lambda s: cvec(D.hash_vec(s, col["w"]), 8))
        ents.append(f"({cstrs(ch)}, {o})")
    return C.clist(ents)


def coq_term(case, obs):
    if "cols" not in obs:
        return None
    calls_of = col_calls(case, obs)
    terms = []
    for st in STYPES:
        same = [c for c in case["cols"] if c["stype"] == st]
        if not same:
            continue
        tabs = {c["name"]: py_chunks(rendered(c), c["batch_size"]) for c in same}
        bsl = lambda c: C.copt(c["batch_size"], C.cnat)  # noqa: E731
        if st in case["shared"]:
            # one callable: its table covers the chunks of every column it serves
            allch = []
            for c in same:
                for ch in tabs[c["name"]]:
                    if ch not in allch:
                        allch.append(ch)
            names = sorted(c["name"] for c in same)
            cfgs = f"(cfg_broadcast {cstrs(names)} ({table_literal(same[0], allch)}, {bsl(same[0])}))"
        else:
            cfgs = C.clist(same, lambda c: f"({cstr(c['name'])}, ({table_literal(c, tabs[c['name']])}, {bsl(c)}))")
        for c in same:
            rec = obs["cols"][c["name"]]
            got = calls_of[c["name"]]
            if got is None:
                got = rec["calls"]
            calls = C.clist(got, lambda call: cstrs([e if isinstance(e, str) else f"<nonstr:{e['nonstr']}>"
                                                     for e in call["elems"]]))
            dt = {"str": "DStr", "string": "DStringNA"}.get(c["dtype"], "DObject")
            raw = C.clist(c["cells"], lambda v: ccell(c, v))
            failed = "exc" in obs or "exc" in rec or rec.get("missing_in_frame") or "rows" not in rec
            if st == "text_tokenized":
                res = "None" if failed else "(Some " + C.clist(
                    list(rec["rows"].items()), lambda kv: f"({cstr(kv[0])}, {C.clist(kv[1], cvec)})") + ")"
                terms.append(f"c16_tok_obs_eqb (c16_tok_col {cfgs} {cstr(c['name'])} {dt} {raw}) (Some ({calls}, {res}))")
            else:
                res = "None" if failed else \
                    f"(Some ({C.cnat(rec['num_rows'])}, {C.clist(rec['rows'], lambda v: cvec(v, 8))}))"
                terms.append(f"c16_emb_obs_eqb (c16_emb_col {cfgs} {cstr(c['name'])} {dt} {raw}) (Some ({calls}, {res}))")
    return "(" + " && ".join(terms) + ")"
