"""C14 — Model inference is row-independent, deterministic, finite, uses every column.

Tie 3 (DESIGN.md section 3.3): dependency footprints of the real models, measured by single-row /
single-cell perturbation in float64 (bit-exact, same batch shape), compared with the footprint the
Coq model (Model/Layers.v run on provenance scalars, Model/LayersRun.v) predicts for the same
shapes; plus the metamorphic battery (row alone / other batch / permuted / duplicated / empty),
finiteness and determinism, which are observations only.
"""
from __future__ import annotations

import json

import torch

from harness import common as C
from harness import nnprobe as P

PROP = "C14"
HEADER = ("From Coq Require Import QArith.\n"
          "Require Import PF.Lib.Tensor PF.Model.Layers PF.Model.LayersRun PF.Gen.Tables PF.Model.Encoders.\n"
          "Close Scope Q_scope. Close Scope Z_scope. Open Scope nat_scope.")
MODEL_TARGETS = ["Model/LayersRun.vo", "Model/Encoders.vo"]
SHARD = 8
RULE = ("one case = (model of the zoo, option variant, task type, explicit small dataset with missing cells and "
        ">= 2 columns per used stype, a parameter-state history eval -> (train 1-3 SGD steps -> eval)* of 0-3 rounds "
        "on one model object with previously used and new batch sizes re-scored after every round, index lists); "
        "distinct = distinct (model, options, task, rows, "
        "columns, steps, batch kind); non-trivial = forward pass succeeded on a non-empty batch and at least one "
        "row footprint and one column influence were measured")
TRUSTED = [
    "Coq 8.16.1 kernel + vm_compute",
    "hand-written model coq/Model/Layers.v of the models' own glue (mean / view / CLS / prompt read-out, eval-mode "
    "batch norm, GhostBatchNorm1d chunking, TabNet loop, torch.cat of stype parts), tied to /repo by this run's "
    "footprint correspondence on provenance scalars (coq/Model/LayersRun.v)",
    "modelled primitives: nn.Linear / LayerNorm / GroupNorm / nn.TransformerEncoder / the feature encoder as "
    "blocks acting on each row (explicit hypotheses of the theorems); torch.chunk, repeat, cat, view, mean",
    "per-run validation (harness/c14.py extra): nn.Linear, LayerNorm, BatchNorm1d(eval), Sequential with Dropout, "
    "GLU, nn.TransformerEncoder(eval) and GroupNorm are perturbed directly (only the perturbed row may change, "
    "bit-exactly); eval-mode BatchNorm1d is compared numerically with the bn_eval computation of Model/Layers.v; "
    "a discrimination self-test asserts that one architecture's measured footprints fail against the Coq models "
    "of the six others",
    "harness/c14.py + harness/nnprobe.py (dataset builder, forward hooks on the repository's attribute names, "
    "perturbation, bit-exact change detection)",
]
ASSUMPTIONS = [
    "theorems are over exact arithmetic with abstract scalars and uninterpreted non-linearities; IEEE round-off "
    "is not modelled: cross-batch agreement is OBSERVED to 1e-9 in float64, same-batch footprints bit-exactly",
    "kernel determinism and finiteness of outputs (missing values present) are OBSERVED, not proved",
    "torch modules are assumed to be in evaluation mode and to act row-wise (acts_rowwise hypotheses); a module "
    "left in training mode shows up as a measured row leak",
    "'every column can influence the prediction' is proved only in the provenance instance for bounded shapes "
    "(by computation) and measured on the real parameters with up to 8 re-draws",
    "datasets are non-degenerate: every categorical column has >= 2 categories, every numerical column >= 2 values",
    "numerical cells are finite or missing: the property's quantifier says 'rows with missing values'; an infinite "
    "cell makes MLP / ResNet / FTTransformer / TabTransformer return NaN for that row (same root cause as C12's "
    "known finding inf-cell-non-finite-output) and is NOT generated here",
    "every stype-encoder class the repository offers for numerical columns (LinearEncoder, StackEncoder, "
    "LinearBucketEncoder, LinearPeriodicEncoder, ExcelFormerEncoder; EmbeddingEncoder for categorical; discovered "
    "live, sanity() fails when one is never drawn) is used with every model that takes an encoder dictionary, at 0 "
    "training steps too, with NA strategies None/mean/zeros/most_frequent, and the models' other constructor "
    "arguments are drawn away from their defaults.  In the Coq theorems the whole feature encoder is the argument "
    "Enc with the hypothesis acts_rowwise Enc enc_r: the individual encoder classes are covered BY OBSERVATION here "
    "(per-cell models of the encoders belong to C13).  Not generated: LinearModelEncoder (wraps user models).  ExcelFormer "
    "with StackEncoder IS generated (0 and >= 1 training steps) and reported under the key "
    "column-dead:ExcelFormer:StackEncoder (constant prediction).  LinearBucketEncoder cases run in "
    "float32 (it raises under a float64 default dtype), tolerance 2e-4 relative there",
    "completeness trials re-draw parameters from the SAME state (fresh initialisation + the same training history), "
    "never by adding noise: a column that cannot influence a freshly initialised model is reported",
    "the feature encoder is an argument Enc with the hypothesis acts_rowwise in the general C14 theorems; for the "
    "built-in stype encoders the hypothesis is discharged (Props/C14.v *_with_builtin_encoders_rowwise) by C13's "
    "per-cell theorem over Model/Encoders.v, and on every small case with an explicit numerical encoder the real "
    "encoder stage (forward hook) is compared with that model: shape, raise / no raise, zero pattern of missing cells "
    "(check_enc, generic parameters)",
    "no rejection is demanded anywhere in C14 (the statement has no such clause): what the constructors do with "
    "num_layers <= 0 or ExcelFormer on categorical columns is recorded as an observation only",
    "only stypes a model uses are generated (numerical + categorical; ExcelFormer numerical only): the quantifier "
    "says '>= 2 columns per USED stype'; TabTransformer silently ignores columns of any other stype",
    "the Coq side runs with each case's own hyper-parameters (columns per stype, channels, layers, heads, "
    "prompts, out_channels, batch size vs the 512-row virtual batch) and is compared per probe tensor (forward "
    "hooks: input of the first post-encoder module, TabNet's first mask, FT's token sequence, TabTransformer's "
    "decoder input, Trompt's per-layer prompts, ExcelFormer's decoder input) at position granularity",
]

# CLAUSES -- C14's statement contains NO rejection clause: the oracle demands a raise nowhere.  raises:<model>:build /
#   raises:<model>:forward flag a raise on a VALID configuration and batch ("for any batch of a materialized frame ...
#   the output is finite and has shape [batch, out_channels]").  Constructor behaviour on num_layers <= 0 etc. is recorded
#   as an observation in the evidence (extra.constructor_observations), never demanded.
#
# ERROR_PATHS -- every raise / assert / special-case branch / dtype cast / buffer / hand-written numerically "safe"
# formula in the anchored code, the generator kind that reaches it, and the oracle key that notices a change.
#
#  all models: `if stype_encoder_dict is None: {categorical: EmbeddingEncoder(), numerical: LinearEncoder()}` (Trompt /
#     TabNet / ExcelFormer: their own defaults with NA strategies) ........... num_enc = None cases next to explicit
#                                                                             dictionaries (sanity: both drawn)
#  ft_transformer / tab_transformer / trompt / tabnet / excelformer: `if num_layers <= 0: raise ValueError`
#                                                                          ... extra(): constructor OBSERVATIONS
#                                                                             (C14 has no rejection clause)
#  excelformer.py `col_names_dict.keys() != {numerical}: raise`, `assert mixup in [...]`  extra(): observation only
#  excelformer.py feature_mixup (asserts, Beta sampling, randperm) ........... training-time path (mixup_encoded=True),
#                                                                             outside C14 (property C19)
#  mlp.py / resnet.py `normalization` three-way branch, `in_channels != out_channels` shortcut branch
#                                                                          ... norm in {layer_norm, batch_norm, None} drawn,
#                                                                             1..3 layers; probes backbone_in/decoder_in
#  mlp.py `torch.mean(x, dim=1)` ............................................. probe mlp_in; keys column-unused, row-leak
#  resnet.py / tabnet.py / tab_transformer.py `view(B, prod(shape[1:]))` / reshape  probes backbone_in / bn_in / decoder_in
#  tab_transformer.py `if stype.categorical in ...` / `if stype.numerical in ...` branches  stypes both / cat / num
#  tab_transformer.py pad_embedding `.repeat(batch_size, 1, 1)`, `torch.cat((x_cat, pos), -1)`  probe conv0_in (pad
#                                                                             channels), batch sizes 0 / 1 / 2
#  tab_transformer.py decoder BatchNorm1d x 2 (eval) ......................... row-leak, batch-dependent, histories
#  trompt.py `x_prompt.repeat(batch_size, 1, 1)`, `out.view(batch_size, 1, out)`, torch.cat(outs, 1)  shape key, probe
#                                                                             prompts, batch 0 (empty-shape)
#  tabnet.py `cat_emb_channels if categorical in col_names_dict else 1` ...... frames with and without categorical columns
#  tabnet.py GhostBatchNorm1d: `if len(x) > 0` branch, math.ceil, torch.chunk, torch.cat  batches 0, 1, 2, 511..513,
#                                                                             1023..1025, 1300, 1537, 1700, 2049: keys
#                                                                             row-leak, non-deterministic, batch-dependent
#  tabnet.py `Identity()` branches for 0 shared / 0 dependent GLU layers, no_first_residual  (shared, dep) in
#                                                                             {(2,2),(0,1),(2,0),(1,3)}
#  tabnet.py `x * math.sqrt(0.5)`, `(gamma - mask) * prior`, F.softmax(dim=-1)  gamma drawn; keys row-leak / batch-dependent
#  tabnet.py `torch.log(attention_mask + 1e-15)`, `batch_size > 0` guard ..... return_reg=True only (training), outside C14
#  stypewise_encoder.py `raise ValueError` (invalid stype / unsupported encoder) ... C12's property
#  stype encoders: nan_to_num for na_strategy None, fill values, `+ 1e-6` / `+ 1e-8` eps terms, bucketize, `.float()`
#     mask of LinearBucketEncoder ............................................ every encoder class x NA strategy x
#                                                                             numerical column kinds (ties at min / middle
#                                                                             / top, constant, two-valued, single value):
#                                                                             keys non-finite, row-leak, column-unused;
#                                                                             float32 and float64
#  values far out of range but finite ........................................ near-constant columns encode to ~1e6 next
#                                                                             to ordinary columns; key non-finite
#
NORM_CODE = {None: 0, "layer_norm": 1, "batch_norm": 2}
TRIALS = 8
SIZES = [1.0, 10.0, 100.0]


# ------------------------------------------------------------------ generation
# (model, numerical encoder) pairings with a recorded finding; generated like every other pairing
KNOWN_DEAD = {("ExcelFormer", "StackEncoder")}
HISTORIES = [lambda rng: [], lambda rng: [rng.randint(1, 3)],
             lambda rng: rng.pick([[rng.randint(1, 2), rng.randint(1, 2)], [1, 1, 1]])]


def draw_opts(rng, model, num_enc):
    """Every public constructor argument of the model, drawn (mostly away from the defaults); `num_enc` is the
    stype-encoder class used for numerical columns (None = the model's own default dictionary)."""
    o = {"channels": rng.pick([4, 8, 16]), "layers": rng.randint(1, 3), "dropout": rng.pick([0.0, 0.1, 0.3])}
    if model == "FTTransformer":
        o["channels"] = rng.pick([8, 16, 24])      # FTTransformer fixes nhead = 8
    if model != "TabTransformer":
        o["num_enc"] = num_enc
        if num_enc is not None:
            o["cat_enc"] = "EmbeddingEncoder"
            o["num_na"] = rng.pick(P.NUM_NA)
            o["cat_na"] = rng.pick(P.CAT_NA)
    if model in ("MLP", "ResNet"):
        o["norm"] = rng.pick(["layer_norm", "batch_norm", None])
    if model == "TabTransformer":
        o["heads"] = rng.pick([1, 2, 4])
        o["pad"] = rng.pick([1, 2, 3])
        o["attn_dropout"] = rng.pick([0.0, 0.2])
    if model == "Trompt":
        o["prompts"] = rng.pick([2, 4, 6])
    if model == "TabNet":
        o["attn_channels"] = rng.pick([4, 8, 12])
        o["gamma"] = rng.pick([1.0, 1.2, 1.5])
        o["shared"], o["dep"] = rng.pick([(2, 2), (0, 1), (2, 0), (1, 3)])
        o["cat_emb"] = rng.randint(1, 3)
    if model == "ExcelFormer":
        o["heads"] = rng.pick([1, 2, 4])
        o["aium_dropout"] = rng.pick([0.0, 0.2])
        o["residual_dropout"] = rng.pick([0.0, 0.2])
    return o


GHOST = 512
# batch sizes at the boundaries of the ghost-batch chunking (1, 2, 3, 4, 5 virtual batches)
BIG_SIZES_QUICK = [[GHOST, 2 * GHOST + 1], [GHOST + 1, 3 * GHOST + 1], [2 * GHOST]]
BIG_SIZES_THOROUGH = [GHOST - 1, GHOST, GHOST + 1, 2 * GHOST - 1, 2 * GHOST, 2 * GHOST + 1, 1300, 3 * GHOST, 3 * GHOST + 1,
                      1700, 4 * GHOST, 4 * GHOST + 1]


def chunk_boundaries(m):
    """First / last row of every chunk torch.chunk(x, ceil(m / 512)) makes."""
    nch = -(-m // GHOST)
    cs = -(-m // nch)
    rows = {0, m - 1}
    for k in range(1, nch):
        rows |= {k * cs - 1, k * cs}
    return sorted(r for r in rows if 0 <= r < m)


def gen_case(rng, model, opts, task, big=False, history=None, n_num=None, n_cat=None):
    opts = dict(opts)
    n = rng.wpick([(1, 2), (3, 3), (3, 4), (3, 5), (3, 6)])
    st = opts.get("stypes", "both")
    if n_num is not None or n_cat is not None:
        n_num, n_cat = n_num or 0, n_cat or 0
    elif model == "ExcelFormer" or st == "num":
        n_num, n_cat = rng.randint(2, 4), 0
    elif st == "cat":
        n_num, n_cat = 0, rng.randint(2, 4)
    else:
        n_num, n_cat = rng.pick([2, 3, 3, 4]), 2
    data = P.gen_data(rng, n, n_num, n_cat, task, rng.pick([0.2, 0.4]))
    idxs = []
    rows = list(range(n))
    idxs.append([rng.randrange(n)])                                   # a row alone
    perm = rows[:]
    rng.shuffle(perm)
    idxs.append(perm)                                                 # a permutation of the batch
    idxs.append([rng.randrange(n) for _ in range(rng.randint(2, 7))])  # duplicates / other batch composition
    idxs.append(sorted(rng.sample(rows, rng.randint(1, n - 1))))      # a subset
    # parameter-state history on ONE model object: eval-score, then for each entry train that many SGD steps,
    # model.eval(), score again (an inference-time cache that survives training shows up only this way)
    if history is None:
        history = rng.pick(HISTORIES)(rng)
    dtype = "float32" if (opts.get("num_enc") in P.F32_ONLY or rng.chance(0.15)) else "float64"
    case = {"model": model, "opts": opts, "task": task, "data": data, "history": history, "steps": sum(history),
            "seed": rng.randrange(1 << 30), "idxs": idxs, "kind": "small", "dtype": dtype}
    if big:
        # a batch at / beyond the 512-row ghost batch: the frame's rows repeated; rows at every chunk boundary probed
        m = big if isinstance(big, int) and big > 1 else GHOST + rng.randint(1, 40)
        case["kind"] = "big"
        case["big_idx"] = [rng.randrange(n) for _ in range(m)]
        case["probe_rows"] = sorted(set(chunk_boundaries(m)) | {rng.randrange(m)})
    return case


REQUIRED_SEED = 14014


def required_cases():
    """A deterministic stream (own constant seed, independent of VERIF_SEED and of the tier) that alone satisfies every
    requirement of sanity(): each numerical column kind, a 2-row frame, both dtypes, every constructor argument at two
    values (one of them non-default), zero-step and trained histories.  Marked "req": the ratio requirements of
    sanity() are evaluated over this stream."""
    rng = C.Rng(REQUIRED_SEED)
    out = []

    def add(model, opts, task, history, dtype, n_num, n_cat, kinds=None, n=None):
        c = gen_case(rng, model, opts, task, history=history, n_num=n_num, n_cat=n_cat)
        if kinds is not None or n is not None:
            nn = n or c["data"]["n"]
            c["data"] = P.gen_data(rng, nn, n_num, n_cat, task, 0.3, num_kinds=kinds)
            rows = list(range(nn))
            c["idxs"] = [[0], rows[::-1], [rows[-1], 0, 0], rows[:1]]
        c["dtype"] = dtype
        c["req"] = True
        out.append(c)

    base = {"channels": 8, "layers": 2, "dropout": 0.2}
    enc = {"num_enc": "LinearEncoder", "cat_enc": "EmbeddingEncoder"}
    add("MLP", dict(base, **enc, num_na=None, cat_na=None, norm="layer_norm"), "regression", [], "float64", 4, 2,
        ["generic", "zero_inflated", "mid_ties", "top_ties"])
    add("MLP", dict(base, **enc, num_na="mean", cat_na="most_frequent", norm="batch_norm", channels=4, layers=1,
                    dropout=0.0), "binary", [2], "float32", 3, 2, ["generic", "binary", "single_value"], n=2)
    add("ResNet", dict(base, **enc, num_na="zeros", cat_na=None, norm=None, channels=16, layers=3, dropout=0.3),
        "multiclass", [1, 1], "float64", 3, 2, ["generic", "constant", "generic"])
    add("TabTransformer", dict(base, heads=2, pad=2, attn_dropout=0.0, stypes="both"), "regression", [], "float64", 2, 2)
    add("TabTransformer", dict(base, heads=1, pad=1, attn_dropout=0.2, stypes="both", channels=4), "binary", [1],
        "float64", 2, 3)
    add("Trompt", dict(base, num_enc=None, prompts=2), "regression", [], "float64", 2, 2)
    add("Trompt", dict(base, **enc, num_na="mean", cat_na="most_frequent", prompts=4, layers=1), "binary", [1], "float64", 2, 2)
    add("TabNet", dict(base, num_enc=None, attn_channels=8, gamma=1.2, shared=2, dep=2, cat_emb=2), "regression", [],
        "float64", 2, 2)
    add("TabNet", dict(base, **enc, num_na="zeros", cat_na=None, attn_channels=4, gamma=1.5, shared=0, dep=1, cat_emb=3,
                       channels=4), "multiclass", [2], "float64", 2, 2)
    add("ExcelFormer", dict(base, num_enc=None, heads=2, aium_dropout=0.1, residual_dropout=0.1), "regression", [],
        "float64", 3, 0)
    add("ExcelFormer", dict(base, num_enc="LinearPeriodicEncoder", cat_enc="EmbeddingEncoder", num_na="mean", cat_na=None,
                            heads=4, aium_dropout=0.0, residual_dropout=0.2), "binary", [1], "float64", 2, 0)
    add("FTTransformer", dict(base, num_enc="LinearBucketEncoder", cat_enc="EmbeddingEncoder", num_na=None, cat_na=None),
        "regression", [], "float32", 2, 2, ["generic", "zero_inflated"])
    return out


def generate(rng, tier):
    """Per repetition: every model x every stype-encoder class the repository offers for numerical columns (plus the
    model's own default dictionary), the other constructor arguments drawn; repetition r uses the r-th history
    shape, so every (model, encoder class) is also scored at 0 training steps."""
    from torch_frame import stype as _st
    cases = required_cases()
    tasks = ["regression", "binary", "multiclass"]
    reps = 3 if tier == "quick" else 18
    num_classes = [c for c in P.encoder_classes(_st.numerical) if c in P.ENC_CTORS]
    k = 0
    for rep in range(reps):
        hist = HISTORIES[rep % 3]
        for model in P.MODELS:
            if model == "TabTransformer":
                for stypes in ("both", "cat", "num"):
                    cases.append(gen_case(rng, model, dict(draw_opts(rng, model, None), stypes=stypes), tasks[k % 3],
                                          history=hist(rng)))
                    k += 1
                continue
            encs = num_classes + [None]
            for enc in encs:
                cases.append(gen_case(rng, model, draw_opts(rng, model, enc), tasks[k % 3], history=hist(rng)))
                k += 1
        # boundary configurations: heads == channels == number of columns
        cases.append(gen_case(rng, "ExcelFormer", dict(draw_opts(rng, "ExcelFormer", None), heads=4, channels=4),
                              tasks[k % 3], history=hist(rng), n_num=4))
        cases.append(gen_case(rng, "TabTransformer", dict(draw_opts(rng, "TabTransformer", None), heads=4, channels=4,
                                                          pad=rng.randint(1, 3), stypes="both"),
                              tasks[(k + 1) % 3], history=hist(rng), n_num=2, n_cat=4))
        # batches at the boundaries of the ghost-batch chunking: TabNet (and one other model as a control)
        sizes = BIG_SIZES_QUICK[rep % 3] if tier == "quick" else [BIG_SIZES_THOROUGH[(2 * rep) % 12],
                                                                   BIG_SIZES_THOROUGH[(2 * rep + 1) % 12]]
        for m in sizes:
            o = draw_opts(rng, "TabNet", rng.pick(num_classes + [None]))
            if m > 2 * GHOST:
                o.update(channels=4, attn_channels=4, layers=min(o["layers"], 2))     # keep the large ones cheap
            cases.append(gen_case(rng, "TabNet", o, tasks[k % 3], big=m, history=hist(rng)))
            k += 1
        cases.append(gen_case(rng, "MLP", dict(draw_opts(rng, "MLP", None), norm="batch_norm"), tasks[k % 3],
                              big=GHOST + 1, history=hist(rng)))
    return cases


# ------------------------------------------------------------------ implementation run
def _prng(case, salt):
    return C.Rng(case["seed"] * 7919 + salt)


def run(case):
    obs = {"ok": False}
    obs["tol"] = P.tol_of(case.get("dtype"))
    with P.f64(case["seed"], case.get("dtype", "float64")):
        try:
            ds = P.make_dataset(case["data"])
            tf0 = ds.tensor_frame
            outc = P.out_channels_of(case["data"])
            model = P.build_model(case["model"], case["opts"], ds, outc)
            model.eval()
        except Exception as ex:
            obs.update(stage="build", exc=C.exc_name(ex), msg=str(ex)[:300], tb=C.fmt_exc())
            return obs
        try:
            obs["hist"] = _history(case, tf0, model)
            obs.update(_probe(case, ds, tf0, model, outc))
            obs["ok"] = True
        except Exception as ex:
            obs.update(stage="forward", exc=C.exc_name(ex), msg=str(ex)[:300], tb=C.fmt_exc())
    return obs


def _battery(model, tf, sizes, rng):
    """Score the frame's rows in batches of the given sizes (index lists with duplicates, shuffled) and as a
    permutation of the whole batch; every score is compared with the same row's score in the full batch."""
    n = len(tf)
    out = P.fwd(model, tf)
    res = [{"what": "two calls on the full batch", "size": n,
            "diff": 0.0 if torch.equal(out, P.fwd(model, tf)) else float("inf"), "exact": True}]
    perm = list(range(n))
    rng.shuffle(perm)
    lists = [("permuted full batch", perm)]
    for m in sizes:
        if m == n:
            idx = [rng.randrange(n) for _ in range(n)]          # duplicates, in a batch of the full size
            lists.append(("duplicated rows, full size", idx))
        elif m == 1:
            lists.append(("row alone", [rng.randrange(n)]))
        else:
            lists.append((f"batch of {m} rows", [rng.randrange(n) for _ in range(m)]))
    for what, idx in lists:
        ti = torch.tensor(idx, dtype=torch.long)
        res.append({"what": what, "size": len(idx), "diff": P.maxdiff(P.fwd(model, tf[ti]), out[ti])})
    return res


def _history(case, tf0, model):
    """eval -> (train k steps -> eval)* on the same model object.  Batch sizes used in an earlier evaluation phase
    are used again after training, together with a size never used before."""
    rng = _prng(case, 2)
    n = len(tf0)
    used = [n, 1, 2 if n != 2 else 3]
    phases = [{"phase": 0, "trained": 0, "sizes": list(used), "runs": _battery(model, tf0, used, rng)}]
    for p, k in enumerate(case.get("history", []), start=1):
        P.train_steps(model, tf0, k)
        fresh = next(m for m in range(2, 40) if m not in used)
        sizes = list(used) + [fresh]
        phases.append({"phase": p, "trained": k, "sizes": sizes, "new_size": fresh,
                       "training_flag": bool(model.training), "runs": _battery(model, tf0, sizes, rng)})
        used.append(fresh)
    model.eval()
    return phases


def _encoder_stage(case, ds, tf, model):
    """The numerical stype-encoder stage of the real model (first module of the drawn class, forward hook): input
    cells, the column statistics it was built from, output shape and which cells are embedded as the all-zero vector.
    Compared by coq_term with C13's model of that encoder class (Model/Encoders.v), the instance the theorems
    *_with_builtin_encoders_rowwise of Props/C14.v are about.  Fail-soft: None when the module cannot be found."""
    from torch_frame import stype as _st
    from torch_frame.data.stats import StatType
    cls = case["opts"].get("num_enc")
    if cls is None or _st.numerical not in tf.feat_dict:
        return None
    try:
        mod = next(m for m in model.modules() if type(m).__name__ == cls)
        if getattr(mod, "post_module", None) is not None:
            return None
        grabbed = {}
        h = mod.register_forward_hook(lambda m_, a, out: grabbed.__setitem__("y", out.detach().clone()))
        try:
            P.fwd(model, tf)
        finally:
            h.remove()
        y = grabbed["y"]
        feat = tf.feat_dict[_st.numerical]
        names = tf.col_names_dict[_st.numerical]
        stats = []
        for nm in names:
            cs = ds.col_stats[nm]
            stats.append({"MEAN": float(cs[StatType.MEAN]), "STD": float(cs[StatType.STD]),
                          "QUANTILES": [float(q) for q in cs[StatType.QUANTILES]]})
        if any(v != v for s_ in stats for v in [s_["MEAN"], s_["STD"]] + s_["QUANTILES"]):
            return None
        cells = [[None if v != v else float(v) for v in row] for row in feat.tolist()]
        zeros = [[bool((y[r, j] == 0).all()) for j in range(y.shape[1])] for r in range(y.shape[0])]
        return {"cls": cls, "na": case["opts"].get("num_na"), "shape": [int(v) for v in y.shape], "cells": cells,
                "stats": stats, "zeros": zeros}
    except Exception:
        return None


def coq_encoder_stage(es):
    """check_enc (Model/Encoders.v) of C13's model of the encoder class, generic parameters, on the real cells."""
    from fractions import Fraction

    from harness import encoders as H
    B, nc, ch = es["shape"]
    n = lambda k: f"{k}%nat"  # noqa: E731
    cls = es["cls"]
    if cls == "LinearEncoder":
        enc = f"(ELinear QS (gmat 0 0 {n(nc)} {n(ch)}) (gmat 1 0 {n(nc)} {n(ch)}))"
    elif cls == "StackEncoder":
        enc = "(EStack QS)"
    elif cls == "ExcelFormerEncoder":
        enc = "(EExcel QS " + " ".join(f"(gmat {k} 0 {n(nc)} {n(ch)})" for k in range(4)) + ")"
    elif cls == "LinearPeriodicEncoder":
        enc = (f"(EPeriodic QS (gmat 0 0 {n(nc)} 4%nat) " + C.clist(range(nc), lambda j: f"gmat 4 {j} 8%nat {n(ch)}") + ")")
    elif cls == "LinearBucketEncoder":
        enc = ("(EBucket QS " + C.clist(range(nc), lambda j: f"gmat 5 {j} 4%nat {n(ch)}") + f" (gmat 1 0 {n(nc)} {n(ch)}))")
    else:
        return None
    q = lambda v: H.cx(None if v is None else Fraction(v))  # noqa: E731
    stats = C.clist(es["stats"], lambda s_: f"(qcs {q(s_['MEAN'])} {q(s_['STD'])} {C.clist(s_['QUANTILES'], q)} 0%nat 0%Z "
                                            f"[] [] [] 0%nat)")
    na = "None" if es["na"] is None else f"(Some na_{es['na'].upper()})"
    x = "(InNum QS " + C.clist(es["cells"], lambda row: C.clist(row, q)) + ")"
    zeros = C.clist(es["zeros"], lambda row: C.clist(row, C.cbool))
    return (f"check_enc false (qconfig {enc} {stats} {n(ch)} {na}) {x} false ({n(B)}, {n(nc)}, {n(ch)}) {zeros} [] None")


def expected_probe(case, pname, kinds, K):
    """Which (column c, position k) pairs the architecture's glue lets interact -- used ONLY to decide whether a
    further completeness trial is needed; the comparison itself is done by the Coq model (coq_term)."""
    ncols = len(kinds)
    ch = case["opts"].get("channels", 8)
    cat = [j for j, k in enumerate(kinds) if k == "categorical"]
    if pname in ("backbone_in", "bn_in"):
        w = max(1, K // max(1, ncols))
        return [[k // w == c for k in range(K)] for c in range(ncols)]
    if pname == "transformer_in":
        return [[k // ch == c + 1 for k in range(K)] for c in range(ncols)]
    if case["model"] == "TabTransformer" and pname == "conv0_in":
        return [[(c in cat) and k // ch == cat.index(c) and k % ch < ch - case["opts"].get("pad", 2) for k in range(K)] for c in range(ncols)]
    if case["model"] == "TabTransformer" and pname == "decoder_in":
        return [[(k < len(cat) * ch) == (c in cat) for k in range(K)] for c in range(ncols)]
    if case["model"] == "ExcelFormer" and pname == "decoder_in":
        return [[c <= k // ch for k in range(K)] for c in range(ncols)]
    return [[True] * K for _ in range(ncols)]


def _probe(case, ds, tf0, model, outc):
    rng = _prng(case, 1)
    o = {}
    n0 = len(tf0)
    if case["kind"] == "big":
        tf = tf0[torch.tensor(case["big_idx"])]
        probe_rows = case["probe_rows"]
    else:
        tf = tf0
        probe_rows = list(range(n0))
    n = len(tf)
    cols = P.columns_of(tf)
    ncats = P.num_categories(ds, tf)
    o["n"], o["ncols"], o["out_channels"] = n, len(cols), outc
    o["col_kinds"] = [c[0].value for c in cols]
    o["has_missing"] = bool(any(torch.isnan(v).any() if v.is_floating_point() else (v < 0).any()
                                for v in tf.feat_dict.values()))
    out = P.fwd(model, tf)
    o["shape"] = list(out.shape)
    o["expected_shape"] = [n, case["opts"].get("layers", 2), outc] if case["model"] == "Trompt" else [n, outc]
    o["finite"] = bool(torch.isfinite(out).all())
    o["deterministic"] = bool(torch.equal(out, P.fwd(model, tf)))
    o["training_flag"] = bool(model.training)
    # empty batch
    e = P.fwd(model, tf[torch.tensor([], dtype=torch.long)])
    o["empty_shape"] = list(e.shape)
    # metamorphic battery (tolerance: another batch shape goes through other kernels)
    meta = []
    for idx in case["idxs"]:
        ti = torch.tensor(idx, dtype=torch.long)
        meta.append({"idx_len": len(idx), "diff": P.maxdiff(P.fwd(model, tf[ti]), out[ti])})
    if case["kind"] == "big":
        small = P.fwd(model, tf0)
        meta.append({"what": "big-vs-small", "diff": P.maxdiff(out, small[torch.tensor(case["big_idx"])])})
        if n > GHOST:
            meta.append({"what": "prefix-512", "diff": P.maxdiff(P.fwd(model, tf[:GHOST]), out[:GHOST])})
    o["meta"] = meta
    # footprints, with re-drawn parameters / sizes while a predicted dependency is unmeasured
    mname = case["model"]
    has_cat = "categorical" in o["col_kinds"]
    pnames = P.probe_names(mname, has_cat)
    out, base = P.fwd_probes(mname, model, tf, has_cat)
    if mname == "TabNet":
        # the row counts the inner BatchNorm1d of the first GhostBatchNorm1d is called with (Coq: ghost_call_sizes),
        # observed in TRAINING mode on a copy of the model: there the ghost batches are semantics (batch statistics
        # per piece); in evaluation mode an implementation may legitimately skip the chunking (it is invisible:
        # theorem ghost_batch_norm_rowwise)
        o["ghost_sizes"] = None
        if n >= 2:
            try:
                import copy
                m2 = copy.deepcopy(model)
                m2.train()
                gbn = m2.attn_transformers[0].bn
                sizes = []
                h = gbn.bn.register_forward_pre_hook(lambda m_, a: sizes.append(int(a[0].shape[0])))
                try:
                    P.fwd(m2, tf)
                finally:
                    h.remove()
                o["ghost_sizes"] = sizes
                o["ghost_vbs"] = int(gbn.virtual_batch_size)
            except Exception:
                o["ghost_sizes"] = None
    o["enc_stage"] = _encoder_stage(case, ds, tf, model) if case["kind"] == "small" else None
    o["probe_names"] = pnames
    o["probe_K"] = [None if b is None else int(b.shape[1]) for b in base]
    expect = [None if b is None else expected_probe(case, pn, o["col_kinds"], int(b.shape[1]))
              for pn, b in zip(pnames, base)]
    probe_fp = [None if b is None else [[False] * int(b.shape[1]) for _ in cols] for b in base]

    def probe_incomplete(j):
        return any(e is not None and any(e[j][k] and not m[j][k] for k in range(len(e[j])))
                   for e, m in zip(expect, probe_fp))

    row_changed = {r: set() for r in probe_rows}
    col_reached = [False] * len(cols)
    col_leak = []
    trials = 0
    for t in range(TRIALS):
        need_rows = [r for r in probe_rows if r not in row_changed[r]]
        need_cols = [j for j in range(len(cols)) if not col_reached[j] or probe_incomplete(j)]
        if t > 0 and not need_rows and not need_cols:
            break
        trials += 1
        if t > 0:
            # re-draw the parameters FROM THE SAME STATE: a fresh initialisation followed by the same training
            # history (no added noise: a column that cannot influence a freshly initialised model must show up)
            P.reset_all(model)
            for k_steps in case.get("history", []):
                P.train_steps(model, tf0, k_steps)
            model.eval()
            out, base = P.fwd_probes(mname, model, tf, has_cat)
        size = SIZES[t % 3]
        for r in (probe_rows if t == 0 else need_rows):
            t2 = P.clone_tf(tf)
            for c in cols:
                P.perturb_cell(t2, r, c, rng, size, ncats)
            ch = P.changed_rows(out, P.fwd(model, t2))
            row_changed[r].update(ch if ch is not None else [-1])
        for j in (range(len(cols)) if t == 0 else need_cols):
            # prefer a row whose cell is present: a missing categorical cell re-drawn as the most frequent
            # category is no change at all under NAStrategy.MOST_FREQUENT
            feat = tf.feat_dict[cols[j][0]][:, cols[j][1]]
            # any row of the batch may witness the influence (in a large batch not only the rows probed for leaks: a row
            # with an extreme value in another column can saturate TabNet's attention and hide every other column)
            pool = probe_rows if n <= 16 else [rng.randrange(n) for _ in range(24)]
            present = [q for q in pool
                       if not (bool(torch.isnan(feat[q])) if feat.is_floating_point() else int(feat[q]) < 0)]
            cand = list(dict.fromkeys(present or pool))
            rng.shuffle(cand)
            # up to six witness rows per trial (a row whose other columns hold extreme values can hide this column)
            for r in cand[:6]:
                t2 = P.clone_tf(tf)
                P.perturb_cell(t2, r, cols[j], rng, size, ncats)
                out2, pr2 = P.fwd_probes(mname, model, tf=t2, has_cat=has_cat)
                ch = P.changed_rows(out, out2)
                if ch is None:
                    col_leak.append([j, r, [-1]])
                    continue
                for b, b2, m in zip(base, pr2, probe_fp):
                    if b is not None and b2 is not None and b.shape == b2.shape:
                        for k in P.changed_positions(b, b2, r):
                            m[j][k] = True
                if any(s_ != r for s_ in ch):
                    col_leak.append([j, r, ch[:8]])
                if r in ch:
                    col_reached[j] = True
                    if not probe_incomplete(j):
                        break
    o["rows"] = [[r, sorted(row_changed[r])] for r in probe_rows]
    o["cols"] = col_reached
    o["probe_fp"] = probe_fp
    # complete: every dependency the architecture allows was measured within the trials
    o["probe_complete"] = [None if e is None else all(m[j][k] or not e[j][k] for j in range(len(e)) for k in range(len(e[j])))
                           for e, m in zip(expect, probe_fp)]
    o["col_leak"] = col_leak
    o["trials"] = trials
    return o


# ------------------------------------------------------------------ direct oracle
def oracle(case, obs):
    if "harness_exc" in obs:
        return dict(key="harness-exc", what="harness failed: " + obs["harness_exc"], tb=obs.get("tb"))
    m = case["model"]
    if not obs.get("ok"):
        return dict(key=f"raises:{m}:{obs.get('stage')}",
                    what=f"{m} {obs.get('stage')} raised {obs.get('exc')}: {obs.get('msg')}", tb=obs.get("tb"))
    if obs["shape"] != obs["expected_shape"]:
        return dict(key=f"shape:{m}", what=f"{m} output shape {obs['shape']}, expected {obs['expected_shape']}",
                    expected=obs["expected_shape"], observed=obs["shape"])
    if obs["empty_shape"] != [0] + obs["expected_shape"][1:]:
        return dict(key=f"empty-shape:{m}", what=f"{m} on the empty batch gives shape {obs['empty_shape']}",
                    expected=[0] + obs["expected_shape"][1:], observed=obs["empty_shape"])
    if not obs["finite"]:
        return dict(key=f"non-finite:{m}", what=f"{m} output contains NaN/inf on a materialized frame")
    if not obs["deterministic"]:
        return dict(key=f"non-deterministic:{m}", what=f"{m} in eval mode gave two different outputs for the same batch")
    for r, ch in obs["rows"]:
        extra = [s for s in ch if s != r]
        if extra:
            return dict(key=f"row-leak:{m}", what=f"{m}: changing the features of row {r} changed the predictions "
                        f"of rows {extra[:6]} (batch of {obs['n']})", expected=[r], observed=ch[:12])
    for j, r, ch in obs["col_leak"]:
        return dict(key=f"row-leak:{m}", what=f"{m}: changing cell (row {r}, column {j}) changed the predictions of "
                    f"rows {ch}", expected=[r], observed=ch)
    for ph in obs.get("hist", []):
        for rn in ph["runs"]:
            if not (rn["diff"] <= (0.0 if rn.get("exact") else obs.get("tol", P.TOL))):
                if rn.get("exact"):
                    return dict(key=f"non-deterministic:{m}", what=f"{m}: two evaluation calls on the same batch differ "
                                f"(after {ph['phase']} train/eval rounds)")
                return dict(key=f"batch-dependent:{m}", what=f"{m}: after {ph['phase']} train->eval round(s) on the same "
                            f"model object (batch sizes scored so far {ph['sizes']}), {rn['what']} (size {rn['size']}) "
                            f"differs from the same rows in the full batch by {rn['diff']:.3g}",
                            expected=f"<= {obs.get('tol', P.TOL)}", observed=rn["diff"], phase=ph["phase"])
    for mt in obs["meta"]:
        if not (mt["diff"] <= obs.get("tol", P.TOL)):
            what = mt.get("what", f"index list of {mt.get('idx_len')} rows")
            return dict(key=f"batch-dependent:{m}", what=f"{m}: model(tf[idx]) differs from model(tf)[idx] by "
                        f"{mt['diff']:.3g} ({what})", expected=f"<= {obs.get('tol', P.TOL)}", observed=mt["diff"])
    if constant_prediction(case, obs):
        return dict(key=f"column-dead:{m}:{case['opts']['num_enc']}",
                    what=f"{m} built with stype_encoder_dict={{numerical: {case['opts']['num_enc']}()}} predicts a constant: "
                         f"no feature column (and no row) influenced the prediction in {TRIALS} trials after "
                         f"{case['steps']} training steps (value repeated over the channels, then a LayerNorm over the "
                         f"channels)", expected="every column can influence the prediction", observed=obs["cols"])
    for r, ch in obs["rows"]:
        if r not in ch:
            return dict(key=f"row-dead:{m}", what=f"{m}: no change of row {r}'s features changed its prediction in "
                        f"{TRIALS} trials", expected=[r], observed=ch)
    for j, reached in enumerate(obs["cols"]):
        if not reached:
            return dict(key=f"column-unused:{m}", what=f"{m}: column {j} ({obs['col_kinds'][j]}) never influenced the "
                        f"prediction in {TRIALS} trials with re-drawn parameters", expected=True, observed=False)
    return None


def constant_prediction(case, obs):
    """Exactly the recorded picture: the model + numerical-encoder pairing of KNOWN_DEAD, forward succeeded, and NO
    row and NO column influenced the prediction.  Every other failure of that configuration keeps its ordinary key."""
    return ((case["model"], case["opts"].get("num_enc")) in KNOWN_DEAD and obs.get("ok")
            and not any(obs["cols"]) and all(r not in ch for r, ch in obs["rows"]))


def shrink(case):
    h = case.get("history", [])
    for k in range(len(h)):
        h2 = h[:k] + h[k + 1:]
        yield dict(case, history=h2, steps=sum(h2))
    for k in range(len(h)):
        if h[k] > 1:
            h2 = h[:k] + [1] + h[k + 1:]
            yield dict(case, history=h2, steps=sum(h2))
    if len(case["idxs"]) > 1:
        for k in range(len(case["idxs"])):
            yield dict(case, idxs=case["idxs"][:k] + case["idxs"][k + 1:])
    d = case["data"]
    if d["n"] > 3 and case["kind"] == "small":
        for r in range(2, d["n"]):
            nd = dict(d, n=d["n"] - 1, num=[c[:r] + c[r + 1:] for c in d["num"]],
                      cat=[c[:r] + c[r + 1:] for c in d["cat"]], y=d["y"][:r] + d["y"][r + 1:])
            m = nd["n"]
            yield dict(case, data=nd, idxs=[[i for i in ix if i < m] or [0] for ix in case["idxs"]])
    if case["kind"] == "big" and len(case["big_idx"]) > 514:
        yield dict(case, big_idx=case["big_idx"][:514], probe_rows=[0, 1, 511, 512, 513])


def nontrivial_sig(case, obs):
    if not obs.get("ok") or obs["n"] == 0 or not obs["rows"] or not obs["cols"]:
        return None
    return json.dumps([case["model"], sorted(case["opts"].items(), key=str), case["task"], obs["n"], obs["ncols"],
                       case.get("history", []), case["kind"]])


def stats(cases, obss):
    d = {"models": {}, "tasks": {}, "steps": {}, "batch_sizes": {}, "kinds": {}, "with_missing": 0, "errors": 0,
         "trials_hist": {}, "total": 0}
    for c, o in zip(cases, obss):
        if c is None:
            continue
        d["total"] += 1
        d.setdefault("histories", {})
        hk = str(c.get("history", []))
        d["histories"][hk] = d["histories"].get(hk, 0) + 1
        o_ = c["opts"]
        for key in ("num_enc", "num_na", "cat_na", "norm", "channels", "layers", "dropout", "heads", "pad", "prompts",
                    "attn_channels", "gamma", "shared", "cat_emb", "attn_dropout", "aium_dropout", "residual_dropout"):
            if key in o_:
                dd = d.setdefault("arg:" + key, {})
                dd[str(o_[key])] = dd.get(str(o_[key]), 0) + 1
        if not c.get("history") and "num_enc" in o_:
            dd = d.setdefault("zero_step_encoders", {})
            dd[f"{c['model']}/{o_['num_enc']}"] = dd.get(f"{c['model']}/{o_['num_enc']}", 0) + 1
        bd = d.setdefault("boundaries", {})

        def hit(name):
            bd[name] = bd.get(name, 0) + 1
        for kind in c["data"].get("num_kinds", []):
            hit("num_col:" + kind)
            if o_.get("num_enc") == "LinearBucketEncoder" and kind in P.NUM_KINDS_MIN_TIED:
                hit("bucket_encoder_with_min_tied_column")
        if c["data"]["n"] == 2:
            hit("frame_of_2_rows")
        hit(f"num_cols:{len(c['data']['num'])}")
        hit(f"cat_cols:{len(c['data']['cat'])}")
        if c["kind"] == "big":
            m_ = len(c["big_idx"])
            hit(f"ghost_chunks:{-(-m_ // GHOST)}")
            for name, val in (("ghost", GHOST), ("ghost+1", GHOST + 1), ("2*ghost", 2 * GHOST), ("2*ghost+1", 2 * GHOST + 1)):
                if m_ == val:
                    hit("batch==" + name)
        if o_.get("heads") is not None and o_.get("heads") == o_.get("channels"):
            hit("heads==channels")
        if c["model"] == "ExcelFormer" and o_.get("heads") == len(c["data"]["num"]):
            hit("heads==num_cols")
        if c["model"] == "TabTransformer" and o_.get("heads") == len(c["data"]["cat"]):
            hit("heads==num_cols")
        d.setdefault("dtypes", {})
        d["dtypes"][c.get("dtype", "float64")] = d["dtypes"].get(c.get("dtype", "float64"), 0) + 1
        for k, v in (("models", c["model"]), ("tasks", c["task"]), ("steps", c["steps"]), ("kinds", c["kind"])):
            d[k][str(v)] = d[k].get(str(v), 0) + 1
        if not o.get("ok"):
            d["errors"] += 1
            d["req_errors"] = d.get("req_errors", 0) + int(bool(c.get("req")))
            continue
        d["batch_sizes"][str(o["n"])] = d["batch_sizes"].get(str(o["n"]), 0) + 1
        for ph in o.get("hist", []):
            for rn in ph["runs"]:
                d["boundaries"]["scored_batch:" + str(min(rn["size"], 3)) + ("+" if rn["size"] >= 3 else "")] = 1
        if o.get("empty_shape") is not None:
            d["boundaries"]["scored_batch:0"] = 1
        d["with_missing"] += int(o["has_missing"])
        if c.get("req"):
            d["req_total"] = d.get("req_total", 0) + 1
            d["req_with_missing"] = d.get("req_with_missing", 0) + int(o["has_missing"])
            for cp in (o.get("probe_complete") or [])[:-1]:
                if cp is not None:
                    d["req_probes_total"] = d.get("req_probes_total", 0) + 1
                    d["req_probes_incomplete"] = d.get("req_probes_incomplete", 0) + int(not cp)
        if o.get("ghost_sizes"):
            d["ghost_size_lists_compared"] = d.get("ghost_size_lists_compared", 0) + 1
        if o.get("enc_stage"):
            dd = d.setdefault("encoder_stage_compared", {})
            dd[o["enc_stage"]["cls"]] = dd.get(o["enc_stage"]["cls"], 0) + 1
        for cp in (o.get("probe_complete") or [])[:-1]:
            if cp is not None:
                d["probes_total"] = d.get("probes_total", 0) + 1
                d["probes_incomplete"] = d.get("probes_incomplete", 0) + int(not cp)
        d["trials_hist"][str(o["trials"])] = d["trials_hist"].get(str(o["trials"]), 0) + 1
    return d


# ------------------------------------------------------------------ Coq side
def coq_model_term(case, obs, model=None):
    """The Coq model of (the architecture `model`, default: this case's) run on provenance scalars with THE CASE'S
    OWN hyper-parameters: the list of probes [B, K] (intermediate tensors ..., final output)."""
    m, opts = model or case["model"], case["opts"]
    n, cols = obs["n"], obs["ncols"]
    L = opts.get("layers", 2)
    ch = opts.get("channels", 8)
    out = obs["out_channels"]
    X = f"(seq 0 {n})"
    if m == "MLP":
        return f"p_mlp {NORM_CODE[opts.get('norm', 'layer_norm')]} {L} {cols} {ch} {out} {X}"
    if m == "ResNet":
        return f"p_resnet {NORM_CODE[opts.get('norm', 'layer_norm')]} {L} {cols} {ch} {out} {X}"
    if m == "TabNet":
        has_cat = "categorical" in obs["col_kinds"]
        ce = opts.get("cat_emb", 2) if has_cat else 1
        return (f"p_tabnet {L} {cols} {ce} {ch} {opts.get('attn_channels', ch)} {opts.get('shared', 2)} "
                f"{opts.get('dep', 2)} 512 {out} {X}")
    if m == "FTTransformer":
        return f"p_ft {cols} {ch} {out} {X}"
    if m == "TabTransformer":
        cat = [j for j, k in enumerate(obs["col_kinds"]) if k == "categorical"]
        num = [j for j, k in enumerate(obs["col_kinds"]) if k == "numerical"]
        return f"p_tabt {L} {opts.get('heads', 2)} {cols} {ch} {opts.get('pad', 2)} {out} {P.cnats(cat)} {P.cnats(num)} {X}"
    if m == "Trompt":
        return f"p_trompt {L} {cols} {ch} {opts.get('prompts', 2)} {out} {X}"
    if m == "ExcelFormer":
        return f"p_excel {L} {opts.get('heads', 2)} {cols} {ch} {out} {X}"
    raise ValueError(m)


def coq_term(case, obs, model=None):
    if not obs.get("ok"):
        return None
    if model is None and constant_prediction(case, obs):
        return None      # recorded finding column-dead:*: the footprint is empty, reported by the oracle
    rows = "[" + "; ".join(f"({r}, {P.cnats(ch)})" for r, ch in obs["rows"]) + "]"
    comp = obs.get("probe_complete") or [True] * len(obs["probe_fp"])
    comp = comp[:-1] + [True]        # the final output is always compared exactly
    fps = "[" + "; ".join("None" if m is None else f"Some ({C.cbool(bool(cp))}, {P.cbmat(m)})"
                          for m, cp in zip(obs["probe_fp"], comp)) + "]"
    term = f"model_fp_ok {obs['ncols']} ({coq_model_term(case, obs, model)}) {obs['n']} {rows} {fps}"
    if model is None and obs.get("enc_stage"):
        t2 = coq_encoder_stage(obs["enc_stage"])
        if t2 is not None:
            term = f"({term} && {t2})"
    if model is None and case["model"] == "TabNet" and obs.get("ghost_sizes"):
        term = f"({term} && ghost_sizes_ok {obs.get('ghost_vbs', 512)} {obs['n']} (Some {P.cnats(obs['ghost_sizes'])}))"
    return term


# ------------------------------------------------------------------ per-run validation of the hypotheses
def validate_torch_blocks(rng):
    """The theorems assume that torch's own blocks act on every row of the batch separately in evaluation mode.
    Checked here directly on the blocks (bit-exact single-row perturbation, row scored alone to 1e-9), and
    eval-mode BatchNorm1d is compared numerically with the computation `bn_eval` of Model/Layers.v."""
    import torch.nn as nn
    fails, n = [], 0
    with P.f64(rng.randrange(1 << 30)):
        F = 6
        blocks = {
            "Linear": (nn.Linear(F, 5), (F,)),
            "LayerNorm": (nn.LayerNorm(F), (F,)),
            "BatchNorm1d(eval)": (nn.BatchNorm1d(F), (F,)),
            "Sequential(Linear,BatchNorm1d,SELU,Dropout,Linear)(eval)":
                (nn.Sequential(nn.Linear(F, 7), nn.BatchNorm1d(7), nn.SELU(), nn.Dropout(0.3), nn.Linear(7, 3)), (F,)),
            "GLU(Linear)": (nn.Sequential(nn.Linear(F, 8, bias=False), nn.GLU()), (F,)),
            "TransformerEncoder(eval)": (nn.TransformerEncoder(
                nn.TransformerEncoderLayer(d_model=8, nhead=2, dim_feedforward=8, dropout=0.2, batch_first=True),
                num_layers=2, norm=nn.LayerNorm(8)), (4, 8)),
            "GroupNorm(per sample)": (nn.GroupNorm(2, 4), (4, 3, 5)),
        }
        for name, (blk, shape) in blocks.items():
            for B in (1, 3, 7):
                # a few training passes so that running statistics are non-trivial, then eval
                blk.train()
                if B > 1:
                    blk(torch.randn(B, *shape))
                blk.eval()
                P.randomize_params(blk, 0.3)
                x = torch.randn(B, *shape)
                with torch.no_grad():
                    y = blk(x)
                    for r in range(B):
                        x2 = x.clone()
                        x2[r] += torch.randn(*shape)
                        ch = P.changed_rows(y, blk(x2))
                        n += 1
                        if ch != [r]:
                            fails.append(dict(key="torch-block-not-rowwise", case=None, what=f"torch block {name}: perturbing "
                                              f"row {r} of a batch of {B} changed rows {ch} (hypothesis acts_rowwise)",
                                              observed=ch))
                        d = P.maxdiff(blk(x[r:r + 1]), y[r:r + 1])
                        if not d <= P.TOL:
                            fails.append(dict(key="torch-block-not-rowwise", case=None, what=f"torch block {name}: row {r} "
                                              f"scored alone differs by {d:.3g}", observed=d))
        # eval-mode BatchNorm1d == (x - running_mean) / sqrt(running_var + eps) * weight + bias, broadcast over rows
        bn = nn.BatchNorm1d(F)
        bn.train()
        bn(torch.randn(9, F) * 3 + 1)
        bn.eval()
        P.randomize_params(bn, 0.5)
        x = torch.randn(5, F)
        with torch.no_grad():
            ref = (x - bn.running_mean[None, :]) / torch.sqrt(bn.running_var[None, :] + bn.eps) * bn.weight[None, :] \
                + bn.bias[None, :]
            d = P.maxdiff(bn(x), ref)
        n += 1
        if not d <= 1e-12:
            fails.append(dict(key="bn-eval-model", case=None, what=f"eval-mode BatchNorm1d differs from the computation "
                              f"modelled by bn_eval by {d:.3g}", observed=d))
    return fails, n


def selftest_discrimination(rng):
    """The correspondence must DISCRIMINATE: the observation of one architecture must not pass against the Coq
    model of another one (and must pass against its own).  One numeric-only frame, all seven architectures."""
    data = P.gen_data(rng, 3, 4, 0, "regression", 0.3)
    cases, obss = [], []
    for m in P.MODELS:
        opts = {"stypes": "num"} if m == "TabTransformer" else {}
        case = {"model": m, "opts": opts, "task": "regression", "data": data, "history": [1], "steps": 1,
                "seed": rng.randrange(1 << 30), "idxs": [[0]], "kind": "small", "dtype": "float64"}
        cases.append(case)
        obss.append(run(case))
    terms, meaning = [], []
    for i, (ca, oa) in enumerate(zip(cases, obss)):
        if not oa.get("ok"):
            return [dict(key="selftest-run-failed", case=ca, what=f"self-test run of {ca['model']} failed: {oa.get('msg')}")], {}
        for mb in P.MODELS:
            cb = dict(ca, opts={"stypes": "num"} if mb == "TabTransformer" else {})
            t = coq_term(cb, oa, model=mb)
            same = mb == ca["model"]
            terms.append((len(terms), t if same else f"negb ({t})"))
            meaning.append((ca["model"], mb, same))
    ok, bad, log = C.run_coq_cases(PROP + "selftest", HEADER, terms, shard=25)
    fails = []
    if not ok:
        fails.append(dict(key="selftest-coq-failed", case=None, what="discrimination self-test could not be evaluated: " + log[-500:]))
    for k in bad:
        a, b, same = meaning[k]
        fails.append(dict(key="selftest-not-discriminating", case=None,
                          what=(f"the measured footprints of {a} do not pass against the Coq model of {a}" if same else
                                f"the measured footprints of {a} PASS against the Coq model of {b}: the correspondence "
                                f"does not discriminate architectures")))
    return fails, {"selftest_pairs": len(terms), "selftest_wrong": len(bad)}


def constructor_probes(rng):
    """What the models' constructors do with num_layers <= 0 and ExcelFormer with categorical columns.  OBSERVATION
    ONLY: C14 has no rejection clause, so nothing is demanded here (recorded in the evidence)."""
    seen = {}
    with P.f64(1):
        data = P.gen_data(rng, 3, 2, 2, "regression", 0.0)
        ds = P.make_dataset(data)
        dsn = P.make_dataset(dict(data, cat=[]))
        for m in ("FTTransformer", "TabTransformer", "Trompt", "TabNet", "ExcelFormer"):
            for L in (0, -1):
                try:
                    P.build_model(m, {"layers": L, "channels": 8}, dsn if m == "ExcelFormer" else ds, 1)
                    seen[f"{m}(num_layers={L})"] = "constructed"
                except Exception as ex:
                    seen[f"{m}(num_layers={L})"] = "raised " + C.exc_name(ex)
        try:
            P.build_model("ExcelFormer", {"channels": 8}, ds, 1)
            seen["ExcelFormer(categorical columns)"] = "constructed"
        except Exception as ex:
            seen["ExcelFormer(categorical columns)"] = "raised " + C.exc_name(ex)
    return [], seen


def extra(tier, rng):
    f0, n0 = constructor_probes(rng)
    f1, n = validate_torch_blocks(rng)
    f1 = f0 + f1
    f2, info = selftest_discrimination(rng)
    info = dict(info, torch_block_rowwise_checks=n, constructor_observations=n0)
    return f1 + f2, info


def sanity(cases, obss):
    """Fail-closed distribution check."""
    d = stats(cases, obss)
    probs = []
    for m in P.MODELS:
        if d["models"].get(m, 0) == 0:
            probs.append(f"model {m} never drawn")
    if d["kinds"].get("big", 0) == 0:
        probs.append("no batch larger than the 512-row ghost batch")
    # ratio requirements are evaluated over the deterministic "required" stream (the run's seed only drives the
    # additional random stream)
    nreq = d.get("req_total", 0) + d.get("req_errors", 0)
    if nreq == 0:
        probs.append("the deterministic required stream is missing")
    if d.get("req_errors", 0) > 0.2 * max(nreq, 1):
        probs.append(f"{d.get('req_errors')} of {nreq} required cases failed to run")
    if d.get("req_with_missing", 0) < 0.5 * max(d.get("req_total", 0), 1):
        probs.append("fewer than half of the required frames contain missing cells")
    if sum(v for k, v in d.get("histories", {}).items() if k != "[]") < 0.5 * d["total"]:
        probs.append("fewer than half of the cases have a train/eval history")
    if not any(len(json.loads(k)) >= 2 for k in d.get("histories", {})):
        probs.append("no history with two or more eval->train->eval rounds")
    # every stype-encoder class the repository offers for numerical / categorical columns is drawn, and scored at
    # 0 training steps with every model that takes an encoder dictionary; constructor arguments leave their defaults
    from torch_frame import stype as _st
    drawn = d.get("arg:num_enc", {})
    for cls in P.encoder_classes(_st.numerical) + P.encoder_classes(_st.categorical):
        if cls in P.ENC_EXCLUDED:
            continue
        if cls not in P.ENC_CTORS:
            probs.append(f"stype encoder class {cls} of the repository is unknown to the generator")
        elif cls != "EmbeddingEncoder" and drawn.get(cls, 0) == 0:
            probs.append(f"stype encoder class {cls} never drawn")
    for m in P.MODELS:
        if m == "TabTransformer":
            continue
        for cls in drawn:
            if cls != "None" and d.get("zero_step_encoders", {}).get(f"{m}/{cls}", 0) == 0:
                probs.append(f"{m} with {cls} never scored at 0 training steps")
    if d.get("req_probes_total", 0) and d.get("req_probes_incomplete", 0) > 0.05 * d["req_probes_total"]:
        probs.append(f"{d['req_probes_incomplete']} of {d['req_probes_total']} intermediate probes of the required stream "
                     f"were compared for soundness only")
    for cls in ("LinearBucketEncoder", "LinearPeriodicEncoder"):
        if d.get("encoder_stage_compared", {}).get(cls, 0) == 0:
            probs.append(f"the encoder stage of {cls} was never compared with C13's model")
    if d.get("ghost_size_lists_compared", 0) == 0:
        probs.append("the ghost batch norm call sizes were never observed")
    bd = d.get("boundaries", {})
    need = (["num_col:" + k for k in P.NUM_KINDS_MIN_TIED + ["mid_ties", "top_ties", "single_value", "generic"]]
            + ["bucket_encoder_with_min_tied_column", "frame_of_2_rows", "heads==channels", "heads==num_cols",
               "scored_batch:0", "scored_batch:1", "scored_batch:2", "ghost_chunks:1", "ghost_chunks:2", "ghost_chunks:3",
               "batch==ghost", "batch==ghost+1"])
    if not any(k.startswith("ghost_chunks:") and int(k.split(":")[1]) >= 4 for k in bd):
        probs.append("no TabNet batch with four or more ghost batches")
    for k in need:
        if bd.get(k, 0) == 0:
            probs.append(f"boundary {k} never hit")
    for m, cls in sorted(KNOWN_DEAD):
        hs = [bool(c.get("history")) for c in cases if c is not None and c["model"] == m and c["opts"].get("num_enc") == cls]
        if not (any(hs) and not all(hs)):
            probs.append(f"{m} with {cls} (recorded finding) not drawn both at 0 and at >= 1 training steps")
    defaults = {"norm": "layer_norm", "channels": None, "layers": None, "dropout": "0.2", "heads": None, "pad": None,
                "prompts": None, "attn_channels": None, "gamma": "1.2", "shared": "2", "cat_emb": "2",
                "num_na": "None", "cat_na": "None"}
    for key, dflt in defaults.items():
        vals = d.get("arg:" + key, {})
        if len(vals) < 2 or (dflt is not None and set(vals) <= {dflt}):
            probs.append(f"constructor argument {key} takes fewer than two values / only its default")
    if d.get("dtypes", {}).get("float32", 0) == 0 or d.get("dtypes", {}).get("float64", 0) == 0:
        probs.append("float32 or float64 never used")
    measured = {}
    for c, o in zip(cases, obss):
        if c is None or not o.get("ok"):
            continue
        for pn, m in zip(o["probe_names"], o["probe_fp"]):
            measured[(c["model"], pn)] = measured.get((c["model"], pn), False) or (m is not None)
    for (m, pn), okp in sorted(measured.items()):
        if not okp:
            probs.append(f"intermediate tensor {pn} of {m} could never be hooked")
    return probs
