"""C14 — Model inference is row-independent, deterministic, finite, uses every column.

Tie 3 (DESIGN.md section 3.3): dependency footprints of the real models, measured by single-row /
single-cell perturbation in float64 (bit-exact, same batch shape), compared with the footprint the
Coq model (Model/Layers.v run on provenance scalars, Model/LayersRun.v) predicts for the same
shapes; plus the metamorphic battery (row alone / other batch / permuted / duplicated / empty),
finiteness and determinism, which are observations only.
"""
from __future__ import annotations

import json

import torch

from harness import common as C
from harness import nnprobe as P

PROP = "C14"
HEADER = "Require Import PF.Lib.Tensor PF.Model.Layers PF.Model.LayersRun."
MODEL_TARGETS = ["Model/LayersRun.vo"]
SHARD = 12
RULE = ("one case = (model of the zoo, option variant, task type, explicit small dataset with missing cells and "
        ">= 2 columns per used stype, a parameter-state history eval -> (train 1-3 SGD steps -> eval)* of 0-3 rounds "
        "on one model object with previously used and new batch sizes re-scored after every round, index lists); "
        "distinct = distinct (model, options, task, rows, "
        "columns, steps, batch kind); non-trivial = forward pass succeeded on a non-empty batch and at least one "
        "row footprint and one column influence were measured")
TRUSTED = [
    "Coq 8.16.1 kernel + vm_compute",
    "hand-written model coq/Model/Layers.v of the models' own glue (mean / view / CLS / prompt read-out, eval-mode "
    "batch norm, GhostBatchNorm1d chunking, TabNet loop, torch.cat of stype parts), tied to /repo by this run's "
    "footprint correspondence on provenance scalars (coq/Model/LayersRun.v)",
    "modelled primitives: nn.Linear / LayerNorm / GroupNorm / nn.TransformerEncoder / the feature encoder as "
    "blocks acting on each row (explicit hypotheses of the theorems); torch.chunk, repeat, cat, view, mean",
    "harness/c14.py + harness/nnprobe.py (dataset builder, perturbation, bit-exact change detection)",
]
ASSUMPTIONS = [
    "theorems are over exact arithmetic with abstract scalars and uninterpreted non-linearities; IEEE round-off "
    "is not modelled: cross-batch agreement is OBSERVED to 1e-9 in float64, same-batch footprints bit-exactly",
    "kernel determinism and finiteness of outputs (missing values present) are OBSERVED, not proved",
    "torch modules are assumed to be in evaluation mode and to act row-wise (acts_rowwise hypotheses); a module "
    "left in training mode shows up as a measured row leak",
    "'every column can influence the prediction' is proved only in the provenance instance for bounded shapes "
    "(by computation) and measured on the real parameters with up to 8 re-draws",
    "datasets are non-degenerate: every categorical column has >= 2 categories, every numerical column >= 2 values",
]

NORM_CODE = {None: 0, "layer_norm": 1, "batch_norm": 2}
TRIALS = 8
SIZES = [1.0, 10.0, 100.0]


# ------------------------------------------------------------------ generation
def variants(model):
    if model in ("MLP", "ResNet"):
        return [{"norm": "layer_norm"}, {"norm": "batch_norm"}, {"norm": None, "enc": "na"},
                {"norm": "batch_norm", "enc": "zeros"}, {"norm": "layer_norm", "enc": "periodic", "layers": 1}]
    if model == "FTTransformer":
        return [{}, {"enc": "na"}, {"enc": "zeros", "layers": 1}]
    if model == "TabTransformer":
        return [{"stypes": "both"}, {"stypes": "cat", "heads": 1}, {"stypes": "num"}, {"stypes": "both", "layers": 1}]
    if model == "Trompt":
        return [{}, {"enc": "default", "prompts": 4}, {"enc": "na", "layers": 3}, {"enc": "stack", "layers": 1}]
    if model == "TabNet":
        return [{}, {"shared": 0, "dep": 1}, {"shared": 2, "dep": 0, "cat_emb": 3}, {"enc": "stack", "layers": 1}]
    if model == "ExcelFormer":
        return [{"heads": 2}, {"heads": 1}, {"heads": 4, "layers": 1}]
    raise ValueError(model)


def gen_case(rng, model, opts, task, big=False):
    opts = dict(opts)
    n = rng.randint(3, 6) if not big else rng.randint(3, 6)
    st = opts.get("stypes", "both")
    if model == "ExcelFormer" or st == "num":
        n_num, n_cat = rng.randint(2, 4), 0
    elif st == "cat":
        n_num, n_cat = 0, rng.randint(2, 4)
    else:
        n_num, n_cat = 2, 2
        if rng.chance(0.3):
            n_num = 3
    data = P.gen_data(rng, n, n_num, n_cat, task, rng.pick([0.2, 0.4]))
    idxs = []
    rows = list(range(n))
    idxs.append([rng.randrange(n)])                                   # a row alone
    perm = rows[:]
    rng.shuffle(perm)
    idxs.append(perm)                                                 # a permutation of the batch
    idxs.append([rng.randrange(n) for _ in range(rng.randint(2, 7))])  # duplicates / other batch composition
    idxs.append(sorted(rng.sample(rows, rng.randint(1, n - 1))))      # a subset
    # parameter-state history on ONE model object: eval-score, then for each entry train that many SGD steps,
    # model.eval(), score again (an inference-time cache that survives training shows up only this way)
    history = rng.wpick([(2, []), (3, [rng.randint(1, 3)]), (3, [rng.randint(1, 2), rng.randint(1, 2)]), (2, [1, 1, 1])])
    case = {"model": model, "opts": opts, "task": task, "data": data, "history": history, "steps": sum(history),
            "seed": rng.randrange(1 << 30), "idxs": idxs, "kind": "small"}
    if big:
        # a batch larger than the 512-row ghost batch: the frame's rows repeated
        m = 512 + rng.randint(1, 40)
        case["kind"] = "big"
        case["big_idx"] = [rng.randrange(n) for _ in range(m)]
        case["probe_rows"] = sorted({0, 1, 511, 512, m - 1, rng.randrange(m)})
    return case


def generate(rng, tier):
    cases = []
    tasks = ["regression", "binary", "multiclass"]
    reps = 3 if tier == "quick" else 20
    k = 0
    for _ in range(reps):
        for model in P.MODELS:
            for opts in variants(model):
                cases.append(gen_case(rng, model, opts, tasks[k % 3]))
                k += 1
        # batches larger than the ghost batch size: TabNet (and one other model as a control)
        for opts in ([{}, {"shared": 0, "dep": 1}] if tier == "quick" else variants("TabNet")):
            cases.append(gen_case(rng, "TabNet", opts, tasks[k % 3], big=True))
            k += 1
        cases.append(gen_case(rng, "MLP", {"norm": "batch_norm"}, tasks[k % 3], big=True))
    return cases


# ------------------------------------------------------------------ implementation run
def _prng(case, salt):
    return C.Rng(case["seed"] * 7919 + salt)


def run(case):
    obs = {"ok": False}
    with P.f64(case["seed"]):
        try:
            ds = P.make_dataset(case["data"])
            tf0 = ds.tensor_frame
            outc = P.out_channels_of(case["data"])
            model = P.build_model(case["model"], case["opts"], ds, outc)
            model.eval()
        except Exception as ex:
            obs.update(stage="build", exc=C.exc_name(ex), msg=str(ex)[:300], tb=C.fmt_exc())
            return obs
        try:
            obs["hist"] = _history(case, tf0, model)
            obs.update(_probe(case, ds, tf0, model, outc))
            obs["ok"] = True
        except Exception as ex:
            obs.update(stage="forward", exc=C.exc_name(ex), msg=str(ex)[:300], tb=C.fmt_exc())
    return obs


def _battery(model, tf, sizes, rng):
    """Score the frame's rows in batches of the given sizes (index lists with duplicates, shuffled) and as a
    permutation of the whole batch; every score is compared with the same row's score in the full batch."""
    n = len(tf)
    out = P.fwd(model, tf)
    res = [{"what": "two calls on the full batch", "size": n,
            "diff": 0.0 if torch.equal(out, P.fwd(model, tf)) else float("inf"), "exact": True}]
    perm = list(range(n))
    rng.shuffle(perm)
    lists = [("permuted full batch", perm)]
    for m in sizes:
        if m == n:
            idx = [rng.randrange(n) for _ in range(n)]          # duplicates, in a batch of the full size
            lists.append(("duplicated rows, full size", idx))
        elif m == 1:
            lists.append(("row alone", [rng.randrange(n)]))
        else:
            lists.append((f"batch of {m} rows", [rng.randrange(n) for _ in range(m)]))
    for what, idx in lists:
        ti = torch.tensor(idx, dtype=torch.long)
        res.append({"what": what, "size": len(idx), "diff": P.maxdiff(P.fwd(model, tf[ti]), out[ti])})
    return res


def _history(case, tf0, model):
    """eval -> (train k steps -> eval)* on the same model object.  Batch sizes used in an earlier evaluation phase
    are used again after training, together with a size never used before."""
    rng = _prng(case, 2)
    n = len(tf0)
    used = [n, 1, 2 if n != 2 else 3]
    phases = [{"phase": 0, "trained": 0, "sizes": list(used), "runs": _battery(model, tf0, used, rng)}]
    for p, k in enumerate(case.get("history", []), start=1):
        P.train_steps(model, tf0, k)
        fresh = next(m for m in range(2, 40) if m not in used)
        sizes = list(used) + [fresh]
        phases.append({"phase": p, "trained": k, "sizes": sizes, "new_size": fresh,
                       "training_flag": bool(model.training), "runs": _battery(model, tf0, sizes, rng)})
        used.append(fresh)
    model.eval()
    return phases


def _probe(case, ds, tf0, model, outc):
    rng = _prng(case, 1)
    o = {}
    n0 = len(tf0)
    if case["kind"] == "big":
        tf = tf0[torch.tensor(case["big_idx"])]
        probe_rows = case["probe_rows"]
    else:
        tf = tf0
        probe_rows = list(range(n0))
    n = len(tf)
    cols = P.columns_of(tf)
    ncats = P.num_categories(ds, tf)
    o["n"], o["ncols"] = n, len(cols)
    o["col_kinds"] = [c[0].value for c in cols]
    o["has_missing"] = bool(any(torch.isnan(v).any() if v.is_floating_point() else (v < 0).any()
                                for v in tf.feat_dict.values()))
    out = P.fwd(model, tf)
    o["shape"] = list(out.shape)
    o["expected_shape"] = [n, case["opts"].get("layers", 2), outc] if case["model"] == "Trompt" else [n, outc]
    o["finite"] = bool(torch.isfinite(out).all())
    o["deterministic"] = bool(torch.equal(out, P.fwd(model, tf)))
    o["training_flag"] = bool(model.training)
    # empty batch
    e = P.fwd(model, tf[torch.tensor([], dtype=torch.long)])
    o["empty_shape"] = list(e.shape)
    # metamorphic battery (tolerance: another batch shape goes through other kernels)
    meta = []
    for idx in case["idxs"]:
        ti = torch.tensor(idx, dtype=torch.long)
        meta.append({"idx_len": len(idx), "diff": P.maxdiff(P.fwd(model, tf[ti]), out[ti])})
    if case["kind"] == "big":
        small = P.fwd(model, tf0)
        meta.append({"what": "big-vs-small", "diff": P.maxdiff(out, small[torch.tensor(case["big_idx"])])})
        meta.append({"what": "prefix-512", "diff": P.maxdiff(P.fwd(model, tf[:512]), out[:512])})
    o["meta"] = meta
    # footprints, with re-drawn parameters / sizes while a predicted dependency is unmeasured
    row_changed = {r: set() for r in probe_rows}
    col_reached = [False] * len(cols)
    col_leak = []
    trials = 0
    for t in range(TRIALS):
        need_rows = [r for r in probe_rows if r not in row_changed[r]]
        need_cols = [j for j in range(len(cols)) if not col_reached[j]]
        if t > 0 and not need_rows and not need_cols:
            break
        trials += 1
        if t > 0:
            P.redraw_params(model, t)
            out = P.fwd(model, tf)
        size = SIZES[t % 3]
        for r in (probe_rows if t == 0 else need_rows):
            t2 = P.clone_tf(tf)
            for c in cols:
                P.perturb_cell(t2, r, c, rng, size, ncats)
            ch = P.changed_rows(out, P.fwd(model, t2))
            row_changed[r].update(ch if ch is not None else [-1])
        for j in (range(len(cols)) if t == 0 else need_cols):
            # prefer a row whose cell is present: a missing categorical cell re-drawn as the most frequent
            # category is no change at all under NAStrategy.MOST_FREQUENT
            feat = tf.feat_dict[cols[j][0]][:, cols[j][1]]
            present = [q for q in probe_rows
                       if not (bool(torch.isnan(feat[q])) if feat.is_floating_point() else int(feat[q]) < 0)]
            r = rng.choice(present or probe_rows)
            t2 = P.clone_tf(tf)
            P.perturb_cell(t2, r, cols[j], rng, size, ncats)
            ch = P.changed_rows(out, P.fwd(model, t2))
            if ch is None:
                col_leak.append([j, r, [-1]])
                continue
            if r in ch:
                col_reached[j] = True
            if any(s != r for s in ch):
                col_leak.append([j, r, ch[:8]])
    o["rows"] = [[r, sorted(row_changed[r])] for r in probe_rows]
    o["cols"] = col_reached
    o["col_leak"] = col_leak
    o["trials"] = trials
    return o


# ------------------------------------------------------------------ direct oracle
def oracle(case, obs):
    if "harness_exc" in obs:
        return dict(key="harness-exc", what="harness failed: " + obs["harness_exc"], tb=obs.get("tb"))
    m = case["model"]
    if not obs.get("ok"):
        return dict(key=f"raises:{m}:{obs.get('stage')}",
                    what=f"{m} {obs.get('stage')} raised {obs.get('exc')}: {obs.get('msg')}", tb=obs.get("tb"))
    if obs["shape"] != obs["expected_shape"]:
        return dict(key=f"shape:{m}", what=f"{m} output shape {obs['shape']}, expected {obs['expected_shape']}",
                    expected=obs["expected_shape"], observed=obs["shape"])
    if obs["empty_shape"] != [0] + obs["expected_shape"][1:]:
        return dict(key=f"empty-shape:{m}", what=f"{m} on the empty batch gives shape {obs['empty_shape']}",
                    expected=[0] + obs["expected_shape"][1:], observed=obs["empty_shape"])
    if not obs["finite"]:
        return dict(key=f"non-finite:{m}", what=f"{m} output contains NaN/inf on a materialized frame")
    if not obs["deterministic"]:
        return dict(key=f"non-deterministic:{m}", what=f"{m} in eval mode gave two different outputs for the same batch")
    for r, ch in obs["rows"]:
        extra = [s for s in ch if s != r]
        if extra:
            return dict(key=f"row-leak:{m}", what=f"{m}: changing the features of row {r} changed the predictions "
                        f"of rows {extra[:6]} (batch of {obs['n']})", expected=[r], observed=ch[:12])
    for j, r, ch in obs["col_leak"]:
        return dict(key=f"row-leak:{m}", what=f"{m}: changing cell (row {r}, column {j}) changed the predictions of "
                    f"rows {ch}", expected=[r], observed=ch)
    for ph in obs.get("hist", []):
        for rn in ph["runs"]:
            if not (rn["diff"] <= (0.0 if rn.get("exact") else P.TOL)):
                if rn.get("exact"):
                    return dict(key=f"non-deterministic:{m}", what=f"{m}: two evaluation calls on the same batch differ "
                                f"(after {ph['phase']} train/eval rounds)")
                return dict(key=f"batch-dependent:{m}", what=f"{m}: after {ph['phase']} train->eval round(s) on the same "
                            f"model object (batch sizes scored so far {ph['sizes']}), {rn['what']} (size {rn['size']}) "
                            f"differs from the same rows in the full batch by {rn['diff']:.3g}",
                            expected=f"<= {P.TOL}", observed=rn["diff"], phase=ph["phase"])
    for mt in obs["meta"]:
        if not (mt["diff"] <= P.TOL):
            what = mt.get("what", f"index list of {mt.get('idx_len')} rows")
            return dict(key=f"batch-dependent:{m}", what=f"{m}: model(tf[idx]) differs from model(tf)[idx] by "
                        f"{mt['diff']:.3g} ({what})", expected=f"<= {P.TOL}", observed=mt["diff"])
    for r, ch in obs["rows"]:
        if r not in ch:
            return dict(key=f"row-dead:{m}", what=f"{m}: no change of row {r}'s features changed its prediction in "
                        f"{TRIALS} trials", expected=[r], observed=ch)
    for j, reached in enumerate(obs["cols"]):
        if not reached:
            return dict(key=f"column-unused:{m}", what=f"{m}: column {j} ({obs['col_kinds'][j]}) never influenced the "
                        f"prediction in {TRIALS} trials with re-drawn parameters", expected=True, observed=False)
    return None


def shrink(case):
    h = case.get("history", [])
    for k in range(len(h)):
        h2 = h[:k] + h[k + 1:]
        yield dict(case, history=h2, steps=sum(h2))
    for k in range(len(h)):
        if h[k] > 1:
            h2 = h[:k] + [1] + h[k + 1:]
            yield dict(case, history=h2, steps=sum(h2))
    if len(case["idxs"]) > 1:
        for k in range(len(case["idxs"])):
            yield dict(case, idxs=case["idxs"][:k] + case["idxs"][k + 1:])
    d = case["data"]
    if d["n"] > 3 and case["kind"] == "small":
        for r in range(2, d["n"]):
            nd = dict(d, n=d["n"] - 1, num=[c[:r] + c[r + 1:] for c in d["num"]],
                      cat=[c[:r] + c[r + 1:] for c in d["cat"]], y=d["y"][:r] + d["y"][r + 1:])
            m = nd["n"]
            yield dict(case, data=nd, idxs=[[i for i in ix if i < m] or [0] for ix in case["idxs"]])
    if case["kind"] == "big" and len(case["big_idx"]) > 514:
        yield dict(case, big_idx=case["big_idx"][:514], probe_rows=[0, 1, 511, 512, 513])


def nontrivial_sig(case, obs):
    if not obs.get("ok") or obs["n"] == 0 or not obs["rows"] or not obs["cols"]:
        return None
    return json.dumps([case["model"], sorted(case["opts"].items(), key=str), case["task"], obs["n"], obs["ncols"],
                       case.get("history", []), case["kind"]])


def stats(cases, obss):
    d = {"models": {}, "tasks": {}, "steps": {}, "batch_sizes": {}, "kinds": {}, "with_missing": 0, "errors": 0,
         "trials_hist": {}, "total": 0}
    for c, o in zip(cases, obss):
        if c is None:
            continue
        d["total"] += 1
        d.setdefault("histories", {})
        hk = str(c.get("history", []))
        d["histories"][hk] = d["histories"].get(hk, 0) + 1
        for k, v in (("models", c["model"]), ("tasks", c["task"]), ("steps", c["steps"]), ("kinds", c["kind"])):
            d[k][str(v)] = d[k].get(str(v), 0) + 1
        if not o.get("ok"):
            d["errors"] += 1
            continue
        d["batch_sizes"][str(o["n"])] = d["batch_sizes"].get(str(o["n"]), 0) + 1
        d["with_missing"] += int(o["has_missing"])
        d["trials_hist"][str(o["trials"])] = d["trials_hist"].get(str(o["trials"]), 0) + 1
    return d


# ------------------------------------------------------------------ Coq side
def coq_model_term(case, obs):
    """The Coq model of this case's architecture run on provenance scalars: per output row its input cells."""
    m, opts = case["model"], case["opts"]
    n, cols = obs["n"], obs["ncols"]
    L = opts.get("layers", 2)
    X = f"(seq 0 {n})"
    if m == "MLP":
        return f"deps2 (p_mlp {NORM_CODE[opts.get('norm', 'layer_norm')]} {L} {cols} 2 2 {X})"
    if m == "ResNet":
        return f"deps2 (p_resnet {NORM_CODE[opts.get('norm', 'layer_norm')]} {L} {cols} 2 2 {X})"
    if m == "TabNet":
        has_cat = "categorical" in obs["col_kinds"]
        ce = opts.get("cat_emb", 2) if has_cat else 1
        return (f"deps2 (p_tabnet {L} {cols} {ce} 2 {opts.get('shared', 2)} {opts.get('dep', 2)} 512 2 {X})")
    if m == "FTTransformer":
        return f"deps2 (p_ft {cols} 2 2 {X})"
    if m == "TabTransformer":
        cat = [j for j, k in enumerate(obs["col_kinds"]) if k == "categorical"]
        num = [j for j, k in enumerate(obs["col_kinds"]) if k == "numerical"]
        return f"deps2 (p_tabt {L} {opts.get('heads', 2)} {cols} 4 2 2 {P.cnats(cat)} {P.cnats(num)} {X})"
    if m == "Trompt":
        return f"deps3 (p_trompt {L} {cols} 2 {opts.get('prompts', 2)} 2 {X})"
    if m == "ExcelFormer":
        h = min(opts.get("heads", 2), 2)
        return f"deps2 (p_excel {L} {h} {cols} 2 2 {X})"
    raise ValueError(m)


def coq_term(case, obs):
    if not obs.get("ok"):
        return None
    rows = "[" + "; ".join(f"({r}, {P.cnats(ch)})" for r, ch in obs["rows"]) + "]"
    return f"model_fp_ok {obs['ncols']} ({coq_model_term(case, obs)}) {obs['n']} {rows} {P.cbvec(obs['cols'])}"
