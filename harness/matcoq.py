"""Coq literal printers for the materialization model (coq/Model/Mapper.v,
Converter.v, ConverterRun.v), shared by harness/c01.py and harness/c02.py.

Case files are evaluated with `Open Scope Z_scope`: integer literals are Z,
nat literals carry %nat.  Floats are never printed as decimals: every float
payload of the generators is a dyadic rational with <= 3 fractional bits and is
shipped as the exact integer 8*x (NotExact otherwise)."""
from __future__ import annotations

import datetime as dt

from harness import common as C
from harness import dfgen as G

HEADER = ("From PF Require Import Gen.Tables Lib.ListX Model.Ragged Model.Mapper Model.MapperSpec "
          "Model.Converter Model.ConverterRun.\nOpen Scope Z_scope.")
MODEL_TARGETS = ["Model/ConverterRun.vo"]
SCALE = 8

INT_STYPES = ("categorical", "multicategorical", "timestamp")


class NotExact(Exception):
    pass


def zs(n) -> str:
    n = int(n)
    return f"({n})" if n < 0 else str(n)


def nat(n) -> str:
    assert 0 <= int(n) < 100000, n
    return f"{int(n)}%nat"


def pstr(s: str) -> str:
    return "[" + "; ".join(str(ord(ch)) for ch in s) + "]"


def ppval(v) -> str:
    if isinstance(v, str):
        return f"VStr {pstr(v)}"
    if isinstance(v, bool) or not isinstance(v, int):
        raise NotExact(f"category value {v!r} is neither int nor str")
    return f"VInt {zs(v)}"


def pnum(x) -> str:
    """JSON float cell (None = NaN, 'inf', '-inf', number) -> num"""
    if x is None:
        return "NNaN"
    if x == "inf":
        return "NPosInf"
    if x == "-inf":
        return "NNegInf"
    v = float(x) * SCALE
    if v != int(v):
        raise NotExact(f"{x!r} is not a multiple of 1/{SCALE}")
    return f"NFin {zs(int(v))}"


def popt(x, f) -> str:
    return "None" if x is None else f"(Some ({f(x)}))"


def plist(xs, f=str) -> str:
    return "[" + "; ".join(f(x) for x in xs) + "]"


def pscalar(v, is_int: bool) -> str:
    if is_int:
        if not isinstance(v, int) or isinstance(v, bool):
            raise NotExact(f"integer tensor entry {v!r}")
        return f"SInt {zs(v)}"
    return f"SNum ({pnum(v)})"


def pecell(cell, is_int: bool) -> str:
    return plist(cell, lambda v: pscalar(v, is_int))


def labels_of(case) -> str:
    """the DataFrame's index labels as pvals"""
    lab = G.index_labels(case["index"], case["n"])
    if lab is None:
        lab = list(range(case["n"]))
    return plist(lab, ppval)


def epoch_seconds(cell):
    """independent reading of a generated timestamp cell [y, m, d, hh, mm, ss]"""
    if cell is None or isinstance(cell, str):
        return None
    y, m, d, hh, mm, ss = cell
    delta = dt.datetime(y, m, d, hh, mm, ss) - dt.datetime(1970, 1, 1)
    return delta.days * 86400 + delta.seconds


def rawcol(col, stats, parsed=None, embedded=None, tokenized=None) -> str:
    """The column as a `rawcol` of Model/Converter.v: raw cells + what the
    converter knows (category list from the implementation's statistics,
    separator) + black-box results (parsed timestamps, embedder/tokenizer output)."""
    st, cells = col["stype"], col["cells"]
    if st == "numerical":
        return "RNum " + plist(cells, lambda c: popt(c, pnum))
    if st == "categorical":
        cats = stats["COUNT"][0]
        return f"RCat {plist(cats, ppval)} " + plist(cells, lambda c: popt(c, ppval))
    if st == "multicategorical":
        cats = stats["MULTI_COUNT"][0]
        sep = popt(col["sep"], pstr)

        def cell(c):
            if c is None:
                return "MCMissing"
            if isinstance(c, str):
                return f"MCStr {pstr(c)}"
            return f"MCList {plist(c, ppval)}"
        dtype_ok = "false" if col.get("dtype") == "float64" else "true"      # the mapper's dtype gate
        return f"RMulti {dtype_ok} {plist(cats, ppval)} {sep} " + plist(cells, cell)
    if st == "sequence_numerical":
        def cell(c):
            if c is None:
                return "SQMissing"
            return "SQList " + plist(c, lambda x: popt(x, pnum))
        return "RSeq " + plist(cells, cell)
    if st == "timestamp":
        assert parsed is not None and len(parsed) == len(cells)
        return "RTime " + plist(parsed, lambda s: popt(s, zs))
    if st == "embedding":
        return "REmb " + plist(cells, lambda v: plist(v, pnum))
    if st in ("text_embedded", "image_embedded"):
        assert embedded is not None
        ctor = "RTextEmb" if st == "text_embedded" else "RImageEmb"
        return f"{ctor} " + plist(embedded, lambda v: plist(v, pnum))
    if st == "text_tokenized":
        assert tokenized is not None
        return "RTok " + plist(tokenized, lambda d: plist(list(d.items()),
                                                         lambda kv: f"({pstr(kv[0])}, {plist(kv[1], zs)})"))
    raise ValueError(st)


def is_int_stype(st) -> bool:
    return st in INT_STYPES


def stype_ctor(st: str) -> str:
    return "st_" + st


def parse_timestamps(df, col):
    """The black box of the timestamp pipeline: what pd.to_datetime returns for the
    column, as epoch seconds / None (NaT).  Same call as the mapper makes."""
    import pandas as pd
    fmt = None if col["fmt"] in (None, "datetime64") else col["fmt"]
    ser = pd.to_datetime(df[col["name"]], format=fmt, errors="coerce")
    out = []
    for v in ser.tolist():
        if v is pd.NaT or v is None or (isinstance(v, float) and v != v):
            out.append(None)
        else:
            delta = v.to_pydatetime() - dt.datetime(1970, 1, 1)
            out.append(delta.days * 86400 + delta.seconds)
    return out
