"""Coq literal printers for the materialization model (coq/Model/Mapper.v,
Converter.v, ConverterRun.v), shared by harness/c01.py and harness/c02.py.

Case files are evaluated with `Open Scope Z_scope`: integer literals are Z,
nat literals carry %nat.  Floats are never printed as decimals: every float
payload of the generators is a dyadic rational with <= 3 fractional bits and is
shipped as the exact integer 8*x (NotExact otherwise)."""
from __future__ import annotations

import datetime as dt

from harness import common as C
from harness import dfgen as G

HEADER = ("From PF Require Import Gen.Tables Lib.ListX Model.Ragged Model.Mapper Model.MapperSpec "
          "Model.Converter Model.DatasetInit Model.ConverterRun.\nOpen Scope Z_scope.")
MODEL_TARGETS = ["Model/ConverterRun.vo"]
SCALE = 8

INT_STYPES = ("categorical", "multicategorical", "timestamp")


class NotExact(Exception):
    pass


def zs(n) -> str:
    n = int(n)
    return f"({n})" if n < 0 else str(n)


def nat(n) -> str:
    assert 0 <= int(n) < 100000, n
    return f"{int(n)}%nat"


def pstr(s: str) -> str:
    return "[" + "; ".join(str(ord(ch)) for ch in s) + "]"


def ppval(v) -> str:
    if isinstance(v, str):
        return f"VStr {pstr(v)}"
    if isinstance(v, bool) or not isinstance(v, int):
        raise NotExact(f"category value {v!r} is neither int nor str")
    return f"VInt {zs(v)}"


def pnum(x) -> str:
    """JSON float cell (None = NaN, 'inf', '-inf', number) -> num"""
    if x is None:
        return "NNaN"
    if x == "inf":
        return "NPosInf"
    if x == "-inf":
        return "NNegInf"
    v = float(x) * SCALE
    if v != int(v):
        raise NotExact(f"{x!r} is not a multiple of 1/{SCALE}")
    return f"NFin {zs(int(v))}"


def popt(x, f) -> str:
    return "None" if x is None else f"(Some ({f(x)}))"


def plist(xs, f=str) -> str:
    return "[" + "; ".join(f(x) for x in xs) + "]"


def pscalar(v, is_int: bool) -> str:
    if is_int:
        if not isinstance(v, int) or isinstance(v, bool):
            raise NotExact(f"integer tensor entry {v!r}")
        return f"SInt {zs(v)}"
    return f"SNum ({pnum(v)})"


def pecell(cell, is_int: bool) -> str:
    return plist(cell, lambda v: pscalar(v, is_int))


def labels_of(case) -> str:
    """the DataFrame's index labels as pvals"""
    lab = G.index_labels(case["index"], case["n"])
    if lab is None:
        lab = list(range(case["n"]))
    return plist(lab, ppval)


def epoch_seconds(cell):
    """independent reading of a generated timestamp cell [y, m, d, hh, mm, ss]"""
    if cell is None or isinstance(cell, str):
        return None
    y, m, d, hh, mm, ss = cell
    delta = dt.datetime(y, m, d, hh, mm, ss) - dt.datetime(1970, 1, 1)
    return delta.days * 86400 + delta.seconds


def rawcol(col, stats, parsed=None, embedded=None, tokenized=None) -> str:
    """The column as a `rawcol` of Model/Converter.v: raw cells + what the
    converter knows (category list from the implementation's statistics,
    separator) + black-box results (parsed timestamps, embedder/tokenizer output)."""
    st, cells = col["stype"], col["cells"]
    if st == "numerical":
        return "RNum " + plist(cells, lambda c: popt(c, pnum))
    if st == "categorical":
        cats = stats["COUNT"][0]
        return f"RCat {plist(cats, ppval)} " + plist(cells, lambda c: popt(c, ppval))
    if st == "multicategorical":
        cats = stats["MULTI_COUNT"][0]
        sep = popt(col["sep"], pstr)

        def cell(c):
            if c is None:
                return "MCMissing"
            if isinstance(c, str):
                return f"MCStr {pstr(c)}"
            return f"MCList {plist(c, ppval)}"
        dtype_ok = "false" if col.get("dtype") == "float64" else "true"      # the mapper's dtype gate
        return f"RMulti {dtype_ok} {plist(cats, ppval)} {sep} " + plist(cells, cell)
    if st == "sequence_numerical":
        def cell(c):
            if c is None:
                return "SQMissing"
            return "SQList " + plist(c, lambda x: popt(x, pnum))
        return "RSeq " + plist(cells, cell)
    if st == "timestamp":
        assert parsed is not None and len(parsed) == len(cells)
        return "RTime " + plist(parsed, lambda s: popt(s, zs))
    if st == "embedding":
        return "REmb " + plist(cells, lambda v: plist(v, pnum))
    if st in ("text_embedded", "image_embedded"):
        assert embedded is not None
        ctor = "RTextEmb" if st == "text_embedded" else "RImageEmb"
        return f"{ctor} " + plist(embedded, lambda v: plist(v, pnum))
    if st == "text_tokenized":
        assert tokenized is not None
        return "RTok " + plist(tokenized, lambda d: plist(list(d.items()),
                                                         lambda kv: f"({pstr(kv[0])}, {plist(kv[1], zs)})"))
    raise ValueError(st)


def is_int_stype(st) -> bool:
    return st in INT_STYPES


def stype_ctor(st: str) -> str:
    return "st_" + st


def parse_timestamps(df, col):
    """The black box of the timestamp pipeline: what pd.to_datetime returns for the
    column, as epoch seconds / None (NaT).  Same call as the mapper makes."""
    import pandas as pd
    fmt = None if col["fmt"] in (None, "datetime64") else col["fmt"]     # the parse of the raw cells themselves
    ser = pd.to_datetime(df[col["name"]], format=fmt, errors="coerce")
    out = []
    for v in ser.tolist():
        if v is pd.NaT or v is None or (isinstance(v, float) and v != v):
            out.append(None)
        else:
            delta = v.to_pydatetime() - dt.datetime(1970, 1, 1)
            out.append(delta.days * 86400 + delta.seconds)
    return out


# ------------------------------------------------------------------ public-signature forms
SEP_FORMS = ["dict", "single", "partial-dict"]
DEVICES = ["none", "str", "device"]


def time_format_of(col):
    """the time format CONFIGURED for a timestamp column (as dfgen.build_dataset does): the column's own format for
    text columns; for a column already held as datetime64 whatever dfgen drew as `cfg_fmt` (it must not matter)"""
    return col.get("cfg_fmt") if col["fmt"] == "datetime64" else col["fmt"]


def draw_forms(rng, desc):
    """Forms of the public signature a case is driven through (harness/c01.py, c02.py CLAUSES / SIGNATURE):
    Dataset(df, col_to_stype, target_col, split_col, col_to_sep, col_to_*_cfg, col_to_time_format) and
    materialize(device, path, col_stats) / converter(df, device)."""
    order = [c["name"] for c in desc["cols"]]
    rng.shuffle(order)
    return {"sep": rng.pick(SEP_FORMS), "fmt": rng.pick(SEP_FORMS), "cfg": rng.pick(["dict", "single"]),
            "split_col": rng.chance(0.25), "stype_order": order if rng.chance(0.5) else None,
            "args": rng.pick(["keyword", "positional"]), "device": rng.pick(DEVICES),
            "path": rng.chance(0.06), "return_stype": rng.chance(0.5)}


def _pattern(form, full):
    """a {col: value} configuration in the requested public form; returns (argument, form actually used)"""
    if not full:
        return None, "none"
    vals = list(full.values())
    if form == "single" and all(v == vals[0] for v in vals):
        return vals[0], "single"
    if form == "partial-dict" and any(v is None for v in vals):
        return {k: v for k, v in full.items() if v is not None}, "partial-dict"
    return dict(full), "dict"


def make_dataset(desc, df=None, forms=None, stubs=None):
    """dfgen.build_dataset with the signature forms of `forms` (None: the defaults build_dataset uses)."""
    import torch_frame
    from torch_frame.config.image_embedder import ImageEmbedderConfig
    from torch_frame.config.text_embedder import TextEmbedderConfig
    from torch_frame.config.text_tokenizer import TextTokenizerConfig
    from torch_frame.data import Dataset
    forms = forms or {}
    df = build_df(desc) if df is None else df
    used = {}
    for c in desc["cols"]:
        if c["stype"] == "numerical" and c["name"] in df.columns:
            used["num_backing:" + str(df[c["name"]].dtype)] = True
    names = [n for n in (forms.get("stype_order") or list(df.columns)) if n in df.columns]
    names += [n for n in df.columns if n not in names]
    by = {c["name"]: c for c in desc["cols"]}
    col_to_stype = {n: getattr(torch_frame, by[n]["stype"]) for n in names if n in by}
    used["stype_order"] = "shuffled" if list(col_to_stype) != [n for n in df.columns if n in by] else "frame-order"
    sep, used["sep"] = _pattern(forms.get("sep", "dict"), {c["name"]: c["sep"] for c in desc["cols"]
                                                            if c["stype"] == "multicategorical"})
    fmt, used["fmt"] = _pattern(forms.get("fmt", "dict"),
                                {c["name"]: time_format_of(c) for c in desc["cols"] if c["stype"] == "timestamp"})
    stubs = stubs if stubs is not None else {}
    te, tt, ie = {}, {}, {}
    for c in desc["cols"]:
        if c["stype"] == "text_embedded":
            stubs.setdefault(c["name"], G.StubTextEmbedder(3))
            te[c["name"]] = TextEmbedderConfig(text_embedder=stubs[c["name"]], batch_size=c.get("batch_size"))
        elif c["stype"] == "image_embedded":
            stubs.setdefault(c["name"], G.StubImageEmbedder(2))
            ie[c["name"]] = ImageEmbedderConfig(image_embedder=stubs[c["name"]], batch_size=c.get("batch_size"))
        elif c["stype"] == "text_tokenized":
            stubs.setdefault(c["name"], G.StubTokenizer(c.get("tok_fmt", "list")))
            tt[c["name"]] = TextTokenizerConfig(text_tokenizer=stubs[c["name"]], batch_size=c.get("batch_size"))

    def cfg(d):
        if not d:
            return None
        if forms.get("cfg") == "single" and len(d) == 1:
            used["cfg"] = "single"
            return next(iter(d.values()))
        used.setdefault("cfg", "dict")
        return d
    split_col = None
    if forms.get("split_col"):
        split_col = "__split__"
        df = df.copy(deep=False)          # keep the memory layout of the existing columns
        df[split_col] = [i % 3 for i in range(len(df))]
    used["split_col"] = split_col is not None
    kw = dict(col_to_sep=sep, col_to_time_format=fmt, col_to_text_embedder_cfg=cfg(te),
              col_to_text_tokenizer_cfg=cfg(tt), col_to_image_embedder_cfg=cfg(ie))
    if forms.get("args") == "positional":
        used["args"] = "positional"
        ds = Dataset(df, col_to_stype, desc["target"], split_col, kw["col_to_sep"], kw["col_to_text_embedder_cfg"],
                     kw["col_to_text_tokenizer_cfg"], kw["col_to_image_embedder_cfg"], kw["col_to_time_format"])
    else:
        used["args"] = "keyword"
        ds = Dataset(df, col_to_stype, target_col=desc["target"], split_col=split_col, **kw)
    # what was passed and what the dataset made of it: for the Dataset.__init__ model (Model/DatasetInit.v)
    used["_args"] = {"columns": [str(c) for c in df.columns], "stypes": [(n, s.value) for n, s in col_to_stype.items()],
                     "target": desc["target"], "split": split_col, "split_vals": [int(v) for v in df[split_col]] if split_col else [],
                     "sep": sep, "fmt": fmt,
                     "text": _cfg_shape(kw["col_to_text_embedder_cfg"]), "image": _cfg_shape(kw["col_to_image_embedder_cfg"]),
                     "tok": _cfg_shape(kw["col_to_text_tokenizer_cfg"]),
                     "canon_sep": dict(ds.col_to_sep), "canon_fmt": dict(ds.col_to_time_format)}
    return ds, stubs, used


def _cfg_shape(c):
    if c is None:
        return None
    return sorted(c) if isinstance(c, dict) else "single"


def _pat(v, f):
    return "PNone" if v is None else f"(PVal {f(v)})"


def _parg(arg, f):
    """a pattern argument in the user's form -> pattern_arg literal"""
    if isinstance(arg, dict):
        return "(ADict " + plist(list(arg.items()), lambda kv: f"({pstr(kv[0])}, {_pat(kv[1], f)})") + ")"
    return f"(ASingle {_pat(arg, f)})"


def ds_args_literal(a):
    cfg = {}
    for k in ("text", "image", "tok"):
        v = a[k]
        cfg[k] = "(ASingle PNone)" if v is None else ("(ASingle (PVal tt))" if v == "single" else
                                                     "(ADict " + plist(v, lambda n: f"({pstr(n)}, PVal tt)") + ")")
    return ("(MkArgs " + plist(a["columns"], pstr) + " " +
            plist(a["stypes"], lambda p: f"({pstr(p[0])}, {stype_ctor(p[1])})") + " " +
            popt(a["target"], pstr) + " " + popt(a["split"], pstr) + " " + plist(a["split_vals"], zs) + " " +
            _parg(a["sep"], pstr) + " " + _parg(a["fmt"], pstr) + f" {cfg['text']} {cfg['image']} {cfg['tok']})")


def check_config_term(a):
    """Model/DatasetInit.v on the arguments this dataset was built with vs the canonical dictionaries it holds"""
    def obs(d):
        return plist(list(d.items()), lambda kv: f"({pstr(kv[0])}, {popt(kv[1], pstr)})")
    return f"check_config {ds_args_literal(a)} {obs(a['canon_sep'])} {obs(a['canon_fmt'])}"


def device_arg(form):
    import torch
    return {"none": None, "str": "cpu", "device": torch.device("cpu")}.get(form or "none")


def count_forms(d, used):
    """stats helper: histogram of the signature forms actually used"""
    f = d.setdefault("forms", {})
    for k, v in (used or {}).items():
        if not k.startswith("_"):
            f[f"{k}={v}"] = f.get(f"{k}={v}", 0) + 1



REQUIRED_FORMS = ["sep=dict", "sep=single", "sep=partial-dict", "fmt=dict", "fmt=single", "fmt=partial-dict",
                  "split_col=True", "split_col=False", "stype_order=shuffled", "stype_order=frame-order",
                  "args=keyword", "args=positional", "device=none", "device=str", "device=device", "path=True",
                  "return_stype=True", "return_stype=False"]


def missing_forms(d, extra=()):
    f = d.get("forms", {})
    return [k for k in list(REQUIRED_FORMS) + list(extra) if f.get(k, 0) == 0]


# ------------------------------------------------------------------ numeric representation
NUM_BACKINGS = ["float64", "float32", "float16", "int64", "int32", "Float64", "Float32", "Int64"]
REQUIRED_BACKINGS = ["num_backing:" + b + "=True" for b in NUM_BACKINGS]


def draw_num_backing(rng, col):
    """How pandas holds a numerical column (feature or target): every float / int width, numpy or nullable.
    Integer backings need integer values (numpy ints also no missing cell); all payloads are exact in every one."""
    cells = col["cells"]
    ints = all(c is None or (not isinstance(c, str) and float(c) == int(c)) for c in cells)
    ok = ["float64", "float32", "float32", "float16", "Float64", "Float32"]
    if ints:
        ok += ["Int64", "Int64"]
        if all(c is not None for c in cells):
            ok += ["int64", "int32", "int64", "int32"]
    col["num_dtype"] = rng.pick(ok)
    return col


def build_df(desc, col_order=None, index=None):
    """dfgen.build_df + the numeric backings drawn by draw_num_backing"""
    import pandas as pd
    df = G.build_df(desc, index=index, col_order=col_order)
    for c in desc["cols"]:
        dt_ = c.get("num_dtype")
        if c["stype"] == "numerical" and dt_ and dt_ != "float64" and c["name"] in df.columns:
            if dt_[0].isupper():     # nullable extension dtype: missing is pd.NA
                vals = [pd.NA if v is None else float(v) for v in c["cells"]]
                df[c["name"]] = pd.Series(vals, index=df.index, dtype=dt_)
            else:
                df[c["name"]] = df[c["name"]].astype(dt_)
    return df


# ------------------------------------------------------------------ memory layouts of an equal DataFrame
RESTRIDES = ["reverse-iloc", "reverse-getitem", "column-view", "c-block"]


def restride(df, how):
    """The SAME DataFrame (same labels, rows, columns, dtypes) held in a different memory layout: negative-stride
    row views (df.iloc[::-1] / df[::-1] of the reversed frame), a non-contiguous column view of a wider frame
    (big.iloc[:, ::2]), numeric columns that are strided columns of one C-ordered 2-D block."""
    import numpy as np
    import pandas as pd
    if how == "reverse-iloc":
        return df.iloc[::-1].copy().iloc[::-1]
    if how == "reverse-getitem":
        return df[::-1].copy()[::-1]
    if how == "column-view":
        parts = []
        for c in df.columns:
            parts += [df[c], df[c].rename(str(c) + "__pad")]
        big = pd.concat(parts, axis=1).copy()
        return big.iloc[:, ::2]
    if how == "c-block":
        groups = {}
        for c in df.columns:
            if isinstance(df[c].dtype, np.dtype) and df[c].dtype.kind in "fi":
                groups.setdefault(str(df[c].dtype), []).append(c)
        pieces = {}
        for cols in groups.values():
            arr = np.ascontiguousarray(df[cols].to_numpy())
            blk = pd.DataFrame(arr, columns=cols, index=df.index, copy=False)
            for k, c in enumerate(cols):
                pieces[c] = blk.iloc[:, k:k + 1]
        j = {c: i for i, c in enumerate(df.columns)}
        out = pd.concat([pieces.get(c, df.iloc[:, j[c]:j[c] + 1]) for c in df.columns], axis=1)
        out.index.name = df.index.name
        return out
    return df


def aliasing_probe(ds, read_tf):
    """After materialization: (1) write into the TensorFrame's numerical tensor / y and require the source DataFrame
    unchanged; (2) write into the DataFrame's numerical columns (raw buffer where pandas exposes it, else the
    public setter) and require the TensorFrame unchanged.  Returns a list of problems (empty = no aliasing)."""
    import numpy as np
    import torch_frame
    probs = []
    df, tf = ds.df, ds.tensor_frame
    cols = [c for c in df.columns if isinstance(df[c].dtype, np.dtype) and df[c].dtype.kind == "f"
            and ds.col_to_stype.get(c) == torch_frame.numerical]
    if not cols or len(df) == 0:
        return None
    before_df = {c: df[c].to_numpy(copy=True) for c in cols}
    # (1) tensor -> DataFrame
    num = tf.feat_dict.get(torch_frame.numerical)
    if num is not None:
        num += 1000.0
    if tf.y is not None and tf.y.is_floating_point():
        tf.y += 1000.0
    for c in cols:
        if not np.array_equal(df[c].to_numpy(), before_df[c], equal_nan=True):
            probs.append(f"writing into the TensorFrame changed DataFrame column {c!r}")
    snap = read_tf(tf)
    # (2) DataFrame -> tensor
    for c in cols:
        j = list(df.columns).index(c)
        try:
            buf = df[c].values
            buf.setflags(write=True)
            buf[...] = buf + 4096.0
        except Exception:
            try:
                df.iloc[:, j] = df.iloc[:, j] + 4096.0
            except Exception:
                pass
    if read_tf(tf) != snap:
        probs.append("editing the DataFrame's numerical columns after materialize() changed the TensorFrame")
    return probs


# ------------------------------------------------------------------ deterministic REQUIRED cases
# Everything sanity() of c01.py / c02.py demands is produced by these builders from a fixed template, independent of
# the seed (the random streams only add to it).
def cycle_forms(i, with_path=False):
    j = i % 3
    return {"sep": SEP_FORMS[j], "fmt": SEP_FORMS[j], "cfg": ["dict", "single"][i % 2], "split_col": i % 2 == 0,
            "stype_order": "reverse" if i % 2 == 1 else None, "args": ["keyword", "positional"][(i // 2) % 2],
            "device": DEVICES[i % 3], "path": bool(with_path and i % 4 == 0), "return_stype": (i // 3) % 2 == 0}


def template_cols(i, tokenized=True, n_rows=4):
    """A fixed 4-row frame over all stypes.  Variant j = i % 3 decides whether one value can configure all columns of
    a stype (j = 1: one multicategorical / timestamp column) or a partial dict is possible (a None among the values)."""
    j = i % 3
    fl = ["float64", "float32", "float16", "Float64", "Float32"][i % 5]
    it = ["int64", "int32", "Int64"][i % 3]
    sd = ["object", "str"][i % 2]
    base = {"sep": None, "fmt": None, "width": None}
    cols = [
        dict(base, name="num", stype="numerical", dtype="float", cells=[1.0, None, 3.0, 4.5], num_dtype=fl),
        dict(base, name="cnt", stype="numerical", dtype="float", cells=[2.0, 2.0, 5.0, 7.0], num_dtype=it),
        dict(base, name="cat", stype="categorical", dtype=sd, cells=["a", "b", "b", "a"], nan_kind="none"),
        dict(base, name="mc", stype="multicategorical", dtype=sd, sep="|", cells=["a|b", " b ", None, ""], nan_kind="nan"),
        dict(base, name="seq", stype="sequence_numerical", dtype="object", cells=[[1.0, 2.0], None, [], [3.5, None]],
             nan_kind="none"),
        dict(base, name="ts", stype="timestamp", dtype=sd, fmt="%Y-%m-%d",
             cells=[[2020, 1, 2, 0, 0, 0], None, [1999, 12, 31, 0, 0, 0], "garbage"], nan_kind="none"),
        dict(base, name="z_emb", stype="embedding", dtype="object", width=1, cells=[[0.5], [1.5], [2.5], [3.5]]),
        dict(base, name="a_txt", stype="text_embedded", dtype="object", cells=["x", "y", None, "z w"], nan_kind="none",
             batch_size=2),
        dict(base, name="b_img", stype="image_embedded", dtype=sd, cells=["p", "q", "r", None], nan_kind="nan",
             batch_size=None),
    ]
    if j != 1:
        ints = i % 2 == 0
        cols.append(dict(base, name="ml", stype="multicategorical", dtype="object", nan_kind="none",
                         cells=[[1], [2, 1], None, []] if ints else [["a"], ["b", "a"], None, []], int_tokens=ints))
        cols.append(dict(base, name="td", stype="timestamp", dtype="datetime64", fmt="datetime64",
                         cfg_fmt=None if j == 2 else "%Y-%m-%d",
                         cells=[[2020, 1, 2, 3, 4, 5], [1700, 3, 1, 0, 0, 0], None, [2200, 12, 31, 23, 59, 59]]))
    if tokenized:
        cols.append(dict(base, name="tok", stype="text_tokenized", dtype="object", cells=["ab", None, "c", "de"],
                         nan_kind="none", batch_size=None))
    if n_rows != 4:
        cols = [dict(c, cells=c["cells"][:n_rows]) for c in cols]
    return cols


def template_target(kind, unlabeled, n_rows=4):
    if kind == "none":
        return None
    base = {"sep": None, "fmt": None, "width": None}
    if kind == "numerical":
        col = dict(base, name="y_num", stype="numerical", dtype="float", cells=[0.5, 1.5, 2.5, 3.5], num_dtype="float32")
    else:
        col = dict(base, name="y_cat", stype="categorical", dtype="object", cells=["u", "v", "v", "u"], nan_kind="none")
    idx = {"first": [0], "last": [n_rows - 1], "all": list(range(n_rows)), None: []}[unlabeled]
    col["cells"] = [None if i in idx else v for i, v in enumerate(col["cells"][:n_rows])]
    return col


def template_frame(i, target="none", unlabeled=None, tokenized=True, n_rows=4):
    cols = template_cols(i, tokenized, n_rows)
    t = template_target(target, unlabeled, n_rows)
    if t is not None:
        cols.append(t)
    order = [c["name"] for c in cols]
    order = order[i % len(order):] + order[:i % len(order)]
    forms = cycle_forms(i)
    if forms["stype_order"] == "reverse":
        forms["stype_order"] = order[::-1]
    return {"n": n_rows, "index": "range", "cols": cols, "target": None if t is None else t["name"],
            "col_order": order}, forms
