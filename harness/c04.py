"""C04 — train/inference consistency of the DataFrame-to-TensorFrame converter."""
from __future__ import annotations

import copy
import json
import os

os.environ.setdefault("TQDM_DISABLE", "1")

from harness import common as C  # noqa: E402
from harness import dfgen as G  # noqa: E402
from harness import matcoq as M  # noqa: E402

PROP = "C04"
# Clause-by-clause coverage of the property text: clause -> oracle key(s) that judge it <- generator kind(s) that exercise it.
# Every raise / assert / try-except / early return / special case / dtype cast of the anchored code (dataset.py converter
# + materialize, mapper.py categorical / multicategorical) : generator kind that reaches it -> oracle key that notices
# if it is removed, loosened or replaced by a default.
ERROR_PATHS = [
    "__call__: df[col] KeyError for a missing feature column : drop_feature calls -> no demand (outside the statement); the calls after it are judged",
    "__call__: `target_col in df` special case (y only then) : drop_target, unlabeled, target_missing -> y-without-target, y-rows",
    "__call__: per-storage branches (stack / MultiNestedTensor.cat / dict / MultiEmbeddingTensor.cat) : all nine stypes -> row-local:<stype>",
    "_merge_feat: parent present vs absent, pop of child keys : frames with embedding + text/image children, repeated calls -> names-at-return, names-later, row-local:embedding|text_embedded|image_embedded",
    "_get_mapper: NotImplementedError branch unreachable for the nine stypes; per-stype mapper choice : all stypes -> row-local:<stype>",
    "materialize: early return when already materialized : not exercised by C04 (by design a no-op; C09/C11)",
    "materialize(col_stats): asserts on missing columns / statistics : supplied cases (complete statistics) -> supplied-raises:*; any rewrite of the supplied lists : wide-int / float categories -> supplied-frame, supplied-stats, supplied-stats-source-changed",
    "materialize: binary-target re-sort (len(index) == 2) : binary targets -> y-rows, unseen:target (and C03)",
    "CategoricalTensorMapper.forward: (Coq: typed_cat_ok -- typed keys with Python equality; theorems typed_*) astype(object) of keys and category index (no pandas merge refusal) : int / float / wide-int categories x all-missing selections, strings among numeric categories, numbers among string categories, float64-held columns with non-integral values and +/-inf -> convert-raises:*, row-local:categorical, unseen:categorical",
    "CategoricalTensorMapper.forward: NaN -> -1 and .to(long) : missing cells, unseen values -> unseen:categorical, row-local:categorical",
    "MultiCategoricalTensorMapper.__init__: object index with the -1 marker : columns without any category + unseen tokens -> convert-raises:*:unseen",
    "MultiCategoricalTensorMapper.forward: dtype gate ValueError (non-object / non-string column) : outside the quantifier (C01 malformed stream)",
    "split_by_sep: missing -> {-1}; blank -> set(); asserts on sep vs cell kind; strip of tokens : missing / blank / padded cells, sibling-vocabulary cell strings -> row-local:multicategorical, unseen:multicategorical",
    "MultiCategoricalTensorMapper.forward: reset_index, explode, merge, dropna, astype(int64), value_counts().reindex(fill 0), cumsum : repeated rows (duplicate labels), empty cells, unseen-only cells -> row-local:multicategorical, unseen:multicategorical, convert-raises:*",
    "NumericalTensorMapper: astype(default float dtype) : numerical columns (dyadic payloads) -> row-local:numerical",
    "NumericalSequenceTensorMapper: get_sequence_length ValueError (non-list cell) outside the quantifier; offsets/explode/astype(float32) : ragged sequences, missing / empty cells -> row-local:sequence_numerical",
    "TimestampTensorMapper: to_datetime(errors='coerce'), nan_to_num(-1).to(long) : garbage / missing cells, seven formats -> row-local:timestamp",
    "EmbeddingTensorMapper / TextTokenizationTensorMapper: str(x) rendering, batching, values[0] IndexError on an empty frame (excluded: idx <> []) : stub columns with batch sizes None/1/2/3 -> row-local:text_embedded|image_embedded|text_tokenized",
]

CLAUSES = [
    "converting the dataset's own frame reproduces its TensorFrame -> row-local:*, names-at-return, num-rows, y-rows, "
    "after-other-datasets:* <- call kind 'all', the implicit recheck after other datasets, Coq session_ok / own_frame_ok",
    "any selection / repetition / reordering of rows gives exactly the corresponding rows -> row-local:<stype>, "
    "differs-from-tensor-frame-index, y-differs-from-tensor-frame-index, tensor-frame-index-raises, convert-raises:* "
    "<- call kinds single/repeat/reorder/multiset/slice/missing/unlabeled x frame construction how=iloc/take/concat/"
    "reset_index/mask x permuted and extra columns x selection alias tensor_frame[idx] / ds[idx] / index_select",
    "however often the converter is called -> names-at-return, names-later, dataset-frame-changed, row-local:* on calls "
    "2..4 <- 1-4 calls per dataset (materialization is call 0), entry points converter(df) / converter.__call__(df), "
    "device None / 'cpu' / torch.device positional and keyword",
    "uses the fitted statistics only -> row-local:categorical, unseen:*, after-other-datasets:*, other:* <- unseen-value "
    "injections, other datasets over the same column names (before / mid session)",
    "unseen category -> missing (categorical), incl. the target -> unseen:categorical, unseen:target, "
    "convert-raises:*:unseen, convert-raises:*:unseen-target <- injection kind 'unseen' in features and in the target",
    "unseen multicategorical token left out, no aliasing -> unseen:multicategorical <- injection kinds only_unseen / "
    "mixed / two_unseen",
    "a frame without the target column yields no y (and with it: the rows of y, also when all are unlabeled) -> "
    "y-without-target, y-rows, dataset-y <- drop_target calls, call kind 'unlabeled', target_missing frames",
    "supplying previously computed statistics = recomputing them -> supplied-raises:*, supplied-frame, supplied-stats, "
    "supplied-stats-source-changed <- supplied cases, col_stats passed by keyword / positionally, with device forms; "
    "Coq materialize_ok; BOUNDARIES supplied-target:* pin both sides of the `len(index) == 2` guard",
    "(malformed, outside the quantifier) a frame lacking a feature column: NO demand (raise or result both accepted, "
    "Coq not compared when it returns normally) <- drop_feature; afterwards the converter must still work -> the "
    "keys above on the following calls",
    # Backing of every must-not-raise key (there is no must-raise key in this module):
    "convert-raises:* / convert-raises:*:unseen / :unseen-target <- 'encoded as missing ... or left out ... rather than "
    "raising' and 'gives exactly the corresponding rows' (a raise gives no rows)",
    "materialize-raises:* / other-materialize-raises:* / supplied-raises:* <- 'After materialization ...' / 'Supplying "
    "previously computed statistics to materialize gives the same result as recomputing them' (a raise gives no result)",
    "tensor-frame-index-raises <- observe_at 'dataset.tensor_frame[idx]' for in-range positions of the source frame",
]
HEADER = ("Require Import Coq.QArith.QArith.\nFrom PF Require Import Gen.Tables Lib.ListX Model.Ragged Model.Mapper Model.MapperSpec Model.Converter "
          "Model.ConverterState.\nOpen Scope Z_scope.")
MODEL_TARGETS = ["Model/ConverterState.vo"]
SHARD = 17
RULE = ("(targets may carry missing cells and selections may consist of unlabeled rows only; 35 % of the cases keep 1-2 OTHER datasets over the same column names but different data alive, materialized before or between the first dataset's calls, and use their converters too) materialized datasets over all nine stypes (stub embedders / tokenizer) x 1-4 converter calls on row "
        "multisets of the source frame (whole frame, singletons, repeats, reorders, arbitrary multisets; rows carrying "
        "unseen categories / unseen multicategorical tokens injected into a copy; frames without the target column) x "
        "a fresh dataset materialized with the first one's col_stats; distinct = distinct (stype multiset incl. "
        "whether embedding children are merged, target kind, per call: row-multiset shape (n, #distinct rows, "
        "ordered or not), injection kinds, target dropped); non-trivial = at least one call converted >= 1 row")
TRUSTED = [
    "Coq 8.16.1 kernel + vm_compute",
    "hand-written model coq/Model/ConverterState.v of DataFrameToTensorFrameConverter (__init__, _merge_feat, "
    "__call__) and Dataset.materialize(col_stats=...), tied to /repo by this run's correspondence",
    "modelled primitives: every TensorMapper.forward is a row-wise function of the fitted statistics (the categorical "
    "and multicategorical ones concretely: position in the fitted category list, -1 / dropped when absent; all others "
    "opaque: a cell is identified by the source row it came from) -- the mapper pipelines themselves are C01's subject",
    "harness/c04.py: generator, row-by-row oracle against the dataset's own TensorFrame, Coq literal printer",
]
ASSUMPTIONS = [
    "no input is REQUIRED to raise: a frame lacking a feature column (malformed stream) may raise or return, the "
    "oracle judges only the calls after it; the Coq model (which mirrors the current raise) is not compared when the "
    "implementation returns normally there",
    "empty row selections are not drawn (the property names single rows, repeats and reorders)",
    "stub embedders / tokenizer are deterministic row-wise functions of the cell text",
    "timestamp strings with time_format=None are ISO ('%Y-%m-%d %H:%M:%S'): pandas infers the format per call from the "
    "column it is given, so ambiguous (e.g. day-first) strings without an explicit format are outside the generator; "
    "explicit formats, including day-first ones, and object / str dtypes are drawn; pd.to_datetime itself is a black "
    "box of the model (the parsed column is an input)",
    "category columns mixing int and str labels, and bool labels next to ints (True == 1 in Python), are outside the "
    "quantifier (DESIGN section 8: not in C01's frames) and never drawn; float categories and integers wider than int64 "
    "next to negatives ARE drawn, also as list tokens, and with supplied statistics",
    "text_embedded / image_embedded / text_tokenized columns are opaque in the Coq model (cell = id of its source row, "
    "identified through the dataset's own TensorFrame); the six other stypes run the pipeline models of Model/Mapper.v",
]

ENUM = ["numerical", "categorical", "text_embedded", "text_tokenized", "multicategorical", "sequence_numerical",
        "timestamp", "image_embedded", "embedding"]
PARENT = {"text_embedded": "embedding", "image_embedded": "embedding"}


# ------------------------------------------------------------------ generation
def gen_rows(rng, n, desc=None):
    kind = rng.wpick([(2, "all"), (3, "single"), (3, "repeat"), (3, "reorder"), (4, "multiset"), (1, "slice"),
                      (2, "missing"), (5, "unlabeled")])
    if kind == "unlabeled":
        # only rows whose target cell is missing: the frame HAS the target column, y must be the dataset's y there
        tcol = next((c for c in (desc or {}).get("cols", []) if c["name"] == (desc or {}).get("target")), None)
        pos = [i for i, x in enumerate(tcol["cells"]) if x is None] if tcol else []
        if not pos:
            kind = "single"
        else:
            m = rng.pick(["one", "one", "repeat", "several"])
            if m == "one":
                return kind, [rng.pick(pos)]
            if m == "repeat":
                return kind, [rng.pick(pos)] * rng.randint(2, 3)
            return kind, [rng.pick(pos) for _ in range(rng.randint(2, 4))]
    if kind == "missing":
        # only rows in which some category column is missing (the selected column is then entirely missing)
        cands = [c for c in (desc or {}).get("cols", []) if c["stype"] in ("categorical", "multicategorical")
                 and any(x is None for x in c["cells"])]
        if not cands:
            kind = "single"
        else:
            c = rng.pick(cands)
            pos = [i for i, x in enumerate(c["cells"]) if x is None]
            return kind, [rng.pick(pos) for _ in range(rng.randint(1, 3))]
    if kind == "all":
        return kind, list(range(n))
    if kind == "single":
        return kind, [rng.randrange(n)]
    if kind == "repeat":
        r = rng.randrange(n)
        return kind, [r] * rng.randint(2, 4)
    if kind == "reorder":
        l = list(range(n))
        rng.shuffle(l)
        return kind, l
    if kind == "slice":
        a = rng.randrange(n)
        return kind, list(range(a, rng.randint(a + 1, n)))
    return kind, [rng.randrange(n) for _ in range(rng.randint(1, n + 3))]


def gen_injections(rng, desc, rows):
    """Unseen values placed into the selected copy: list of {"col", "pos" (position in the selection), "kind"}."""
    out = []
    cands = [c for c in desc["cols"] if c["stype"] in ("categorical", "multicategorical") and c["name"] != desc["target"]]
    tcol = next((c for c in desc["cols"] if c["name"] == desc["target"]), None)
    with_target = tcol is not None and tcol["stype"] == "categorical" and rng.chance(0.4)
    if with_target:
        # labels never seen at materialization in the TARGET column of the converted frame: y must be -1 there
        # (alone or, below, together with unseen values in feature columns)
        for pos in sorted(set(rng.randrange(len(rows)) for _ in range(rng.randint(1, 2)))):
            out.append({"col": tcol["name"], "pos": pos, "kind": "unseen"})
    fcols = [c for c in cands if c.get("cast") == "float64"]
    if fcols and len(rows) >= 2 and rng.chance(0.5):
        # a string in a float-category column next to cells that are categories (pandas holds the column as object)
        c = rng.pick(fcols)
        seen_pos = [p for p, r in enumerate(rows) if c["cells"][r] is not None]
        if len(seen_pos) >= 1:
            pos = rng.pick([p for p in range(len(rows)) if p != seen_pos[0]])
            out.append({"col": c["name"], "pos": pos, "kind": "othertype", "value": "zz"})
    if not cands or not rng.chance(0.3 if with_target else 0.55):
        return out
    for _ in range(rng.randint(1, 3)):
        c = rng.pick(cands)
        pos = rng.randrange(len(rows))
        near = neighbour_value(rng, desc, c, rows[pos]) if rng.chance(0.6) else None
        if near is not None:
            out.append({"col": c["name"], "pos": pos, "kind": near[0], "value": near[1]})
        elif c["stype"] == "categorical":
            out.append({"col": c["name"], "pos": pos, "kind": "unseen"})
        else:
            out.append({"col": c["name"], "pos": pos, "kind": rng.pick(["only_unseen", "mixed", "mixed", "two_unseen"])})
    return out


def neighbour_value(rng, desc, c, src_row):
    """An unseen value ADJACENT to the seen ones: for a string category its case / whitespace variants; for an integer
    category a non-integral float whose truncation or rounding is a category (or +/-inf); for a multicategorical
    string column the cell string of a SIBLING column with the same separator (tokens fitted there, unseen here)."""
    seen = [v for v in c["cells"] if v is not None]
    if c["stype"] == "categorical":
        if not seen:
            return None
        v = rng.pick(seen)
        if rng.chance(0.55 if isinstance(v, (int, float)) else 0.3) and (isinstance(v, (int, float)) or c["dtype"] == "object"):
            # a value of ANOTHER TYPE than the categories: pandas then holds the converted column as object / mixed
            return ("othertype", "zz" if isinstance(v, (int, float)) else rng.pick([7, 2.5, -1]))
        if isinstance(v, float):
            return ("nonintegral", rng.pick([v + 0.25, v - 0.125, "inf"]))
        if isinstance(v, int) and any(isinstance(x, int) and abs(x) >= 2 ** 53 for x in seen):
            return None          # a float neighbour of such integers is not representable
        if isinstance(v, int):
            return ("nonintegral", rng.pick([v + 0.5, v + 0.9, v - 0.5, v + 0.1, "inf", "-inf"]))
        for w in rng.sample([v.upper(), v.lower(), v.swapcase(), v + " ", " " + v, v + "\t", v[:-1], v + v[-1:]], 8):
            if w != "" and w not in seen:
                return ("adjacent", w)
        return None
    if c["sep"] is None:
        return None
    sibs = [o for o in desc["cols"] if o["stype"] == "multicategorical" and o["name"] != c["name"]
            and o["sep"] == c["sep"] and o["name"] != desc["target"]]
    rng.shuffle(sibs)
    mine = set()
    for cell in seen:
        mine |= G.tokens_of(cell, c["sep"])
    for o in sibs:
        for r in [src_row] + rng.sample(range(desc["n"]), desc["n"]):
            cell = o["cells"][r]
            if isinstance(cell, str) and (G.tokens_of(cell, o["sep"]) - mine):
                return ("sibling", cell)            # the identical cell string occurs in the sibling column
    return None


def gen_case(rng, tier):
    # bias towards frames where the embedding merge happens and category columns exist
    st = None
    if rng.chance(0.5):
        st = rng.pick([["embedding", "text_embedded", "image_embedded", "categorical", "multicategorical"],
                       ["text_embedded", "image_embedded", "numerical", "categorical"],
                       ["categorical", "multicategorical", "timestamp", "sequence_numerical", "text_tokenized"],
                       ["text_embedded", "categorical", "multicategorical"]])
    desc = gen_vocab_frame(rng) if rng.chance(0.28) else G.gen_frame(rng, stypes=st, target_missing=0.7)
    case = {"frame": desc, "calls": gen_calls(rng, desc, rng.randint(1, 4)),
            "supplied": rng.chance(0.8 if desc.get("vocab") else 0.5)}
    case["materialize_args"] = {"device": rng.pick(["default", "default", "pos_none", "kw_str", "kw_device"]),
                                "col_stats": rng.pick(["keyword", "positional"])}
    if rng.chance(0.35):
        # other datasets alive in the same process over the SAME column names and stypes but different data, hence
        # different fitted statistics / separators / formats; materialized before or between the first dataset's calls
        case["others"] = []
        for _ in range(rng.wpick([(3, 1), (1, 2)])):
            od = sibling_frame(rng, desc)
            case["others"].append({"frame": od, "calls": gen_calls(rng, od, rng.randint(1, 2), malformed=False),
                                   "when": rng.pick(["before", "before", "mid"])})
    return case


def gen_vocab_frame(rng):
    """Sibling columns with overlapping vocabularies: two multicategorical string columns with one separator whose
    cell strings coincide although their category sets differ, a string category column with case / whitespace
    neighbours, an integer category column."""
    n = rng.randint(3, 7)
    sep = rng.pick(["|", ","])
    j = lambda toks: sep.join(toks)        # noqa: E731
    pool1 = [j(["a"]), j(["a", "b"]), j(["b"]), "", j(["b", "a"])]
    pool2 = [j(["b", "c"]), j(["c"]), j(["b"]), j(["c", "d"]), j(["b", "c", "d"]), j(["a", "b"])]

    def col(name, st, cells, **kw):
        d = {"name": name, "stype": st, "dtype": "object", "sep": None, "fmt": None, "width": None, "cells": cells,
             "nan_kind": "none"}
        d.update(kw)
        return d
    mp = rng.pick([0.0, 0.2])
    cols = [col("m1", "multicategorical", [None if rng.chance(mp) else rng.pick(pool1) for _ in range(n)], sep=sep,
                dtype=rng.pick(["object", "str"])),
            col("m2", "multicategorical", [None if rng.chance(mp) else rng.pick(pool2) for _ in range(n)], sep=sep,
                dtype=rng.pick(["object", "str"])),
            col("c1", "categorical", [None if rng.chance(mp) else rng.pick(["a", "b", "B", "a b", "ab"]) for _ in range(n)],
                dtype=rng.pick(["object", "str"])),
            col("k", "categorical", [None if rng.chance(mp) else rng.pick([1, 2, 3, 10]) for _ in range(n)]),
            col("x", "numerical", [float(i) for i in range(n)], dtype="float"),
            # categories that are floats (the column is held as float64), and integers wider than int64 next to
            # negatives, also as tokens of list-valued multicategorical cells
            col("f", "categorical", [None if rng.chance(mp) else rng.pick([0.5, 1.5, 2.0, -3.25]) for _ in range(n)],
                cast="float64", nan_kind="nan"),
            col("w", "categorical", [None if rng.chance(mp) else rng.pick([2 ** 63 + 1, -5, 7, 2 ** 64]) for _ in range(n)]),
            col("mw", "multicategorical", [None if rng.chance(mp) else
                                           [rng.pick([2 ** 63 + 1, -5, 7, -(2 ** 70)]) for _ in range(rng.randint(0, 3))]
                                           for _ in range(n)])]
    if rng.chance(0.5):
        cols.append(col("m3", "multicategorical", [rng.pick(pool2 + pool1) for _ in range(n)], sep=sep))
    keep = [c for c in cols if c["name"] in ("m1", "m2") or rng.chance(0.7)]
    order = [c["name"] for c in keep]
    rng.shuffle(order)
    return {"n": n, "index": rng.pick(["range", "offset", "dup"]), "cols": keep, "target": None, "col_order": order,
            "vocab": True}


def gen_calls(rng, desc, k, malformed=True):
    calls = []
    for _ in range(k):
        kind, rows = gen_rows(rng, desc["n"], desc)
        call = {"kind": kind, "rows": rows, "inject": gen_injections(rng, desc, rows)}
        # how the frame handed to the converter is produced and how the converter is invoked
        call["how"] = rng.pick(["iloc", "iloc", "take", "concat", "reset_index", "mask"])
        call["columns"] = rng.pick(["same", "same", "permuted", "extra", "permuted+extra"])
        call["device"] = rng.pick(["default", "default", "kw_none", "pos_str", "kw_device"])
        call["entry"] = rng.pick(["call", "call", "dunder"])
        call["sel_alias"] = rng.pick(["tensor_frame[idx]", "tensor_frame[idx]", "ds[idx]", "index_select"])
        call["drop_target"] = bool(desc["target"] and kind != "unlabeled" and rng.chance(0.3)
                                   and not any(i["col"] == desc["target"] for i in call["inject"]))
        if malformed and rng.chance(0.04):
            # malformed stream: the frame lacks a feature column -- the call must raise and leave the converter usable
            feats = [c["name"] for c in desc["cols"] if c["name"] != desc["target"]]
            call["drop_feature"] = rng.pick(feats)
            call["inject"] = [i for i in call["inject"] if i["col"] != call["drop_feature"]]
        calls.append(call)
    return calls


def sibling_frame(rng, desc):
    """A frame with the same column names, stypes and target as `desc`, but freshly drawn cells (other categories and
    frequencies, other separators / time formats / embedding widths) and its own number of rows."""
    n = rng.randint(1, 6)
    miss_p = rng.pick([0.0, 0.1, 0.3])
    cols = []
    for c in desc["cols"]:
        is_t = c["name"] == desc["target"]
        nc = G.gen_col(rng, c["name"], c["stype"], n, 0.0 if is_t else miss_p, for_target=is_t)
        if is_t and n >= 3:
            for i in range(2, n):
                if rng.chance(0.3):
                    nc["cells"][i] = None
        cols.append(nc)
    return {"n": n, "index": rng.pick(["range", "offset", "dup"]), "cols": cols, "target": desc["target"],
            "col_order": list(desc["col_order"])}


# Deterministic boundary cases, run on every quick run whatever the seed.
BOUNDARIES = [
    "supplied statistics x categorical TARGET on both sides of materialize's `len(index) == 2` guard: multi-class "
    "targets with 3, 4 and 5 classes whose frequency order differs from the lexicographic / numeric order (string "
    "labels, integer labels, with and without ties in the counts) -- the code lists them in FREQUENCY order and "
    "materialize(col_stats=...) must keep that order (keys supplied-frame, supplied-stats, y-rows) -- and the "
    "two-class twin, where the first materialize re-sorts the classes lexicographically; each with col_stats passed by "
    "keyword and positionally; followed by a whole-frame, a single-row and a repeated-row conversion",
]


def boundary_cases():
    out = []

    def col(name, st, cells, **kw):
        d = {"name": name, "stype": st, "dtype": "object", "sep": None, "fmt": None, "width": None, "cells": cells,
             "nan_kind": "none"}
        d.update(kw)
        return d
    targets = {
        "str3": ["c", "c", "c", "a", "a", "b"],                                   # counts c > a > b
        "str3_tie": ["c", "c", "b", "b", "a"],                                     # c = b > a
        "str4": ["d", "d", "d", "d", "b", "b", "b", "a", "a", "c"],                # d > b > a > c
        "str5_tie": ["e", "e", "e", "c", "c", "a", "a", "d", "b"],                 # e > c = a > d = b
        "int3": [10, 10, 10, 2, 2, 7],                                             # 10 > 2 > 7
        "int4_tie": [5, 5, 1, 1, 9, 9, 3],                                         # 5 = 1 = 9 > 3
        "int5": [40, 40, 40, 40, 40, 8, 8, 8, 8, 30, 30, 30, 1, 1, 22],            # 40 > 8 > 30 > 1 > 22
        "bin_str": ["b", "b", "b", "a"],                                           # two classes: re-sorted to a, b
        "bin_int": [9, 9, 3, 9, 3],
    }
    for name, labels in targets.items():
        for form in ("keyword", "positional"):
            n = len(labels)
            desc = {"n": n, "index": "range" if form == "keyword" else "offset",
                    "cols": [col("x", "numerical", [float(i) for i in range(n)], dtype="float"),
                             col("k", "categorical", [labels[(i * 3) % n] for i in range(n)]),
                             col("lab", "categorical", list(labels))],
                    "target": "lab", "col_order": ["x", "lab", "k"]}
            base = {"inject": [], "drop_target": False, "how": "iloc", "columns": "same", "device": "default",
                    "entry": "call", "sel_alias": "tensor_frame[idx]"}
            calls = [dict(base, kind="all", rows=list(range(n))), dict(base, kind="single", rows=[n - 1]),
                     dict(base, kind="repeat", rows=[0, 0, n - 1])]
            out.append({"frame": desc, "calls": calls, "supplied": True, "boundary": "supplied-target:" + name,
                        "materialize_args": {"device": "default", "col_stats": form}})
    return out


# a FIXED-seed stream of generated cases that by itself (with the boundary cases) satisfies every requirement of
# sanity(), so that no requirement depends on the run's random draws
FIXED_STREAM_SEED = 20260930
FIXED_STREAM_SIZE = 120


def generate(rng, tier):
    n = 90 if tier == "quick" else 6000
    fixed_rng = C.Rng(FIXED_STREAM_SEED)
    return boundary_cases() + [gen_case(fixed_rng, tier) for _ in range(FIXED_STREAM_SIZE)] + \
        [gen_case(rng, tier) for _ in range(n)]


# ------------------------------------------------------------------ implementation
def unseen_value(col, kind, raw):
    """The raw cell that replaces `raw` (a cell of the source frame) for an injection."""
    if col["stype"] == "categorical":
        ints = any(isinstance(x, int) for x in col["cells"] if x is not None)
        return 777 if ints else "UNSEEN~"
    toks = G.tokens_of(raw, col["sep"]) or set()
    seen = sorted(toks)[:2]
    new = {"only_unseen": ["N1"], "mixed": seen + ["N1"], "two_unseen": ["N2"] + seen + ["N1", "N1"]}[kind]
    if col["sep"] is None:
        return new
    return (" " + col["sep"]).join(new)


def selected_cells(case, call, col):
    """Raw cells (JSON) of the column in the frame handed to the converter."""
    cells = [col["cells"][r] for r in call["rows"]]
    for inj in call["inject"]:
        if inj["col"] == col["name"]:
            cells[inj["pos"]] = inj["value"] if "value" in inj else \
                unseen_value(col, inj["kind"], col["cells"][call["rows"][inj["pos"]]])
    return cells


def build_call_df(case, call, df):
    import pandas as pd  # noqa: F401
    import numpy as np
    desc = case["frame"]
    rows = list(call["rows"])
    how = call.get("how", "iloc")
    if how == "take":
        df2 = df.take(rows).copy()
    elif how == "concat":
        df2 = pd.concat([df.iloc[[r]] for r in rows])
    elif how == "reset_index":
        df2 = df.iloc[rows].reset_index(drop=True)
    elif how == "mask" and rows == sorted(set(rows)):
        m = np.zeros(len(df), dtype=bool)
        m[rows] = True
        df2 = df[m].copy()
    else:
        df2 = df.iloc[rows].copy()
    by = {c["name"]: c for c in desc["cols"]}
    for name in {i["col"] for i in call["inject"]}:
        col = by[name]
        cells = selected_cells(case, call, col)
        if any(i["col"] == name and i["kind"] == "nonintegral" for i in call["inject"]) and \
                all(v is None or isinstance(v, (int, float)) or v in ("inf", "-inf") for v in cells):
            ser = pd.Series([np.nan if v is None else float(v) for v in cells], dtype=float)
        else:
            ser = G.build_series(dict(col, cells=[float(v) if v in ("inf", "-inf") and col["stype"] == "categorical"
                                                  and not any(isinstance(x, str) for x in col["cells"]) else v
                                                  for v in cells]))
        ser.index = df2.index
        df2[name] = ser
    if call["drop_target"]:
        df2 = df2.drop(columns=[desc["target"]])
    if call.get("drop_feature"):
        df2 = df2.drop(columns=[call["drop_feature"]])
    cm = call.get("columns", "same")
    if "extra" in cm:
        df2["__unrelated__"] = list(range(len(df2)))           # a column the dataset does not know
    if "permuted" in cm:
        df2 = df2[list(reversed(list(df2.columns)))]
    return df2


def invoke(ds, df2, call):
    import torch
    conv = ds.convert_to_tensor_frame
    f = conv.__call__ if call.get("entry") == "dunder" else conv
    dev = call.get("device", "default")
    if dev == "kw_none":
        return f(df2, device=None)
    if dev == "pos_str":
        return f(df2, "cpu")
    if dev == "kw_device":
        return f(df2, device=torch.device("cpu"))
    return f(df2)


def select_tf(ds, call):
    rows = list(call["rows"])
    a = call.get("sel_alias", "tensor_frame[idx]")
    if a == "ds[idx]":
        return ds[rows].tensor_frame
    if a == "index_select":
        return ds.index_select(rows).tensor_frame
    return ds.tensor_frame[rows]


def plain(call):
    """a call on an unmodified selection of the source frame's rows"""
    return not call["inject"] and not call.get("drop_feature")


def parse_all(desc, df):
    """the timestamp black box (pd.to_datetime, the call the mapper makes) for every timestamp column of df"""
    return {c["name"]: M.parse_timestamps(df, c) for c in desc["cols"] if c["stype"] == "timestamp" and c["name"] in df}


def run_calls(case, ds, calls, after_first=None):
    """Run the converter calls of one dataset; `after_first` is invoked after the first call."""
    desc = case["frame"]
    recs, frames = [], []
    for k, call in enumerate(calls):
        try:
            df2 = build_call_df(case, call, ds.df)
        except Exception as ex:
            recs.append({"ok": False, "stage": "harness", "exc": C.exc_name(ex), "msg": str(ex)[:300], "tb": C.fmt_exc()})
            frames.append(None)
            continue
        try:
            parsed = parse_all(desc, df2)
        except Exception:
            parsed = None
        try:
            tf = invoke(ds, df2, call)
            frames.append(tf)
            rec = {"ok": True, "tf": G.read_tf(tf), "parsed": parsed}
            if plain(call):
                # the property's observation point: dataset.tensor_frame[idx]
                try:
                    rec["sel"] = G.read_tf(select_tf(ds, call))
                except Exception as ex:
                    rec["sel"] = {"exc": C.exc_name(ex), "msg": str(ex)[:200]}
            recs.append(rec)
        except Exception as ex:
            frames.append(None)
            recs.append({"ok": False, "stage": "convert", "exc": C.exc_name(ex), "msg": str(ex)[:300],
                         "tb": C.fmt_exc(), "parsed": parsed})
        if k == 0 and after_first is not None:
            after_first()
    return recs, frames


def make_ds(desc):
    """Dataset over the described frame; columns flagged `cast` get that numpy dtype (float-category columns)."""
    df = G.build_df(desc)
    for c in desc["cols"]:
        if c.get("cast") and c["name"] in df.columns:
            df[c["name"]] = df[c["name"]].astype(c["cast"])
    return G.build_dataset(desc, df=df)[0]


def materialize_other(o):
    try:
        ds = make_ds(o["frame"])
        ds.materialize()
    except Exception as ex:
        return None, {"ok": False, "stage": "materialize", "exc": C.exc_name(ex), "msg": str(ex)[:300], "tb": C.fmt_exc()}
    return ds, {"ok": True, "base": G.read_tf(ds.tensor_frame), "stats": G.read_stats(ds.col_stats),
                "parsed": parse_all(o["frame"], ds.df), "calls": []}


def run(case):
    desc = case["frame"]
    import torch
    ma = case.get("materialize_args") or {}
    dev = ma.get("device", "default")
    try:
        ds = make_ds(desc)
        if dev == "pos_none":
            ds.materialize(None)
        elif dev == "kw_str":
            ds.materialize(device="cpu")
        elif dev == "kw_device":
            ds.materialize(device=torch.device("cpu"))
        else:
            ds.materialize()
    except Exception as ex:
        return {"ok": False, "stage": "materialize", "exc": C.exc_name(ex), "msg": str(ex)[:300], "tb": C.fmt_exc()}
    out = {"ok": True, "base": G.read_tf(ds.tensor_frame), "stats": G.read_stats(ds.col_stats), "calls": [],
           "parsed": parse_all(desc, ds.df)}
    others = case.get("others") or []
    odss, oobs = [None] * len(others), [None] * len(others)
    for j, o in enumerate(others):
        if o["when"] == "before":
            odss[j], oobs[j] = materialize_other(o)

    def mid():
        for j, o in enumerate(others):
            if o["when"] == "mid":
                odss[j], oobs[j] = materialize_other(o)
    out["calls"], frames = run_calls(case, ds, case["calls"], after_first=mid)
    mid_done = all(x is not None for x in oobs)
    if not mid_done:
        mid()
    # names of every frame returned earlier, read again after all calls (they share the converter's table)
    for rec, tf in zip(out["calls"], frames):
        if tf is not None:
            rec["names_after"] = {k.value: list(v) for k, v in tf.col_names_dict.items()}
    # the other datasets' converters, then the first dataset's own frame once more
    for j, o in enumerate(others):
        if odss[j] is not None:
            oobs[j]["calls"], ofr = run_calls(o, odss[j], o["calls"])
            for rec, tf in zip(oobs[j]["calls"], ofr):
                if tf is not None:
                    rec["names_after"] = {k.value: list(v) for k, v in tf.col_names_dict.items()}
    if others:
        out["others"] = oobs
        try:
            tf = ds.convert_to_tensor_frame(ds.df)
            out["recheck"] = {"ok": True, "tf": G.read_tf(tf), "parsed": parse_all(desc, ds.df),
                              "names_after": {k.value: list(v) for k, v in tf.col_names_dict.items()}}
        except Exception as ex:
            out["recheck"] = {"ok": False, "stage": "convert", "exc": C.exc_name(ex), "msg": str(ex)[:300], "tb": C.fmt_exc()}
    try:
        out["base_after"] = G.read_tf(ds.tensor_frame)
    except Exception as ex:
        out["base_after"] = {"exc": C.exc_name(ex), "msg": str(ex)[:300]}
    if case["supplied"]:
        try:
            ds2 = make_ds(desc)
            st2 = copy.deepcopy(ds.col_stats)                             # a copy: ds2 updates the dict it is given
            if ma.get("col_stats") == "positional":
                ds2.materialize(torch.device("cpu") if dev == "kw_device" else None, None, st2)
            else:
                ds2.materialize(col_stats=st2)
            out["supplied"] = {"ok": True, "tf": G.read_tf(ds2.tensor_frame), "stats": G.read_stats(ds2.col_stats),
                               "stats_first_after": G.read_stats(ds.col_stats)}
        except Exception as ex:
            out["supplied"] = {"ok": False, "exc": C.exc_name(ex), "msg": str(ex)[:300], "tb": C.fmt_exc()}
    return out


# ------------------------------------------------------------------ oracle
def locate(tfj, col):
    parent = PARENT.get(col["stype"], col["stype"])
    names = tfj["names"].get(parent)
    if names is None or col["name"] not in names:
        return None
    return parent, names.index(col["name"])


def feat_cell(tfj, st, i, j):
    """cell (row i, column j) of feature st; dict-valued features give {key: cell}."""
    f = tfj["feats"][st]
    if isinstance(f, dict):
        return {k: v[i][j] for k, v in f.items()}
    return f[i][j]


def canon_cell(cell, stype_name):
    if stype_name == "multicategorical":
        return sorted(cell)
    return cell


def check_call(case, obs, k):
    desc, call, rec = case["frame"], case["calls"][k], obs["calls"][k]
    base = obs["base"]
    tag = f"call {k + 1} ({call['kind']}, rows {call['rows']}" + (", unseen values" if call["inject"] else "") + \
        (", without target" if call["drop_target"] else "") + ")"
    if call.get("drop_feature"):
        # malformed stream (a frame lacking a feature column is outside "any DataFrame with the same columns"): the
        # statement demands neither a raise nor a result here -- either outcome is accepted, nothing is compared
        return None
    if not rec["ok"]:
        if rec.get("stage") == "harness":
            return dict(key="harness-call", what=f"{tag}: harness could not build the frame: {rec['exc']} {rec['msg']}",
                        tb=rec.get("tb"))
        kinds = sorted({i["kind"] for i in call["inject"]})
        if any(i["col"] == desc["target"] for i in call["inject"]):
            return dict(key=f"convert-raises:{rec['exc']}:unseen-target",
                        what=f"{tag}: the converter raised {rec['exc']} on a frame whose target column carries a label never "
                             f"seen at materialization (must be encoded as -1): {rec['msg']}", tb=rec.get("tb"))
        return dict(key=f"convert-raises:{rec['exc']}" + (":unseen" if kinds else ""),
                    what=f"{tag}: the converter raised {rec['exc']}: {rec['msg']}", tb=rec.get("tb"))
    tfj = rec["tf"]
    if tfj["names"] != base["names"]:
        return dict(key="names-at-return", what=f"{tag}: column names of the returned frame differ from the dataset's",
                    expected=base["names"], observed=tfj["names"])
    if rec.get("names_after") != base["names"]:
        return dict(key="names-later", what=f"{tag}: column names of the returned frame changed after later calls",
                    expected=base["names"], observed=rec.get("names_after"))
    if tfj["num_rows"] != len(call["rows"]):
        return dict(key="num-rows", what=f"{tag}: {tfj['num_rows']} rows returned for {len(call['rows'])} rows")
    if set(tfj["feats"]) != set(base["feats"]):
        return dict(key="stypes", what=f"{tag}: feature stypes differ", expected=sorted(base["feats"]),
                    observed=sorted(tfj["feats"]))
    inj = {(i["col"], i["pos"]): i for i in call["inject"]}
    for col in desc["cols"]:
        if col["name"] == desc["target"]:
            continue
        loc = locate(tfj, col)
        if loc is None:
            return dict(key="column-missing", what=f"{tag}: column {col['name']} not in the returned frame")
        st, j = loc
        cells = selected_cells(case, call, col)
        for p, r in enumerate(call["rows"]):
            got = canon_cell(feat_cell(tfj, st, p, j), col["stype"])
            if (col["name"], p) in inj:
                exp = G.expected_cell(col, cells[p], obs["stats"].get(col["name"], {}))
                if got != exp:
                    return dict(key=f"unseen:{col['stype']}",
                                what=f"{tag}: row {p} of column {col['name']} carries the unseen value {cells[p]!r}; it must "
                                     f"be encoded as {exp} (missing / left out), got {got}",
                                expected=exp, observed=got, col=col["name"])
                continue
            exp = canon_cell(feat_cell(base, st, r, j), col["stype"])
            if got != exp:
                return dict(key=f"row-local:{col['stype']}",
                            what=f"{tag}: row {p} of column {col['name']} ({col['stype']}) is source row {r} "
                                 f"(raw {col['cells'][r]!r}); the dataset's TensorFrame has {exp} there, the converter "
                                 f"returned {got}", expected=exp, observed=got, col=col["name"])
    if "sel" in rec:
        sel = rec["sel"]
        if "exc" in sel:
            return dict(key="tensor-frame-index-raises", what=f"{tag}: dataset.tensor_frame[rows] raised {sel['exc']}: {sel['msg']}")
        canon = lambda t: {st: ([[sorted(c) for c in row] for row in f] if st == "multicategorical" else f)  # noqa: E731
                           for st, f in t["feats"].items()}
        if canon(sel) != canon(tfj) or sel["names"] != tfj["names"] or sel["num_rows"] != tfj["num_rows"]:
            return dict(key="differs-from-tensor-frame-index", what=f"{tag}: converting df.iloc[rows] differs from "
                        f"dataset.tensor_frame[rows]", expected=sel, observed=tfj)
        if not call["drop_target"] and sel["y"] != tfj["y"]:
            return dict(key="y-differs-from-tensor-frame-index", what=f"{tag}: y of the converted selection differs from "
                        f"dataset.tensor_frame[rows].y", expected=sel["y"], observed=tfj["y"])
    if call["drop_target"] or desc["target"] is None:
        if tfj["y"] is not None:
            return dict(key="y-without-target", what=f"{tag}: frame has no target column but y = {tfj['y']}")
    else:
        exp = [-1 if (desc["target"], p) in inj else base["y"][r] for p, r in enumerate(call["rows"])]
        if any((desc["target"], p) in inj for p in range(len(call["rows"]))) and tfj["y"] != exp:
            return dict(key="unseen:target", what=f"{tag}: the target column carries labels never seen at materialization "
                        f"at positions {[p for p in range(len(call['rows'])) if (desc['target'], p) in inj]}; y must be "
                        f"{exp} (-1 there), got {tfj['y']}", expected=exp, observed=tfj["y"])
        if tfj["y"] != exp:
            return dict(key="y-rows", what=f"{tag}: y = {tfj['y']}, the dataset's y at these rows is {exp}",
                        expected=exp, observed=tfj["y"])
    return None


def oracle(case, obs):
    if "harness_exc" in obs:
        return dict(key="harness-exc", what=obs["harness_exc"], tb=obs.get("tb"))
    if not obs["ok"]:
        return dict(key=f"materialize-raises:{obs['exc']}", what=f"materialize raised {obs['exc']}: {obs['msg']}",
                    tb=obs.get("tb"))
    if (case["frame"]["target"] is None) != (obs["base"]["y"] is None):
        return dict(key="dataset-y", what="the dataset's own TensorFrame has y iff the dataset has a target column: violated",
                    expected=case["frame"]["target"], observed=obs["base"]["y"])
    for k in range(len(case["calls"])):
        f = check_call(case, obs, k)
        if f is not None:
            f["call"] = k
            return f
    whole = {"kind": "all", "rows": list(range(case["frame"]["n"])), "inject": [], "drop_target": False}
    if "recheck" in obs:
        f = check_call(dict(case, calls=[whole]), dict(obs, calls=[obs["recheck"]]), 0)
        if f is not None:
            f["key"] = "after-other-datasets:" + f["key"]
            f["what"] = "after other datasets over the same column names were materialized and used: " + f["what"]
            return f
    for j, o in enumerate(case.get("others") or []):
        oo = obs["others"][j]
        if not oo["ok"]:
            return dict(key=f"other-materialize-raises:{oo['exc']}", what=f"materializing dataset #{j + 2} raised "
                        f"{oo['exc']}: {oo['msg']}", tb=oo.get("tb"))
        if (o["frame"]["target"] is None) != (oo["base"]["y"] is None):
            return dict(key="other:dataset-y", what=f"dataset #{j + 2}: y iff target column violated")
        for k in range(len(o["calls"])):
            f = check_call(o, oo, k)
            if f is not None:
                f["key"] = "other:" + f["key"]
                f["what"] = f"dataset #{j + 2} (same column names as the first, other data): " + f["what"]
                return f
    if obs["base_after"] != obs["base"]:
        return dict(key="dataset-frame-changed", what="the dataset's own TensorFrame changed after converter calls",
                    expected=obs["base"].get("names"), observed=(obs["base_after"] or {}).get("names"))
    if case["supplied"]:
        s = obs["supplied"]
        if not s["ok"]:
            return dict(key=f"supplied-raises:{s['exc']}", what=f"materialize(col_stats=...) raised {s['exc']}: {s['msg']}",
                        tb=s.get("tb"))
        if s["tf"] != obs["base"]:
            return dict(key="supplied-frame", what="materialize with supplied col_stats gives a different TensorFrame "
                        "than recomputing them", expected=obs["base"], observed=s["tf"])
        if s.get("stats_first_after") != obs["stats"]:
            return dict(key="supplied-stats-source-changed", what="the first dataset's col_stats changed when a copy of them "
                        "was supplied to another dataset", expected=obs["stats"], observed=s.get("stats_first_after"))
        if s["stats"] != obs["stats"]:
            return dict(key="supplied-stats", what="col_stats after materialize(col_stats=...) differ from the supplied ones",
                        expected=obs["stats"], observed=s["stats"])
    return None


def shrink(case):
    calls = case["calls"]
    others = case.get("others") or []
    for j in range(len(others)):
        rest = others[:j] + others[j + 1:]
        c2 = dict(case)
        if rest:
            c2["others"] = rest
        else:
            c2.pop("others")
        yield c2
    for j, o in enumerate(others):
        for k in range(len(o["calls"])):
            yield dict(case, others=others[:j] + [dict(o, calls=o["calls"][:k] + o["calls"][k + 1:])] + others[j + 1:])
    if case["supplied"]:
        yield dict(case, supplied=False)
    for k in range(len(calls)):
        if len(calls) > 1:
            yield dict(case, calls=calls[:k] + calls[k + 1:])
    for k, call in enumerate(calls):
        if call["inject"]:
            for j in range(len(call["inject"])):
                yield dict(case, calls=calls[:k] + [dict(call, inject=call["inject"][:j] + call["inject"][j + 1:])] + calls[k + 1:])
        if len(call["rows"]) > 1:
            for j in range(len(call["rows"])):
                if any(i["pos"] >= j for i in call["inject"]):
                    continue
                yield dict(case, calls=calls[:k] + [dict(call, kind="multiset", rows=call["rows"][:j] + call["rows"][j + 1:])]
                           + calls[k + 1:])
        if call["drop_target"]:
            yield dict(case, calls=calls[:k] + [dict(call, drop_target=False)] + calls[k + 1:])
    desc = case["frame"]
    used = {i["col"] for c in calls for i in c["inject"]}
    for ci, c in enumerate(desc["cols"]):
        if c["name"] != desc["target"] and c["name"] not in used and len(desc["cols"]) > (2 if desc["target"] else 1):
            nd = dict(desc, cols=desc["cols"][:ci] + desc["cols"][ci + 1:],
                      col_order=[n for n in desc["col_order"] if n != c["name"]])
            yield dict(case, frame=nd)
    # drop a source row that no call uses
    usedrows = {r for c in calls for r in c["rows"]}
    for r in range(desc["n"] - 1, -1, -1):
        if r not in usedrows and desc["n"] > 1:
            nd = dict(desc, n=desc["n"] - 1, cols=[dict(c, cells=c["cells"][:r] + c["cells"][r + 1:]) for c in desc["cols"]])
            ncalls = [dict(c, rows=[x - 1 if x > r else x for x in c["rows"]]) for c in calls]
            yield dict(case, frame=nd, calls=ncalls)
            break
    if desc["index"] != "range":
        yield dict(case, frame=dict(desc, index="range"))


def call_sig(call):
    rows = call["rows"]
    return (len(rows), len(set(rows)), rows == sorted(rows), tuple(sorted(i["kind"] for i in call["inject"])),
            call["drop_target"], bool(call.get("drop_feature")))


def nontrivial_sig(case, obs):
    if not obs.get("ok") or not any(c.get("ok") for c in obs["calls"]):
        return None
    desc = case["frame"]
    sts = sorted(c["stype"] for c in desc["cols"] if c["name"] != desc["target"])
    tk = None if desc["target"] is None else next(c["stype"] for c in desc["cols"] if c["name"] == desc["target"])
    oth = [(o["when"], o["frame"]["n"], [call_sig(c) for c in o["calls"]]) for o in case.get("others") or []]
    return json.dumps([sts, tk, [call_sig(c) for c in case["calls"]], case["supplied"], oth])


def stats(cases, obss):
    d = {"total": 0, "stypes": {}, "calls_per_case": {}, "call_kinds": {}, "calls_with_unseen": 0, "calls_without_target": 0,
         "injection_kinds": {}, "frames_with_embedding_merge": 0, "supplied": 0, "calls_raised": 0, "materialize_raised": 0,
         "calls": 0, "rows": {}}
    for c, o in zip(cases, obss):
        if c is None:
            continue
        d["total"] += 1
        desc = c["frame"]
        d["rows"][desc["n"]] = d["rows"].get(desc["n"], 0) + 1
        sts = {col["stype"] for col in desc["cols"] if col["name"] != desc["target"]}
        for s in sts:
            d["stypes"][s] = d["stypes"].get(s, 0) + 1
        if sts & {"text_embedded", "image_embedded"}:
            d["frames_with_embedding_merge"] += 1
        d["supplied"] += int(c["supplied"])
        if c.get("boundary"):
            d.setdefault("boundary", {})
            k = c["boundary"] + ":" + (c.get("materialize_args") or {}).get("col_stats", "")
            d["boundary"][k] = d["boundary"].get(k, 0) + 1
        tc = next((x for x in desc["cols"] if x["name"] == desc["target"]), None)
        if c["supplied"] and tc is not None and tc["stype"] == "categorical":
            vals = [v for v in tc["cells"] if v is not None]
            classes = sorted(set(vals), key=lambda v: (isinstance(v, str), v))
            by_count = sorted(classes, key=lambda v: -vals.count(v))
            strict = [vals.count(v) for v in by_count]
            differs = any(strict[i] > strict[i + 1] and by_count[i] > by_count[i + 1] for i in range(len(strict) - 1))
            kk = ("binary" if len(classes) == 2 else "multiclass") + (":frequency-order-differs" if differs else "")
            d.setdefault("supplied_categorical_target", {})
            d["supplied_categorical_target"][kk] = d["supplied_categorical_target"].get(kk, 0) + 1
        wide = lambda v: isinstance(v, int) and abs(v) >= 2 ** 63      # noqa: E731
        fc = sum(1 for x in desc["cols"] if x.get("cast") == "float64" and x["stype"] == "categorical")
        wc = sum(1 for x in desc["cols"] if x["stype"] == "categorical" and any(wide(v) for v in x["cells"]))
        wt = sum(1 for x in desc["cols"] if x["stype"] == "multicategorical" and
                 any(isinstance(cell, list) and any(wide(v) for v in cell) for cell in x["cells"]))
        d["float_category_columns"] = d.get("float_category_columns", 0) + fc
        d["wide_int_category_columns"] = d.get("wide_int_category_columns", 0) + wc
        d["wide_int_token_columns"] = d.get("wide_int_token_columns", 0) + wt
        d["supplied_with_wide_ints"] = d.get("supplied_with_wide_ints", 0) + int(c["supplied"] and (wc + wt) > 0)
        ma = c.get("materialize_args") or {}
        d.setdefault("materialize_device", {})
        d["materialize_device"][ma.get("device")] = d["materialize_device"].get(ma.get("device"), 0) + 1
        if c["supplied"]:
            d.setdefault("supplied_col_stats_form", {})
            d["supplied_col_stats_form"][ma.get("col_stats")] = d["supplied_col_stats_form"].get(ma.get("col_stats"), 0) + 1
        d["cases_with_other_datasets"] = d.get("cases_with_other_datasets", 0) + int(bool(c.get("others")))
        d["other_datasets_mid_session"] = d.get("other_datasets_mid_session", 0) + \
            sum(1 for x in c.get("others") or [] if x["when"] == "mid")
        tcol = next((x for x in desc["cols"] if x["name"] == desc["target"]), None)
        d["targets_with_missing_cells"] = d.get("targets_with_missing_cells", 0) + \
            int(bool(tcol and any(v is None for v in tcol["cells"])))
        d["calls_per_case"][len(c["calls"])] = d["calls_per_case"].get(len(c["calls"]), 0) + 1
        if not (o or {}).get("ok"):
            d["materialize_raised"] += 1
            continue
        for call, rec in zip(c["calls"], o["calls"]):
            d["calls"] += 1
            d["call_kinds"][call["kind"]] = d["call_kinds"].get(call["kind"], 0) + 1
            for k in ("how", "columns", "device", "entry", "sel_alias"):
                d.setdefault("call_" + k, {})
                d["call_" + k][call.get(k)] = d["call_" + k].get(call.get(k), 0) + 1
            d["calls_with_unseen"] += int(bool(call["inject"]))
            tinj = [i for i in call["inject"] if i["col"] == desc["target"]]
            if tinj:
                tcol = next(x for x in desc["cols"] if x["name"] == desc["target"])
                ncls = len({v for v in tcol["cells"] if v is not None})
                d.setdefault("target_unseen_calls", {"binary": 0, "multiclass": 0, "alone": 0, "with_features": 0,
                                                     "single_row": 0, "repeated_rows": 0, "whole_frame": 0})
                t = d["target_unseen_calls"]
                t["binary" if ncls == 2 else "multiclass"] += 1
                t["alone" if len(tinj) == len(call["inject"]) else "with_features"] += 1
                t["single_row"] += int(len(call["rows"]) == 1)
                t["repeated_rows"] += int(len(set(call["rows"])) < len(call["rows"]))
                t["whole_frame"] += int(call["kind"] == "all")
            d["calls_without_target"] += int(call["drop_target"])
            d["malformed_calls"] = d.get("malformed_calls", 0) + int(bool(call.get("drop_feature")))
            for i in call["inject"]:
                d["injection_kinds"][i["kind"]] = d["injection_kinds"].get(i["kind"], 0) + 1
                if i["kind"] == "othertype" and i["value"] == "zz":
                    # a string among numeric categories, next to cells that ARE categories: they must still match
                    col_ = next(x for x in desc["cols"] if x["name"] == i["col"])
                    others = [v for p, v in enumerate(selected_cells(c, call, col_)) if p != i["pos"] and v is not None
                              and not isinstance(v, str)]
                    d["string_among_numeric_categories_with_seen_cells"] = \
                        d.get("string_among_numeric_categories_with_seen_cells", 0) + int(bool(others))
                if i["kind"] == "sibling":
                    # the identical cell string also sits in the sibling column of the converted frame
                    same = any(i["value"] == selected_cells(c, call, o)[p] for o in desc["cols"]
                               if o["name"] != i["col"] and o["stype"] == "multicategorical"
                               for p in range(len(call["rows"])))
                    d["sibling_string_in_same_frame"] = d.get("sibling_string_in_same_frame", 0) + int(same)
            if not rec["ok"]:
                d["calls_raised"] += 1
    return d


def sanity(cases, obss):
    """Fail-closed distribution check: every stype, call kind, injection kind, the embedding merge, repeated calls,
    target-less frames, supplied statistics and the tensor_frame[idx] observation must occur."""
    d = stats(cases, obss)
    probs = []
    if d["total"] and d["materialize_raised"] > 0.1 * d["total"]:
        probs.append(f"{d['materialize_raised']} of {d['total']} datasets failed to materialize")
    if d["calls"] and d["calls_raised"] > 0.15 * d["calls"]:
        probs.append(f"{d['calls_raised']} of {d['calls']} converter calls raised")
    for st in ENUM:
        if d["stypes"].get(st, 0) == 0:
            probs.append(f"stype {st} never drawn")
    for k in ("cases_with_other_datasets", "other_datasets_mid_session", "targets_with_missing_cells"):
        if d.get(k, 0) == 0:
            probs.append(f"{k} = 0")
    for nm in ("str3", "str3_tie", "str4", "str5_tie", "int3", "int4_tie", "int5", "bin_str", "bin_int"):
        for form in ("keyword", "positional"):
            if (d.get("boundary") or {}).get(f"supplied-target:{nm}:{form}", 0) == 0:
                probs.append(f"boundary case supplied-target:{nm}:{form} missing")
    for k in ("multiclass:frequency-order-differs", "binary:frequency-order-differs"):
        if (d.get("supplied_categorical_target") or {}).get(k, 0) < 2:
            probs.append(f"fewer than 2 supplied-statistics cases with a {k} categorical target")
    need = {"call_how": ["iloc", "take", "concat", "reset_index", "mask"],
            "call_columns": ["same", "permuted", "extra", "permuted+extra"],
            "call_device": ["default", "kw_none", "pos_str", "kw_device"], "call_entry": ["call", "dunder"],
            "call_sel_alias": ["tensor_frame[idx]", "ds[idx]", "index_select"],
            "materialize_device": ["default", "pos_none", "kw_str", "kw_device"],
            "supplied_col_stats_form": ["keyword", "positional"]}
    for grp, ks in need.items():
        for k in ks:
            if (d.get(grp) or {}).get(k, 0) == 0:
                probs.append(f"{grp} = {k} never drawn")
    for k, v in (d.get("target_unseen_calls") or {"never": 0}).items():
        if v == 0:
            probs.append(f"unseen label in the target column: {k} never drawn")
    for k in ("all", "single", "repeat", "reorder", "multiset", "slice", "missing", "unlabeled"):
        if d["call_kinds"].get(k, 0) == 0:
            probs.append(f"row selection kind {k} never drawn")
    for k in ("float_category_columns", "wide_int_category_columns", "wide_int_token_columns", "supplied_with_wide_ints"):
        if d.get(k, 0) == 0:
            probs.append(f"{k} = 0")
    if d.get("string_among_numeric_categories_with_seen_cells", 0) < 3:
        probs.append("fewer than 3 converted frames with a string among numeric categories next to seen cells")
    if d.get("sibling_string_in_same_frame", 0) == 0:
        probs.append("no unseen-by-sibling token whose cell string also occurs in the sibling column of the same frame")
    for k in ("unseen", "only_unseen", "mixed", "two_unseen", "sibling", "adjacent", "nonintegral", "othertype"):
        if d["injection_kinds"].get(k, 0) == 0:
            probs.append(f"unseen-value kind {k} never drawn")
    for k in ("frames_with_embedding_merge", "supplied", "calls_without_target", "calls_with_unseen"):
        if d[k] == 0:
            probs.append(f"{k} = 0")
    if not any(int(k) >= 3 for k, v in d["calls_per_case"].items() if v):
        probs.append("no case with 3 or more converter calls")
    nsel = sum(1 for o in obss if o and o.get("ok") for rec in o["calls"] if isinstance(rec.get("sel"), dict)
               and "exc" not in rec["sel"])
    if nsel == 0:
        probs.append("dataset.tensor_frame[idx] never observed")
    return probs


# ------------------------------------------------------------------ Coq side
STUB = ("text_embedded", "image_embedded", "text_tokenized")


def cstring(x):
    return C.cstr(x)


def label_ids(desc):
    lab = G.index_labels(desc["index"], desc["n"])
    if lab is None:
        return list(range(desc["n"]))
    ids = {}
    return [ids.setdefault(repr(v), len(ids)) for v in lab]


def pv(v):
    """a raw category value as a pval; a non-integral float (or +/-inf) has no int / str form: it is shipped as a
    string no category can equal (categories of such a column are ints)"""
    if isinstance(v, float):
        return M.ppval(int(v)) if v == int(v) and abs(v) < 2 ** 60 else M.ppval("float:" + repr(v))
    if isinstance(v, str) and v in ("inf", "-inf"):
        return M.ppval("float:" + v)
    return M.ppval(v)


def tv(v):
    """a raw category value with its Python type as a `tval` of Model/ConverterState.v"""
    from fractions import Fraction
    if isinstance(v, bool):
        raise M.NotExact("bool category")
    if isinstance(v, int):
        return f"TInt {M.zs(v)}"
    if isinstance(v, float) and v in (float("inf"), float("-inf")):
        return f"TInf {'true' if v > 0 else 'false'}"
    if isinstance(v, float):
        f = Fraction(v)
        return f"TFloat (({M.zs(f.numerator)} # {f.denominator})%Q)"
    return f"TStr {M.pstr(v)}"


def typed_terms(case, obs, call, tfj, by):
    """typed_cat_ok for every categorical feature column of one converted frame: the typed model of the categorical
    merge (ints / floats / strings with Python's key equality) against the cells the implementation produced"""
    desc = case["frame"]
    out = []
    for name in desc["col_order"]:
        col = by[name]
        if col["stype"] != "categorical" or name == desc["target"] or name == call.get("drop_feature"):
            continue
        loc = locate(tfj, col)
        if loc is None:
            return None
        numeric_col = not any(isinstance(x, str) for x in col["cells"])

        def cell(v):
            if v is None:
                return "None"
            if numeric_col and v in ("inf", "-inf"):
                return f"(Some (TInf {'true' if v == 'inf' else 'false'}))"
            return f"(Some ({tv(v)}))"
        cats = obs["stats"][name]["COUNT"][0]
        cells = selected_cells(case, call, col)
        got = [feat_cell(tfj, loc[0], p, loc[1]) for p in range(len(call["rows"]))]
        if any(not (isinstance(g, list) and len(g) == 1 and isinstance(g[0], int)) for g in got):
            return None
        out.append(f"typed_cat_ok {M.plist(cats, tv)} {M.plist(cells, cell)} {M.plist([g[0] for g in got], M.zs)}")
    return out


def coq_fcol(col, cells, parsed, rows):
    st = col["stype"]
    if st == "numerical":
        return "FNum " + M.plist(cells, lambda c: M.popt(c, M.pnum))
    if st == "categorical":
        return "FCat " + M.plist(cells, lambda c: M.popt(c, pv))
    if st == "multicategorical":
        def cell(c):
            if c is None:
                return "MCMissing"
            if isinstance(c, str):
                return f"MCStr {M.pstr(c)}"
            return f"MCList {M.plist(c, pv)}"
        return "FMulti true " + M.plist(cells, cell)
    if st == "sequence_numerical":
        return "FSeq " + M.plist(cells, lambda c: "SQMissing" if c is None else "SQList " + M.plist(c, lambda x: M.popt(x, M.pnum)))
    if st == "timestamp":
        return "FTime " + M.plist(parsed, lambda v: M.popt(v, M.zs))
    if st == "embedding":
        return "FVec " + M.plist(cells, lambda v: M.plist(v, M.pnum))
    return "FStub " + M.plist(rows, M.zs)


def coq_df(case, call, parsed, labels):
    """the frame handed to the converter as a `pdataframe`"""
    desc = case["frame"]
    by = {c["name"]: c for c in desc["cols"]}
    cols = []
    for name in desc["col_order"]:
        col = by[name]
        if (call["drop_target"] and name == desc["target"]) or name == call.get("drop_feature"):
            continue
        cells = selected_cells(case, call, col)
        cols.append(f"({cstring(name)}, {coq_fcol(col, cells, (parsed or {}).get(name), call['rows'])})")
    ix = M.plist([labels[r] for r in call["rows"]], M.nat)
    return "{| df_index := " + ix + "; df_cols := " + M.plist(cols) + " |}"


def coq_cell(col, got, base_cell, src_row):
    """an observed encoded cell as an `ecell`; cells of opaque columns are identified through the dataset's own frame"""
    st = col["stype"]
    if st in STUB:
        return f"[SNum (NFin {M.zs(src_row)})]" if got == base_cell else "[SNum NNaN]"
    if st == "multicategorical":
        return M.pecell(sorted(got), True)
    return M.pecell(got, M.is_int_stype(st))


def coq_obs(case, call, tfj, base, by):
    desc = case["frame"]
    names = M.plist([s for s in ENUM if s in tfj["names"]],
                    lambda s: f"({M.stype_ctor(s)}, {M.plist(tfj['names'][s], cstring)})")
    feats = []
    for s in ENUM:
        if s not in tfj["feats"]:
            continue
        cols = []
        for j, name in enumerate(tfj["names"].get(s, [])):
            col = by.get(name)
            if col is None:
                return None
            bloc = locate(base, col)
            encs = []
            for p, r in enumerate(call["rows"]):
                bcell = feat_cell(base, bloc[0], r, bloc[1]) if (bloc and col["stype"] in STUB) else None
                encs.append(coq_cell(col, feat_cell(tfj, s, p, j), bcell, r))
            cols.append(M.plist(encs))
        feats.append(f"({M.stype_ctor(s)}, {M.plist(cols)})")
    if tfj["y"] is None:
        y = "None"
    else:
        tcol = by[desc["target"]]
        y = "(Some " + M.plist(tfj["y"], lambda v: M.pecell([v], M.is_int_stype(tcol["stype"]))) + ")"
    return f"(mk_obs {names} {M.plist(feats)} {y})"


def coq_fits(case, obs, by):
    desc = case["frame"]
    out = []
    for n in desc["col_order"]:
        c = by[n]
        st = c["stype"]
        if st == "categorical":
            f = "FitCat " + M.plist(obs["stats"][n]["COUNT"][0], pv)
        elif st == "multicategorical":
            f = f"FitMulti {M.plist(obs['stats'][n]['MULTI_COUNT'][0], pv)} {M.popt(c['sep'], M.pstr)}"
        else:
            f = {"numerical": "FitNum", "sequence_numerical": "FitSeq", "timestamp": "FitTime",
                 "embedding": "FitEmb"}.get(st, "FitStub")
        out.append(f"({cstring(n)}, {f})")
    return M.plist(out)


def coq_stats(case, stats_json, by, drop_stub_emb):
    """col_stats as the model's `stats` (keys present, category list, EMB_DIM), in col_order"""
    desc = case["frame"]
    out = []
    for n in desc["col_order"]:
        c = by[n]
        st = dict(stats_json[n])
        if drop_stub_emb and c["stype"] in ("text_embedded", "image_embedded"):
            st.pop("EMB_DIM", None)
        cats = st.get("COUNT", st.get("MULTI_COUNT", [[], []]))[0]
        emb = st.get("EMB_DIM")
        out.append(f"({cstring(n)}, {{| cs_keys := {M.plist(sorted(st), lambda k: 'stat_' + k)}; "
                   f"cs_cats := {M.plist(cats, pv)}; cs_emb := {M.popt(emb, M.nat)} |}})")
    return M.plist(out)


def coq_term(case, obs):
    t = coq_terms(case, obs, True)
    if t is None or t == "false":
        return t
    for o, oo in zip(case.get("others") or [], obs.get("others") or []):
        # the other datasets' converters are followed by the model too (each is its own converter)
        t2 = coq_terms(dict(o, supplied=False), oo, False)
        if t2 is None:
            return None
        if t2 == "false":
            return "false"
        t = t + " && " + t2
    return "(" + t + ")"


def coq_terms(case, obs, full):
    if any(call.get("drop_feature") and rec["ok"] for call, rec in zip(case["calls"], obs["calls"])):
        return None        # the implementation tolerated a malformed frame on which the model (current code) raises
    if not obs.get("ok") or any(not rec["ok"] and not call.get("drop_feature")
                                for call, rec in zip(case["calls"], obs["calls"])):
        return None
    if obs["base"]["num_rows"] != case["frame"]["n"]:
        return "false"
    desc = case["frame"]
    by = {c["name"]: c for c in desc["cols"]}
    labels = label_ids(desc)
    cts = M.plist([by[n] for n in desc["col_order"]], lambda c: f"({cstring(c['name'])}, {M.stype_ctor(c['stype'])})")
    seps = M.plist([by[n] for n in desc["col_order"] if by[n]["stype"] == "multicategorical"],
                   lambda c: f"({cstring(c['name'])}, {M.popt(c['sep'], M.pstr)})")
    target = M.popt(desc["target"], cstring)
    fits = coq_fits(case, obs, by)
    whole = {"kind": "all", "rows": list(range(desc["n"])), "inject": [], "drop_target": False}
    whole_df = coq_df(case, whole, obs["parsed"], labels)
    base_obs = coq_obs(case, whole, obs["base"], obs["base"], by)
    if base_obs is None:
        return "false"
    # session: materialization is the converter's first call, then the user calls (None = the call raised)
    items = [f"({whole_df}, Some {base_obs})"]
    typed = typed_terms(case, obs, whole, obs["base"], by) or []
    sel_term = None
    for call, rec in zip(case["calls"], obs["calls"]):
        df = coq_df(case, call, rec.get("parsed"), labels)
        if not rec["ok"]:
            items.append(f"({df}, None)")
            continue
        o = coq_obs(case, call, rec["tf"], obs["base"], by)
        if o is None:
            return "false"
        items.append(f"({df}, Some {o})")
        tt = typed_terms(case, obs, call, rec["tf"], by)
        if tt is None:
            return "false"
        typed.extend(tt)
        if full and sel_term is None and plain(call) and not call["drop_target"] and isinstance(rec.get("sel"), dict) \
                and "exc" not in rec["sel"] and rec["parsed"] == {k: [v[r] for r in call["rows"]]
                                                                  for k, v in obs["parsed"].items()}:
            # df.iloc[idx] / tensor_frame[idx] in the model (only when the timestamp black box parsed the selected
            # cells as it parsed them inside the whole column)
            so = coq_obs(case, call, rec["sel"], obs["base"], by)
            if so is None:
                return "false"
            sel_term = (f"selection_ok {cts} {target} {fits} {whole_df} {M.plist(call['rows'], M.nat)} {df} {so}")
    if obs.get("recheck", {}).get("ok"):
        o = coq_obs(case, whole, obs["recheck"]["tf"], obs["base"], by)
        if o is None:
            return "false"
        items.append(f"({whole_df}, Some {o})")
    terms = [f"session_ok {cts} {target} {fits} {M.plist(items)}"] + typed
    if not full:
        return " && ".join(terms)
    if sel_term:
        terms.append(sel_term)
    # materialize end to end: recomputed (None) and, when drawn, with the supplied statistics
    emb_names = obs["base"]["names"].get("embedding", [])
    widths = M.plist([(nm, len(obs["base"]["feats"]["embedding"][0][j])) for j, nm in enumerate(emb_names)],
                     lambda p: f"({cstring(p[0])}, {M.nat(p[1])})") if desc["n"] else "[]"
    st_obs = coq_stats(case, obs["stats"], by, False)
    st_pre = coq_stats(case, obs["stats"], by, True)
    terms.append(f"materialize_ok {cts} {seps} {target} {st_pre} {widths} None {whole_df} {st_obs} {base_obs}")
    if case["supplied"] and obs["supplied"]["ok"]:
        o2 = coq_obs(case, whole, obs["supplied"]["tf"], obs["base"], by)
        if o2 is None:
            return "false"
        st2 = coq_stats(case, obs["supplied"]["stats"], by, False)
        terms.append(f"materialize_ok {cts} {seps} {target} [] {widths} (Some {st_obs}) {whole_df} {st2} {o2}")
    return " && ".join(terms)
