"""C04 — train/inference consistency of the DataFrame-to-TensorFrame converter."""
from __future__ import annotations

import copy
import json
import os

os.environ.setdefault("TQDM_DISABLE", "1")

from harness import common as C  # noqa: E402
from harness import dfgen as G  # noqa: E402

PROP = "C04"
HEADER = "Require Import PF.Gen.Tables PF.Model.Stats PF.Model.ConverterState.\nOpen Scope string_scope."
MODEL_TARGETS = ["Model/ConverterState.vo"]
SHARD = 40
RULE = ("materialized datasets over all nine stypes (stub embedders / tokenizer) x 1-4 converter calls on row "
        "multisets of the source frame (whole frame, singletons, repeats, reorders, arbitrary multisets; rows carrying "
        "unseen categories / unseen multicategorical tokens injected into a copy; frames without the target column) x "
        "a fresh dataset materialized with the first one's col_stats; distinct = distinct (stype multiset incl. "
        "whether embedding children are merged, target kind, per call: row-multiset shape (n, #distinct rows, "
        "ordered or not), injection kinds, target dropped); non-trivial = at least one call converted >= 1 row")
TRUSTED = [
    "Coq 8.16.1 kernel + vm_compute",
    "hand-written model coq/Model/ConverterState.v of DataFrameToTensorFrameConverter (__init__, _merge_feat, "
    "__call__) and Dataset.materialize(col_stats=...), tied to /repo by this run's correspondence",
    "modelled primitives: every TensorMapper.forward is a row-wise function of the fitted statistics (the categorical "
    "and multicategorical ones concretely: position in the fitted category list, -1 / dropped when absent; all others "
    "opaque: a cell is identified by the source row it came from) -- the mapper pipelines themselves are C01's subject",
    "harness/c04.py: generator, row-by-row oracle against the dataset's own TensorFrame, Coq literal printer",
]
ASSUMPTIONS = [
    "empty row selections are not drawn (the property names single rows, repeats and reorders)",
    "stub embedders / tokenizer are deterministic row-wise functions of the cell text",
    "timestamps with format None use one unambiguous string layout, so pandas' per-call format inference is stable",
]

ENUM = ["numerical", "categorical", "text_embedded", "text_tokenized", "multicategorical", "sequence_numerical",
        "timestamp", "image_embedded", "embedding"]
PARENT = {"text_embedded": "embedding", "image_embedded": "embedding"}


# ------------------------------------------------------------------ generation
def gen_rows(rng, n, desc=None):
    kind = rng.wpick([(2, "all"), (3, "single"), (3, "repeat"), (3, "reorder"), (4, "multiset"), (1, "slice"),
                      (2, "missing")])
    if kind == "missing":
        # only rows in which some category column is missing (the selected column is then entirely missing)
        cands = [c for c in (desc or {}).get("cols", []) if c["stype"] in ("categorical", "multicategorical")
                 and any(x is None for x in c["cells"])]
        if not cands:
            kind = "single"
        else:
            c = rng.pick(cands)
            pos = [i for i, x in enumerate(c["cells"]) if x is None]
            return kind, [rng.pick(pos) for _ in range(rng.randint(1, 3))]
    if kind == "all":
        return kind, list(range(n))
    if kind == "single":
        return kind, [rng.randrange(n)]
    if kind == "repeat":
        r = rng.randrange(n)
        return kind, [r] * rng.randint(2, 4)
    if kind == "reorder":
        l = list(range(n))
        rng.shuffle(l)
        return kind, l
    if kind == "slice":
        a = rng.randrange(n)
        return kind, list(range(a, rng.randint(a + 1, n)))
    return kind, [rng.randrange(n) for _ in range(rng.randint(1, n + 3))]


def gen_injections(rng, desc, rows):
    """Unseen values placed into the selected copy: list of {"col", "pos" (position in the selection), "kind"}."""
    out = []
    cands = [c for c in desc["cols"] if c["stype"] in ("categorical", "multicategorical") and c["name"] != desc["target"]]
    if not cands or not rng.chance(0.55):
        return out
    for _ in range(rng.randint(1, 3)):
        c = rng.pick(cands)
        pos = rng.randrange(len(rows))
        if c["stype"] == "categorical":
            out.append({"col": c["name"], "pos": pos, "kind": "unseen"})
        else:
            out.append({"col": c["name"], "pos": pos, "kind": rng.pick(["only_unseen", "mixed", "mixed", "two_unseen"])})
    return out


def gen_case(rng, tier):
    # bias towards frames where the embedding merge happens and category columns exist
    st = None
    if rng.chance(0.5):
        st = rng.pick([["embedding", "text_embedded", "image_embedded", "categorical", "multicategorical"],
                       ["text_embedded", "image_embedded", "numerical", "categorical"],
                       ["categorical", "multicategorical", "timestamp", "sequence_numerical", "text_tokenized"],
                       ["text_embedded", "categorical", "multicategorical"]])
    desc = G.gen_frame(rng, stypes=st)
    n = desc["n"]
    calls = []
    for _ in range(rng.randint(1, 4)):
        kind, rows = gen_rows(rng, n, desc)
        call = {"kind": kind, "rows": rows, "inject": gen_injections(rng, desc, rows),
                "drop_target": bool(desc["target"] and rng.chance(0.3))}
        if rng.chance(0.04):
            # malformed stream: the frame lacks a feature column -- the call must raise and leave the converter usable
            feats = [c["name"] for c in desc["cols"] if c["name"] != desc["target"]]
            call["drop_feature"] = rng.pick(feats)
            call["inject"] = [i for i in call["inject"] if i["col"] != call["drop_feature"]]
        calls.append(call)
    return {"frame": desc, "calls": calls, "supplied": rng.chance(0.5)}


def generate(rng, tier):
    n = 400 if tier == "quick" else 8000
    return [gen_case(rng, tier) for _ in range(n)]


# ------------------------------------------------------------------ implementation
def unseen_value(col, kind, raw):
    """The raw cell that replaces `raw` (a cell of the source frame) for an injection."""
    if col["stype"] == "categorical":
        ints = any(isinstance(x, int) for x in col["cells"] if x is not None)
        return 777 if ints else "UNSEEN~"
    toks = G.tokens_of(raw, col["sep"]) or set()
    seen = sorted(toks)[:2]
    new = {"only_unseen": ["N1"], "mixed": seen + ["N1"], "two_unseen": ["N2"] + seen + ["N1", "N1"]}[kind]
    if col["sep"] is None:
        return new
    return (" " + col["sep"]).join(new)


def selected_cells(case, call, col):
    """Raw cells (JSON) of the column in the frame handed to the converter."""
    cells = [col["cells"][r] for r in call["rows"]]
    for inj in call["inject"]:
        if inj["col"] == col["name"]:
            cells[inj["pos"]] = unseen_value(col, inj["kind"], col["cells"][call["rows"][inj["pos"]]])
    return cells


def build_call_df(case, call, df):
    import pandas as pd  # noqa: F401
    desc = case["frame"]
    df2 = df.iloc[call["rows"]].copy()
    by = {c["name"]: c for c in desc["cols"]}
    for name in {i["col"] for i in call["inject"]}:
        col = by[name]
        ser = G.build_series(dict(col, cells=selected_cells(case, call, col)))
        ser.index = df2.index
        df2[name] = ser
    if call["drop_target"]:
        df2 = df2.drop(columns=[desc["target"]])
    if call.get("drop_feature"):
        df2 = df2.drop(columns=[call["drop_feature"]])
    return df2


def run(case):
    desc = case["frame"]
    try:
        ds, _ = G.build_dataset(desc)
        ds.materialize()
    except Exception as ex:
        return {"ok": False, "stage": "materialize", "exc": C.exc_name(ex), "msg": str(ex)[:300], "tb": C.fmt_exc()}
    out = {"ok": True, "base": G.read_tf(ds.tensor_frame), "stats": G.read_stats(ds.col_stats), "calls": []}
    frames = []
    for call in case["calls"]:
        try:
            df2 = build_call_df(case, call, ds.df)
        except Exception as ex:
            out["calls"].append({"ok": False, "stage": "harness", "exc": C.exc_name(ex), "msg": str(ex)[:300],
                                 "tb": C.fmt_exc()})
            frames.append(None)
            continue
        try:
            tf = ds.convert_to_tensor_frame(df2)
            frames.append(tf)
            out["calls"].append({"ok": True, "tf": G.read_tf(tf)})
        except Exception as ex:
            frames.append(None)
            out["calls"].append({"ok": False, "stage": "convert", "exc": C.exc_name(ex), "msg": str(ex)[:300],
                                 "tb": C.fmt_exc()})
    # names of every frame returned earlier, read again after all calls (they share the converter's table)
    for rec, tf in zip(out["calls"], frames):
        if tf is not None:
            rec["names_after"] = {k.value: list(v) for k, v in tf.col_names_dict.items()}
    try:
        out["base_after"] = G.read_tf(ds.tensor_frame)
    except Exception as ex:
        out["base_after"] = {"exc": C.exc_name(ex), "msg": str(ex)[:300]}
    if case["supplied"]:
        try:
            ds2, _ = G.build_dataset(desc)
            ds2.materialize(col_stats=ds.col_stats)
            out["supplied"] = {"ok": True, "tf": G.read_tf(ds2.tensor_frame), "stats": G.read_stats(ds2.col_stats)}
        except Exception as ex:
            out["supplied"] = {"ok": False, "exc": C.exc_name(ex), "msg": str(ex)[:300], "tb": C.fmt_exc()}
    return out


# ------------------------------------------------------------------ oracle
def locate(tfj, col):
    parent = PARENT.get(col["stype"], col["stype"])
    names = tfj["names"].get(parent)
    if names is None or col["name"] not in names:
        return None
    return parent, names.index(col["name"])


def feat_cell(tfj, st, i, j):
    """cell (row i, column j) of feature st; dict-valued features give {key: cell}."""
    f = tfj["feats"][st]
    if isinstance(f, dict):
        return {k: v[i][j] for k, v in f.items()}
    return f[i][j]


def canon_cell(cell, stype_name):
    if stype_name == "multicategorical":
        return sorted(cell)
    return cell


def check_call(case, obs, k):
    desc, call, rec = case["frame"], case["calls"][k], obs["calls"][k]
    base = obs["base"]
    tag = f"call {k + 1} ({call['kind']}, rows {call['rows']}" + (", unseen values" if call["inject"] else "") + \
        (", without target" if call["drop_target"] else "") + ")"
    if call.get("drop_feature"):
        if rec["ok"]:
            return dict(key="malformed-accepted", what=f"{tag}: the frame lacks the feature column "
                        f"{call['drop_feature']} but the converter returned a frame")
        return None
    if not rec["ok"]:
        if rec.get("stage") == "harness":
            return dict(key="harness-call", what=f"{tag}: harness could not build the frame: {rec['exc']} {rec['msg']}",
                        tb=rec.get("tb"))
        kinds = sorted({i["kind"] for i in call["inject"]})
        return dict(key=f"convert-raises:{rec['exc']}" + (":unseen" if kinds else ""),
                    what=f"{tag}: the converter raised {rec['exc']}: {rec['msg']}", tb=rec.get("tb"))
    tfj = rec["tf"]
    if tfj["names"] != base["names"]:
        return dict(key="names-at-return", what=f"{tag}: column names of the returned frame differ from the dataset's",
                    expected=base["names"], observed=tfj["names"])
    if rec.get("names_after") != base["names"]:
        return dict(key="names-later", what=f"{tag}: column names of the returned frame changed after later calls",
                    expected=base["names"], observed=rec.get("names_after"))
    if tfj["num_rows"] != len(call["rows"]):
        return dict(key="num-rows", what=f"{tag}: {tfj['num_rows']} rows returned for {len(call['rows'])} rows")
    if set(tfj["feats"]) != set(base["feats"]):
        return dict(key="stypes", what=f"{tag}: feature stypes differ", expected=sorted(base["feats"]),
                    observed=sorted(tfj["feats"]))
    inj = {(i["col"], i["pos"]): i for i in call["inject"]}
    for col in desc["cols"]:
        if col["name"] == desc["target"]:
            continue
        loc = locate(tfj, col)
        if loc is None:
            return dict(key="column-missing", what=f"{tag}: column {col['name']} not in the returned frame")
        st, j = loc
        cells = selected_cells(case, call, col)
        for p, r in enumerate(call["rows"]):
            got = canon_cell(feat_cell(tfj, st, p, j), col["stype"])
            if (col["name"], p) in inj:
                exp = G.expected_cell(col, cells[p], obs["stats"].get(col["name"], {}))
                if got != exp:
                    return dict(key=f"unseen:{col['stype']}",
                                what=f"{tag}: row {p} of column {col['name']} carries the unseen value {cells[p]!r}; it must "
                                     f"be encoded as {exp} (missing / left out), got {got}",
                                expected=exp, observed=got, col=col["name"])
                continue
            exp = canon_cell(feat_cell(base, st, r, j), col["stype"])
            if got != exp:
                return dict(key=f"row-local:{col['stype']}",
                            what=f"{tag}: row {p} of column {col['name']} ({col['stype']}) is source row {r} "
                                 f"(raw {col['cells'][r]!r}); the dataset's TensorFrame has {exp} there, the converter "
                                 f"returned {got}", expected=exp, observed=got, col=col["name"])
    if call["drop_target"] or desc["target"] is None:
        if tfj["y"] is not None:
            return dict(key="y-without-target", what=f"{tag}: frame has no target column but y = {tfj['y']}")
    else:
        exp = [base["y"][r] for r in call["rows"]]
        if tfj["y"] != exp:
            return dict(key="y-rows", what=f"{tag}: y = {tfj['y']}, the dataset's y at these rows is {exp}",
                        expected=exp, observed=tfj["y"])
    return None


def oracle(case, obs):
    if "harness_exc" in obs:
        return dict(key="harness-exc", what=obs["harness_exc"], tb=obs.get("tb"))
    if not obs["ok"]:
        return dict(key=f"materialize-raises:{obs['exc']}", what=f"materialize raised {obs['exc']}: {obs['msg']}",
                    tb=obs.get("tb"))
    if (case["frame"]["target"] is None) != (obs["base"]["y"] is None):
        return dict(key="dataset-y", what="the dataset's own TensorFrame has y iff the dataset has a target column: violated",
                    expected=case["frame"]["target"], observed=obs["base"]["y"])
    for k in range(len(case["calls"])):
        f = check_call(case, obs, k)
        if f is not None:
            f["call"] = k
            return f
    if obs["base_after"] != obs["base"]:
        return dict(key="dataset-frame-changed", what="the dataset's own TensorFrame changed after converter calls",
                    expected=obs["base"].get("names"), observed=(obs["base_after"] or {}).get("names"))
    if case["supplied"]:
        s = obs["supplied"]
        if not s["ok"]:
            return dict(key=f"supplied-raises:{s['exc']}", what=f"materialize(col_stats=...) raised {s['exc']}: {s['msg']}",
                        tb=s.get("tb"))
        if s["tf"] != obs["base"]:
            return dict(key="supplied-frame", what="materialize with supplied col_stats gives a different TensorFrame "
                        "than recomputing them", expected=obs["base"], observed=s["tf"])
        if s["stats"] != obs["stats"]:
            return dict(key="supplied-stats", what="col_stats after materialize(col_stats=...) differ from the supplied ones",
                        expected=obs["stats"], observed=s["stats"])
    return None


def shrink(case):
    calls = case["calls"]
    if case["supplied"]:
        yield dict(case, supplied=False)
    for k in range(len(calls)):
        if len(calls) > 1:
            yield dict(case, calls=calls[:k] + calls[k + 1:])
    for k, call in enumerate(calls):
        if call["inject"]:
            for j in range(len(call["inject"])):
                yield dict(case, calls=calls[:k] + [dict(call, inject=call["inject"][:j] + call["inject"][j + 1:])] + calls[k + 1:])
        if len(call["rows"]) > 1:
            for j in range(len(call["rows"])):
                if any(i["pos"] >= j for i in call["inject"]):
                    continue
                yield dict(case, calls=calls[:k] + [dict(call, kind="multiset", rows=call["rows"][:j] + call["rows"][j + 1:])]
                           + calls[k + 1:])
        if call["drop_target"]:
            yield dict(case, calls=calls[:k] + [dict(call, drop_target=False)] + calls[k + 1:])
    desc = case["frame"]
    used = {i["col"] for c in calls for i in c["inject"]}
    for ci, c in enumerate(desc["cols"]):
        if c["name"] != desc["target"] and c["name"] not in used and len(desc["cols"]) > (2 if desc["target"] else 1):
            nd = dict(desc, cols=desc["cols"][:ci] + desc["cols"][ci + 1:],
                      col_order=[n for n in desc["col_order"] if n != c["name"]])
            yield dict(case, frame=nd)
    # drop a source row that no call uses
    usedrows = {r for c in calls for r in c["rows"]}
    for r in range(desc["n"] - 1, -1, -1):
        if r not in usedrows and desc["n"] > 1:
            nd = dict(desc, n=desc["n"] - 1, cols=[dict(c, cells=c["cells"][:r] + c["cells"][r + 1:]) for c in desc["cols"]])
            ncalls = [dict(c, rows=[x - 1 if x > r else x for x in c["rows"]]) for c in calls]
            yield dict(case, frame=nd, calls=ncalls)
            break
    if desc["index"] != "range":
        yield dict(case, frame=dict(desc, index="range"))


def call_sig(call):
    rows = call["rows"]
    return (len(rows), len(set(rows)), rows == sorted(rows), tuple(sorted(i["kind"] for i in call["inject"])),
            call["drop_target"], bool(call.get("drop_feature")))


def nontrivial_sig(case, obs):
    if not obs.get("ok") or not any(c.get("ok") for c in obs["calls"]):
        return None
    desc = case["frame"]
    sts = sorted(c["stype"] for c in desc["cols"] if c["name"] != desc["target"])
    tk = None if desc["target"] is None else next(c["stype"] for c in desc["cols"] if c["name"] == desc["target"])
    return json.dumps([sts, tk, [call_sig(c) for c in case["calls"]], case["supplied"]])


def stats(cases, obss):
    d = {"total": 0, "stypes": {}, "calls_per_case": {}, "call_kinds": {}, "calls_with_unseen": 0, "calls_without_target": 0,
         "injection_kinds": {}, "frames_with_embedding_merge": 0, "supplied": 0, "calls_raised": 0, "materialize_raised": 0,
         "calls": 0, "rows": {}}
    for c, o in zip(cases, obss):
        if c is None:
            continue
        d["total"] += 1
        desc = c["frame"]
        d["rows"][desc["n"]] = d["rows"].get(desc["n"], 0) + 1
        sts = {col["stype"] for col in desc["cols"] if col["name"] != desc["target"]}
        for s in sts:
            d["stypes"][s] = d["stypes"].get(s, 0) + 1
        if sts & {"text_embedded", "image_embedded"}:
            d["frames_with_embedding_merge"] += 1
        d["supplied"] += int(c["supplied"])
        d["calls_per_case"][len(c["calls"])] = d["calls_per_case"].get(len(c["calls"]), 0) + 1
        if not (o or {}).get("ok"):
            d["materialize_raised"] += 1
            continue
        for call, rec in zip(c["calls"], o["calls"]):
            d["calls"] += 1
            d["call_kinds"][call["kind"]] = d["call_kinds"].get(call["kind"], 0) + 1
            d["calls_with_unseen"] += int(bool(call["inject"]))
            d["calls_without_target"] += int(call["drop_target"])
            d["malformed_calls"] = d.get("malformed_calls", 0) + int(bool(call.get("drop_feature")))
            for i in call["inject"]:
                d["injection_kinds"][i["kind"]] = d["injection_kinds"].get(i["kind"], 0) + 1
            if not rec["ok"]:
                d["calls_raised"] += 1
    return d


# ------------------------------------------------------------------ Coq side
def cst(s):
    return "st_" + s


def split_tokens(cell, sep):
    if cell is None:
        return None
    if isinstance(cell, list):
        return list(cell)
    if cell.strip() == "":
        return []
    return [t.strip() for t in cell.split(sep)]


def value_ranks(case, obs):
    """per category column: value -> integer id (rank among every value occurring in the source frame, in the
    fitted category list or in an injected cell)"""
    desc = case["frame"]
    out = {}
    for col in desc["cols"]:
        if col["stype"] not in ("categorical", "multicategorical"):
            continue
        vals = set()
        allcells = list(col["cells"])
        for call in case["calls"]:
            allcells += selected_cells(case, call, col)
        for cell in allcells:
            if cell is None:
                continue
            if col["stype"] == "categorical":
                vals.add(cell)
            else:
                vals.update(split_tokens(cell, col["sep"]))
        key = "COUNT" if col["stype"] == "categorical" else "MULTI_COUNT"
        cats = obs["stats"][col["name"]][key][0]
        vals.update(cats)
        out[col["name"]] = {v: i for i, v in enumerate(sorted(vals))}
    return out


def coq_raw(col, cell, rk, src_row):
    if col["stype"] == "categorical":
        return "RCat " + C.copt(cell, lambda v: C.cz(rk[v]))
    if col["stype"] == "multicategorical":
        return "RMulti " + C.copt(split_tokens(cell, col["sep"]), lambda l: C.clist(l, lambda v: C.cz(rk[v])))
    return f"ROpaque {C.cz(src_row)}"


def coq_enc(col, got, base_cell, src_row):
    """observed encoded cell as a model value; opaque cells are identified through the dataset's own TensorFrame"""
    if col["stype"] == "categorical":
        if isinstance(got, list) and len(got) == 1 and isinstance(got[0], int):
            return f"ECat {C.cz(got[0])}"
        return "EBad"
    if col["stype"] == "multicategorical":
        if isinstance(got, list) and all(isinstance(x, int) for x in got):
            return "EMulti " + C.clist(sorted(got), C.cz)
        return "EBad"
    return f"EOpaque {C.cz(src_row)}" if got == base_cell else "EBad"


def coq_session(case, obs, base, frames, by, rk):
    """frames: list of (call description, observed tf json).  Returns Coq list of (dataframe, observation)."""
    desc = case["frame"]
    items = []
    for call, tfj in frames:
        dfcols = []
        for name in desc["col_order"]:
            col = by[name]
            if (call["drop_target"] and name == desc["target"]) or name == call.get("drop_feature"):
                continue
            cells = selected_cells(case, call, col)
            dfcols.append(f"({C.cstr(name)}, {C.clist(list(zip(cells, call['rows'])), lambda p: coq_raw(col, p[0], rk.get(name), p[1]))})")
        if tfj is None:          # the implementation raised
            items.append(f"({C.clist(dfcols)}, None)")
            continue
        inj = {(i["col"], i["pos"]) for i in call["inject"]}
        # observation: names, features per (merged) stype in enum order, y
        names = "[" + "; ".join(f"({cst(s)}, {C.clist(tfj['names'][s], C.cstr)})" for s in ENUM if s in tfj["names"]) + "]"
        feats = []
        for s in ENUM:
            if s not in tfj["feats"]:
                continue
            cols = []
            for j, name in enumerate(tfj["names"].get(s, [])):
                col = by.get(name)
                if col is None:
                    return None
                encs = []
                for p, r in enumerate(call["rows"]):
                    got = feat_cell(tfj, s, p, j)
                    if (name, p) in inj or col["stype"] in ("categorical", "multicategorical"):
                        encs.append(coq_enc(col, got, None, r))
                    else:
                        bloc = locate(base, col)
                        bcell = feat_cell(base, bloc[0], r, bloc[1]) if bloc else None
                        encs.append(coq_enc(col, got, bcell, r))
                cols.append(C.clist(encs))
            feats.append(f"({cst(s)}, {C.clist(cols)})")
        if tfj["y"] is None:
            y = "None"
        else:
            tcol = by[desc["target"]]
            ys = []
            for p, r in enumerate(call["rows"]):
                ys.append(coq_enc(tcol, [tfj["y"][p]], [base["y"][r]] if base["y"] is not None else None, r))
            y = f"(Some {C.clist(ys)})"
        items.append(f"({C.clist(dfcols)}, Some (mk_obs {names} {C.clist(feats)} {y}))")
    return C.clist(items)


def coq_term(case, obs):
    if not obs.get("ok") or any(not rec["ok"] and not call.get("drop_feature")
                                for call, rec in zip(case["calls"], obs["calls"])):
        return None
    if obs["base"]["num_rows"] != case["frame"]["n"]:
        return "false"
    desc = case["frame"]
    by = {c["name"]: c for c in desc["cols"]}
    rk = value_ranks(case, obs)
    cts = C.clist([by[n] for n in desc["col_order"]], lambda c: f"({C.cstr(c['name'])}, {cst(c['stype'])})")
    target = C.copt(desc["target"], C.cstr)
    fits = []
    for n in desc["col_order"]:
        c = by[n]
        if c["stype"] == "categorical":
            cats = obs["stats"][n]["COUNT"][0]
            fits.append(f"({C.cstr(n)}, FitCat {C.clist(cats, lambda v: C.cz(rk[n][v]))})")
        elif c["stype"] == "multicategorical":
            cats = obs["stats"][n]["MULTI_COUNT"][0]
            fits.append(f"({C.cstr(n)}, FitMulti {C.clist(cats, lambda v: C.cz(rk[n][v]))})")
        else:
            fits.append(f"({C.cstr(n)}, FitOpaque)")
    whole = {"kind": "all", "rows": list(range(desc["n"])), "inject": [], "drop_target": False}
    # session 1: materialization is the converter's first call, then the user calls
    s1 = [(whole, obs["base"])] + [(call, rec["tf"] if rec["ok"] else None)
                                   for call, rec in zip(case["calls"], obs["calls"])]
    t1 = coq_session(case, obs, obs["base"], s1, by, rk)
    if t1 is None:
        return "false"
    terms = [f"session_ok {cts} {target} {C.clist(fits)} {t1}"]
    # session 2: a fresh dataset materialized with the supplied statistics
    if case["supplied"] and obs["supplied"]["ok"]:
        t2 = coq_session(case, obs, obs["base"], [(whole, obs["supplied"]["tf"])], by, rk)
        if t2 is None or obs["supplied"]["stats"] != obs["stats"]:
            return "false"
        terms.append(f"session_ok {cts} {target} {C.clist(fits)} {t2}")
    return "(" + " && ".join(terms) + ")"
