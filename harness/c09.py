"""C09 — Dataset row subsets and train/val/test splits select exactly the requested rows;
generate_random_split labels floor(n*ratio) rows, arranged by the seed alone."""
from __future__ import annotations

import json
import math
from fractions import Fraction

import os

from harness import common as C
from harness import ragged as R

# Clause-by-clause coverage of the property text (properties.jsonl, C09): oracle key(s) that judge the clause | generator
# kinds that exercise it.  stats()["forms"] counts every parameter form / entry point, sanity() fails closed on a zero.
CLAUSES = [
    "DataFrame and TensorFrame stay row-aligned after any sequence | misaligned:<op>, misaligned:read_tf | every "
    "deriving step (sel/fslice/shuffle/get_split/split) + read_tf, on every node of the tree; materialize in 7 forms "
    "(plain, device kw/str/positional, user col_stats, cache save, cache load)",
    "row selection returns exactly the requested rows: integer, list, slice, fractional slice, tensor | wrong-rows:sel(int|"
    "list|range|slice|tensor|mask), raises:sel(*), no-raise:sel(*) | sel with R.gen_index (int, list, range, slice, "
    "int64/int32 index tensor, bool mask; in- and out-of-range, negative, empty, repeated) through dataset[...], "
    "index_select(ix), index_select(index=ix)",
    "a shuffle is the reported permutation | wrong-rows:shuffle, not-a-permutation:shuffle, no-raise/raises:shuffle | "
    "shuffle(return_perm=True) / shuffle(True) (reported perm) and shuffle() / shuffle(return_perm=False) (inferred perm)",
    "a fractional slice cuts at round(fraction x length) | wrong-rows:fslice, raises:fslice, no-raise:fslice | fslice with "
    "float/int/None bounds on either side, steps None/1/2/3/0/-1, FLOATS grid incl. ties, negative and > 1 fractions",
    "train/val/test subsets = rows with split value 0/1/2, in order, regardless of earlier shuffles/selections and of the "
    "index labels | wrong-rows:get_split, wrong-rows:split, raises:get_split, raises:split | get_split(name) / "
    "get_split(split=name) / split() on any node of the tree, 8 label kinds + pandas' own RangeIndex, split column dtypes "
    "int64/int32/uint8/float64/object/category, empty splits",
    "derived datasets never alter the dataset they came from | source-modified:<op> | snapshot of EVERY existing dataset "
    "before/after EVERY step",
    "column selection always keeps the target | wrong-cols:col_select[*], target-dropped | col_select(list) / "
    "col_select(cols=list) / col_select(str) / dataset[list] / dataset[str], with/without target in the request, "
    "repeated names, unknown names",
    "column selection only before materialization | no-raise:col_select[*], raises:col_select[*] | col_select on "
    "materialized nodes (all five entry points) and in the pre-materialization phase",
    "TensorFrame, statistics and row selection only after materialization | no-raise:read_tf, no-raise:read_stats, "
    "no-raise:read_conv, no-raise:sel(*)/fslice/shuffle/get_split/split, raises:read_* | pre-materialization phase: "
    "tensor_frame, col_stats, convert_to_tensor_frame and every row operation on unmaterialized nodes",
    "generator labels floor(n*tr) train, floor(n*vr) val, remainder test (val when no test split) | wrong-counts:test, "
    "wrong-counts:notest, wrong-length:*, wrong-labels:* | grid n=0..60,100 x 13 ratio pairs + random points; call forms "
    "keyword / positional / mixed / defaults omitted (0.8, 0.1, True) / numpy scalar arguments",
    "arranged in an order determined solely by the seed, under any prior global RNG state | not-seed-determined | every "
    "point is called under two different prior states of the global numpy RNG",
    "rejects ratios that are not positive / leave no room / do not exactly fill | no-reject:test, no-reject:notest, "
    "rejects-valid:* | ratios <= 0 (incl. -0.0), sums >= 1 with test, sums != 1 without test (0.7+0.3, 0.29+0.71, ...)",
]

# Boundaries of every dimension in QUANTIFIED OVER; each is hit DELIBERATELY in every run by boundary_cases() (tag "b"),
# counted in stats()["boundaries"] and required by sanity().
BOUNDARIES = [
    "dataset length: 0, 1, 2 rows and the maximum 12 | b=int-edges/list-edges/... on n in {0,1,2,5}, max-size",
    "int index: 0, -1, n-1, -n (last valid), n and -n-1 (first invalid) | int-edges",
    "list / tensor index: empty, one element, all rows, all reversed, the same row twice, [-n, n-1], first invalid n / "
    "-n-1; int32 and int64 tensors | list-edges, tensor-edges",
    "slice: start == stop, stop == n / n+1 / n-1, start == -n / -n-1, step == n-1 / n / n+1, start > stop | slice-edges",
    "range: empty, range(n), range(n+1) (one past), reversed full, step == n | range-edges",
    "bool mask: all False, all True, exactly one True at the first / last position, length n-1 / n+1 | mask-edges",
    "fractional bound: f*n exactly on a tie (.5: 0.5*1, 0.5*3, 0.5*5, 0.25*2, 0.75*2 - half-even both ways), one ulp "
    "below / above the tie, f*n an exact integer, f == 0.0 / 1.0, f < 0, f > 1, both cuts equal, start cut > stop cut "
    "| float-ties (every n in 0..6)",
    "an earlier EMPTY result, then every operation on it | empty-then-ops",
    "shuffle of 0 / 1 / 2 rows; the same parent shuffled twice; a shuffle of a shuffle | shuffle-small",
    "split assignment: all rows in one split (each of 0/1/2), exactly one row per split, the split column sorted "
    "ascending / descending, the wanted value only at the first / only at the last row; split lookup on a split result "
    "(train of train = all, val of train = empty) | split-shapes",
    "the same row repeated in a subset, then split lookups | dup-rows-then-split",
    "index labels: positions shifted by exactly one (1..n), reversed positions, all labels equal, labels that are column "
    "names, label == n, all negative | label-edges",
    "the same object used twice: materialize twice, split() twice, the same get_split twice, the same col_select twice "
    "| repeat-same-op",
    "illegal orders on 0- and 1-row datasets, every gated entry point | gates-on-small",
    "generator length 0 / 1 / 2 | gen-n-small",
    "ratio sum exactly 1.0 in double (0.6+0.4, 0.7+0.3, 1.0+5e-324) with and without test split; one ulp below / above "
    "| gen-sum-one, gen-sum-ulp",
    "n*ratio an exact integer, one rounding below it (100*0.29), above it (3*0.1) | gen-product-edge",
    "floor(n*tr)+floor(n*vr) == n although tr+vr < 1 (empty test block) | gen-empty-test-block",
    "smallest positive ratio 5e-324, largest ratio below 1, 0.0 / -0.0 / -5e-324 | gen-ratio-extremes",
    "seed 0 and 2**32-1; the same point twice | gen-seed-edges",
]
REQUIRED_BOUNDARIES = ["int-edges", "list-edges", "tensor-edges", "slice-edges", "range-edges", "mask-edges",
                       "float-ties", "empty-then-ops", "shuffle-small", "split-shapes", "dup-rows-then-split",
                       "label-edges", "repeat-same-op", "gates-on-small", "max-size", "gen-n-small", "gen-sum-one",
                       "gen-sum-ulp", "gen-product-edge", "gen-empty-test-block", "gen-ratio-extremes",
                       "gen-seed-edges"]

PROP = "C09"
HEADER = ("Require Import PF.Lib.PySlice PF.Lib.FloatInt PF.Model.Dataset PF.Model.Split "
          "PF.Model.DatasetRun PF.Model.DatasetHeap PF.Model.NpShuffle.")
MODEL_TARGETS = ["Model/DatasetRun.vo", "Model/Split.vo", "Model/DatasetHeap.vo", "Model/NpShuffle.vo"]
SHARD = 100
ALLOWED_AXIOMS = ()   # the header line "Axioms:" of Print Assumptions; the entries are PrimFloat./PrimInt63. primitives
RULE = ("(a) histories: a Dataset of 0-12 rows (row-id feature columns, optional target, split column with an "
        "arbitrary 0/1/2 assignment incl. empty splits; RangeIndex / offset / permuted / string / duplicated / sparse "
        "labels), an optional pre-materialization phase (col_select, illegal reads and selections), materialize, then "
        "1-6 operations applied as a tree to any earlier dataset; (b) generate_random_split points (n, train_ratio, "
        "val_ratio, seed, include_test, prior RNG state).  distinct = distinct (label kind, n, sequence of "
        "(operation, index kind, ok/err, result length)) resp. (n, ratios, include_test, seed); non-trivial = some "
        "operation returned a non-empty dataset or an expected raise, resp. n > 0 or a rejection")
TRUSTED = [
    "Coq 8.16.1 kernel + vm_compute (no native_compute); primitive floats / Uint63 (kernel primitives) for "
    "round(f*len) and int(length*ratio)",
    "hand-written models coq/Model/Dataset.v (dataset.py row-subset API), coq/Model/DatasetHeap.v (the Dataset objects "
    "with their shared statistics dict) and coq/Model/Split.v "
    "(generate_random_split), tied to /repo by this run's observational correspondence; SPLIT_TO_NUM comes from "
    "Gen/Tables.v (regenerated)",
    "modelled primitives: df.iloc / TensorFrame.__getitem__ positional semantics (Lib/PySlice.v py_positions), "
    "IEEE double multiply / compare, Python round / int on a double, the converter keeps row order",
    "section hypothesis left: torch.randperm(n) returns a permutation of 0..n-1 (checked on every shuffle).  numpy's "
    "seeded shuffle is no longer a hypothesis: coq/Model/NpShuffle.v models np.random.shuffle (legacy Fisher-Yates loop "
    "+ random_interval's mask / rejection rule) over the raw MT19937 next_uint32() word stream, proves that it permutes "
    "for every stream and that the arrangement ignores the values, and the correspondence recomputes "
    "generate_random_split's output from the word stream RandomState(seed).randint(0, 2**32, dtype=uint32) on a third of "
    "the accepted points with n <= 64 and on every boundary point (split_case_fy); the remaining black box is the "
    "Mersenne-Twister word stream itself and that np.random.seed(seed) resets it regardless of the prior state "
    "(observed on every point under two prior states)",
    "harness/c09.py (generator, row-id bookkeeping oracle in plain Python lists, Coq literal printer); "
    "harness/ragged.py ref_positions (Python list index semantics)",
]
ASSUMPTIONS = [
    "row identity is read from numerical feature / target columns carrying the row id (exact in float32)",
    "col_stats contents are not part of this property (only the materialization gate is observed)",
    "materialize() mutates and returns its receiver; it is modelled as an in-place update of the store entry",
    "asserts are enabled (python is not run with -O)",
    "index expressions whose requested rows the property does not define - a boolean mask whose length is not the number "
    "of rows (incl. an empty mask), a slice step <= 0, a column selection naming a column that does not exist - may "
    "raise or return any dataset that keeps the invariant (aligned, every row a row of its source with its own label and "
    "split value, source unchanged); they are compared with the Coq model only when the implementation raises.  "
    "Out-of-range integers / list, range and tensor entries name a row that does not exist: a raise is demanded",
    "float slice bounds and ratios are finite doubles; lengths are far below 2^53",
    "OUTSIDE the quantifier (documented limitation, not generated): uint8 tensors as an index.  torch treats a uint8 "
    "tensor as a (deprecated) byte mask while df.iloc reads it as positions, so d[torch.tensor([1,0,1,0,1], "
    "dtype=torch.uint8)] de-aligns DataFrame and TensorFrame; the property's 'tensor' means an integer index tensor "
    "or a boolean mask, which is what the generator draws (torch.long / torch.bool)",
    "'derived datasets never alter the dataset they came from': Model/DatasetHeap.v represents the one object the "
    "anchored code shares between copy.copy copies AND mutates in place (the _col_stats dict) as a heap cell, proves "
    "that every operation except materialize() leaves every existing object and dict untouched, and gives "
    "materialize() its exact footprint (materialize_footprint: only the receiver, and - when statistics are computed "
    "in place - new keys in the dict its col_select relatives share).  That heap model is compared with the real "
    "objects after EVERY step (col_stats keys of EVERY dataset, in dict order).  Rows, TensorFrame cells, columns and "
    "flags are values in the model (re-bound on the copy in the code): that no code path mutates THEM in place is "
    "OBSERVED by the snapshots of every existing dataset (index labels, every DataFrame id column, split values, "
    "columns, col_to_stype keys, target_col, split_col, is_materialized, len, every TensorFrame column and y) before "
    "and after every operation of every history.  materialize() adding keys to a relative's col_stats is the "
    "modelled aliasing (tallied as input_distribution.col_stats_aliasing_seen), not a violation: the property speaks "
    "of derived datasets altering their source",
    "that the DataFrame's index labels are never consulted holds of the model by construction (no model function "
    "reads a label); for the code it is observed under eight label kinds",
    "numpy's arrangement depends on (seed, length) only: np_shuffle_arrangement_ignores_values proves the independence "
    "from the values for the modelled algorithm; that seeding erases the prior global state is observed on every point",
    "materialize() is modelled as succeeding unless a col_to_stype column names two frame columns (repeated name in "
    "col_select); other materialization failures are C01's subject.  col_select appending the target to the "
    "CALLER's list is not modelled (the harness passes fresh lists)",
]

SPLIT_NUM = {"train": 0, "val": 1, "test": 2}     # the property statement's own constants
ID_COLS = {"rid": 0, "f2": 200, "y": 100}        # column name -> offset added to the row id
DERIVING = ("sel", "fslice", "shuffle", "get_split", "col_select")
READS = ("read_tf", "read_stats", "read_conv")
FLOATS = [0.3, 0.25, 0.75, 0.5, 0.1, 0.9, 0.7, 0.8, 1 / 3, 2 / 3, 0.0, 1.0, 0.05, 0.95, 0.45, 0.55, 0.35, 0.65,
          0.15, 0.85, 0.2, 0.4, 0.6, 1.5, -0.25, -0.5, -0.3, 0.125, 0.29, 0.99, 1e-9]


# =========================================================================== helpers
def fhex(x: float) -> str:
    return float(x).hex()


def fparts(x: float):
    """exact (negative?, M, e) with |x| = M * 2**e, 0 <= M < 2**53"""
    neg = math.copysign(1.0, x) < 0
    m, e = math.frexp(abs(x))
    M = int(m * (1 << 53))
    assert Fraction(M) * Fraction(2) ** (e - 53) == Fraction(abs(x)), x
    return neg, M, e - 53


def coq_float(h: str) -> str:
    neg, M, e = fparts(float.fromhex(h))
    return f"(mk_float {C.cbool(neg)} {C.cz(M)} {C.cz(e)})"


def ref_round(x: float) -> int:
    """round-half-even of the exact value of the double x (independent of builtins.round)"""
    fr = Fraction(x)
    fl = fr.numerator // fr.denominator
    d = fr - fl
    if d > Fraction(1, 2) or (d == Fraction(1, 2) and fl % 2 == 1):
        fl += 1
    return fl


def ref_floor(x: float) -> int:
    fr = Fraction(x)
    return fr.numerator // fr.denominator


def bound_py(b):
    if b is None:
        return None
    return b[1] if b[0] == "i" else float.fromhex(b[1])


# =========================================================================== reference bookkeeping
def root_state(case):
    n = len(case["labels"])
    cols = ["rid", "f2"] + (["y"] if case["target"] else [])
    return {"rows": [[case["labels"][i], i, case["splits"][i]] for i in range(n)], "mat": False,
            "cols": cols, "dfcols": cols + ["s"], "target": "y" if case["target"] else None, "has_split": True}


def ref_apply(st, step, perm=None):
    """The property's demands for one operation on the dataset described by `st`
    (plain lists).  Returns a list with one expectation per new dataset:
    ("node", state) | ("err", why) | ("either", state) | ("free", parent state, why) | ("freecols", state, why).
    "free": the property does not define the requested rows (a boolean mask whose length is not the number of rows, a
    non-positive slice step, a non-finite bound): a raise, or any derived dataset that keeps the invariant.
    "freecols": a column selection naming a column that does not exist."""
    FREE = ("mask length", "non-positive step")
    o = step["o"]
    n = len(st["rows"])

    def sub(pos):
        return dict(st, rows=[st["rows"][i] for i in pos])

    if o in ("sel", "fslice", "shuffle", "get_split", "split"):
        k = 3 if o == "split" else 1
        if not st["mat"]:
            return [("err", "row selection requires materialization")] * k
    if o == "sel":
        try:
            return [("node", sub(R.ref_positions(step["idx"], n)))]
        except R.RefErr as ex:
            # out-of-range integers / list entries name a row that does not exist: a raise is demanded
            return [("free", st, str(ex)) if str(ex) in FREE else ("err", str(ex))]
    if o == "fslice":
        cut = []
        for b in (step["a"], step["b"]):
            v = bound_py(b)
            if isinstance(v, float):
                if math.isnan(v) or math.isinf(v):
                    return [("free", st, "non-finite bound")]
                v = ref_round(v * float(n))
            cut.append(v)
        if step["s"] is not None and step["s"] <= 0:
            return [("free", st, "non-positive step")]
        return [("node", sub(list(range(n))[slice(cut[0], cut[1], step["s"])]))]
    if o == "shuffle":
        if perm is None:
            return [("perm", st)]
        if sorted(perm) != list(range(n)):
            return [("err", "reported permutation is not a permutation of range(len)")]
        return [("node", sub(perm))]
    if o in ("get_split", "split"):
        names = ["train", "val", "test"] if o == "split" else [step["name"]]
        out = []
        for nm in names:
            want = sub([i for i, r in enumerate(st["rows"]) if r[2] == SPLIT_NUM[nm]])
            out.append(("node", want) if st["has_split"] else ("either", want))
        return out
    if o == "col_select":
        if st["mat"]:
            return [("err", "col_select after materialization")]
        cols = list(step["cols"])
        if any(c not in st["cols"] for c in cols):
            return [("freecols", st, "unknown column")]
        if st["target"] is not None and st["target"] not in cols:
            cols = cols + [st["target"]]
        keys = [c for i, c in enumerate(cols) if c not in cols[:i]]      # a dict keeps a repeated name once
        return [("node", dict(st, cols=keys, dfcols=list(cols), has_split=False,
                              dup=st.get("dup", False) or len(keys) != len(cols)))]
    raise ValueError(o)


# =========================================================================== generation
def gen_labels(rng, n):
    kind = rng.wpick([(3, "range"), (2, "offset"), (4, "permuted"), (2, "string"), (2, "dup_int"), (1, "dup_str"),
                      (2, "sparse"), (1, "negative")])
    if kind == "range":
        return kind, list(range(n))
    if kind == "offset":
        k = rng.randint(1, 20)
        return kind, [k + i for i in range(n)]
    if kind == "permuted":
        l = list(range(n))
        rng.shuffle(l)
        return kind, l
    if kind == "string":
        l = [f"r{i}" for i in range(n)]
        rng.shuffle(l)
        return kind, l
    if kind == "dup_int":
        return kind, [rng.randint(0, max(0, n // 2)) for _ in range(n)]
    if kind == "dup_str":
        return kind, [rng.pick(["a", "b", "rid", "y"]) for _ in range(n)]
    if kind == "sparse":
        return kind, rng.sample(range(0, 1000), n)
    l = [-(i + 1) for i in range(n)]
    rng.shuffle(l)
    return kind, l


def gen_bound(rng, n):
    r = rng.random()
    if r < 0.2:
        return None
    if r < 0.8:
        return ["f", fhex(rng.pick(FLOATS) if rng.chance(0.8) else rng.randint(-20, 140) / 100.0)]
    return ["i", rng.randint(-n - 2, n + 2)]


def gen_row_op(rng, st, p, clean):
    n = len(st["rows"])
    kind = rng.wpick([(30, "sel"), (16, "fslice"), (16, "shuffle"), (16, "get_split"), (6, "split")])
    if kind == "sel":
        idx = R.gen_index(rng, n, allow_bad=not clean)
        if idx["t"] == "tensor" and rng.chance(0.35):
            idx["dt"] = "int32"                    # torch accepts int32 index tensors as well
        return {"o": "sel", "p": p, "via": rng.pick(["getitem", "index_select", "index_select_kw"]), "idx": idx}
    if kind == "fslice":
        a, b = gen_bound(rng, n), gen_bound(rng, n)
        if a is not None and b is not None and a[0] == "i" and b[0] == "i":
            b = ["f", fhex(rng.pick(FLOATS))]
        s = rng.wpick([(8, None), (2, 1), (2, 2), (1, 3)]) if clean else rng.pick([None, 1, 2, 0, -1])
        return {"o": "fslice", "p": p, "via": rng.pick(["getitem", "getitem", "index_select", "index_select_kw"]),
                "a": a, "b": b, "s": s}
    if kind == "shuffle":
        form = rng.wpick([(4, "kw_true"), (2, "pos_true"), (2, "default"), (1, "kw_false")])
        return {"o": "shuffle", "p": p, "ret": form in ("kw_true", "pos_true"), "form": form,
                "tseed": rng.randint(0, 10 ** 6)}
    if kind == "get_split":
        return {"o": "get_split", "p": p, "name": rng.pick(["train", "val", "test"]), "kw": rng.chance(0.3)}
    return {"o": "split", "p": p}


def gen_col_select(rng, st, p):
    feats = [c for c in ("rid", "f2") if c in st["cols"]] or ["rid"]
    r = rng.random()
    if r < 0.08:
        cols = [rng.pick(["zz", "s"])]
    elif r < 0.5:
        cols = [rng.pick(feats)]
    else:
        cols = list(feats)
        rng.shuffle(cols)
        if st["target"] and rng.chance(0.4):
            cols.insert(rng.randint(0, len(cols)), st["target"])
    if rng.chance(0.12) and cols[0] in st["cols"]:
        cols.insert(rng.randint(0, len(cols)), rng.pick(cols))      # a repeated name
    via = rng.pick(["method", "getitem", "method_kw"]) if len(cols) != 1 else \
        rng.pick(["method", "getitem", "getitem_str", "method_str", "method_kw"])
    return {"o": "col_select", "p": p, "via": via, "cols": cols}


MAT_FORMS = ("plain", "device_none_kw", "device_str", "device_pos", "user_stats", "cache_save", "cache_load")


def gen_mat_form(rng):
    """materialize(device=None, path=None, col_stats=None): every parameter away from its default"""
    return rng.wpick([(6, "plain"), (1, "device_none_kw"), (1, "device_str"), (1, "device_pos"), (1, "user_stats"),
                      (1, "cache_save"), (1, "cache_load")])


def gen_hist(rng, tier):
    n = rng.wpick([(1, 0), (1, 1), (2, 2), (3, 3), (3, 4), (3, 5), (3, 6), (2, 7), (2, 8), (1, 9), (1, 10), (1, 11), (1, 12)])
    lkind, labels = gen_labels(rng, n)
    if rng.chance(0.25):
        vals = rng.pick([[0], [1], [2], [0, 1], [0, 2], [1, 2]])     # empty splits
    else:
        vals = [0, 0, 1, 2]
    splits = [rng.pick(vals) for _ in range(n)]
    case = {"k": "hist", "lkind": lkind, "labels": labels, "splits": splits, "target": rng.chance(0.7),
            # representations pandas / the user choose: the split column's dtype; a genuine RangeIndex
            "sdtype": rng.wpick([(4, "int64"), (1, "int32"), (1, "uint8"), (1, "float64"), (1, "object"), (1, "category")]),
            "default_index": lkind == "range" and rng.chance(0.6)}
    prog, ref = [], [root_state(case)]

    def push(step, fake_perm=True):
        prog.append(step)
        o = step["o"]
        par = ref[step["p"]] if step["p"] < len(ref) else None
        if o == "mat":
            if par is not None and not par.get("dup"):
                par["mat"] = True       # (with a repeated column name materialize raises)
            return
        if o in READS:
            return
        k = 3 if o == "split" else 1
        if par is None:
            ref.extend([None] * k)
            return
        exp = ref_apply(par, step, perm=list(range(len(par["rows"]))))
        for e in exp:
            ref.append(dict(e[1], rows=list(e[1]["rows"])) if e[0] == "node" else None)

    cur = 0
    if rng.chance(0.3):           # pre-materialization phase, incl. the illegal orders
        for _ in range(rng.randint(1, 3)):
            r = rng.random()
            if r < 0.45:
                st = gen_col_select(rng, ref[cur], cur)
                push(st)
                if ref[-1] is not None and not ref[-1].get("dup") and rng.chance(0.8):
                    cur = len(ref) - 1
            elif r < 0.57:
                push({"o": "read_tf", "p": cur})
            elif r < 0.64:
                push({"o": "read_stats", "p": cur})
            elif r < 0.7:
                push({"o": "read_conv", "p": cur})
            else:
                push(gen_row_op(rng, dict(ref[cur], mat=True), cur, True))
    push({"o": "mat", "p": cur, "form": gen_mat_form(rng)})
    L = rng.wpick([(3, 1), (4, 2), (4, 3), (3, 4), (2, 5), (2, 6)]) if tier == "quick" else rng.randint(1, 8)
    for _ in range(L):
        live = [i for i, s in enumerate(ref) if s is not None and s["mat"]]
        anyn = [i for i, s in enumerate(ref) if s is not None]
        if rng.chance(0.03):
            p = rng.randrange(len(ref))            # possibly a failed node
        elif rng.chance(0.6):
            p = live[-1]
        else:
            p = rng.pick(live)
        st = ref[p]
        r = rng.random()
        unmat = [i for i in anyn if not ref[i]["mat"]]
        if unmat and rng.chance(0.15):
            # a col_select relative / the source materialized later: the shared statistics dict
            push({"o": "mat", "p": rng.pick(unmat), "form": gen_mat_form(rng)})
        elif st is None:
            push({"o": "get_split", "p": p, "name": "train"})
        elif r < 0.05:
            push(gen_col_select(rng, st, p))       # illegal after materialization
        elif r < 0.09:
            push({"o": "read_tf", "p": p})
        elif r < 0.11:
            push({"o": "read_stats", "p": p})
        elif r < 0.12:
            push({"o": "read_conv", "p": p})
        elif r < 0.15:
            push({"o": "mat", "p": rng.pick(anyn), "form": gen_mat_form(rng)})
        else:
            push(gen_row_op(rng, st, p, rng.chance(0.8)))
    case["prog"] = prog
    return case


RATIOS = [0.8, 0.1, 0.29, 0.7, 0.3, 0.5, 0.6, 0.4, 1 / 3, 2 / 3, 0.25, 0.75, 0.15, 0.05, 0.9, 0.99, 0.01, 0.2,
          0.35, 0.65, 0.45, 0.55, 0.125, 0.875, 0.57, 0.43, 0.07, 0.93, 0.0, -0.1, 1.0, 1.2, 1e-9, -0.0]


def gen_split_case(rng, n=None, tr=None, vr=None, it=None):
    if n is None:
        n = rng.randint(0, 60) if rng.chance(0.93) else rng.pick([100, 1000, 64, 128])
    if it is None:
        it = rng.chance(0.6)
    if tr is None:
        r = rng.random()
        if r < 0.55:
            tr = rng.pick(RATIOS)
        elif r < 0.8:
            m = rng.randint(2, 12)
            tr = rng.randint(1, m - 1) / m
        else:
            tr = rng.randint(1, 99) / 100.0
    if vr is None:
        r = rng.random()
        if not it and r < 0.75:
            vr = 1.0 - tr                       # exactly filling (when the float sum says so)
            if rng.chance(0.3):
                vr = round(1 - tr, 2)
        elif it and r < 0.55 and any(0 < v and tr + v < 1 for v in RATIOS):
            vr = rng.pick([v for v in RATIOS if 0 < v and tr + v < 1])
        elif r < 0.65:
            vr = rng.pick(RATIOS)
        elif r < 0.8:
            m = rng.randint(2, 12)
            vr = rng.randint(1, m - 1) / m
        else:
            vr = rng.randint(1, 99) / 100.0
    form = rng.wpick([(4, "kw"), (2, "pos"), (2, "mixed")])
    if tr == 0.8 and (vr == 0.1 or rng.chance(0.5)) and it:
        form = "defaults"                      # leave out every argument that equals its default
    return {"n": n, "tr": fhex(tr), "vr": fhex(vr), "include_test": it, "form": form, "np": rng.chance(0.1),
            "seed": rng.pick([0, 1, 42, 2 ** 32 - 1]) if rng.chance(0.3) else rng.randint(0, 2 ** 32 - 1),
            "prior": rng.randint(0, 10 ** 6)}


def gen_split_grid(rng):
    """the classic points: every n in 0..60 x a fixed ratio grid x include_test"""
    out = []
    grid = [(0.8, 0.1, True), (0.29, 0.7, True), (0.7, 0.1, True), (1 / 3, 1 / 3, True), (0.5, 0.5, False),
            (0.6, 0.4, False), (0.7, 0.3, False), (0.29, 0.71, False), (0.5, 0.5, True), (0.9, 0.2, True),
            (0.0, 0.5, True), (0.5, -0.1, True), (0.5, 0.4, False)]
    for n in list(range(0, 61)) + [100]:
        for tr, vr, it in grid:
            out.append(gen_split_case(rng, n=n, tr=tr, vr=vr, it=it))
    return out


def boundary_cases():
    """The deliberate boundary stream (see BOUNDARIES): deterministic, part of every run."""
    out = []

    def H(b, labels, splits, steps, target=False, pre=(), **kw):
        prog = list(pre) + [{"o": "mat", "p": 0, "form": "plain"}] + steps
        out.append(dict({"k": "hist", "b": b, "lkind": "boundary", "labels": list(labels), "splits": list(splits),
                         "target": target, "prog": prog}, **kw))

    def sel(idx, p=0, via="getitem"):
        return {"o": "sel", "p": p, "via": via, "idx": idx}

    def I(i):
        return {"t": "int", "i": i}

    def L(l, t="list", **kw):
        return dict({"t": t, "l": list(l)}, **kw)

    def S(a, b, st=None):
        return {"t": "slice", "a": a, "b": b, "s": st}

    def Rg(a, b, st):
        return {"t": "range", "a": a, "b": b, "s": st}

    def F(a, b, p=0, st=None, via="getitem"):
        return {"o": "fslice", "p": p, "via": via, "s": st,
                "a": None if a is None else ["f", fhex(a)], "b": None if b is None else ["f", fhex(b)]}

    for n in (0, 1, 2, 5):
        labels = [i + 1 for i in range(n)]           # positions shifted by exactly one
        splits = [i % 3 for i in range(n)]
        H("int-edges", labels, splits, [sel(I(i), via=v) for i in (0, -1, n - 1, -n, n, -n - 1)
                                        for v in ("getitem", "index_select")][:12])
        full = list(range(n))
        H("list-edges", labels, splits,
          [sel(L(l)) for l in ([], full[:1], full[-1:], full, full[::-1], [0, 0] if n else [], [-n, n - 1] if n else [],
                               [n], [-n - 1], full + full)])
        H("tensor-edges", labels, splits,
          [sel(L(l, "tensor", **d), via="index_select") for l in ([], full, full[::-1], [0, 0] if n else [], [-1] if n else [], [n])
           for d in ({}, {"dt": "int32"})])
        H("slice-edges", labels, splits,
          [sel(S(*x)) for x in ((0, 0), (n, n), (0, n), (0, n + 1), (0, n - 1), (n - 1, n), (-n, None), (-n - 1, None),
                                (None, -n), (1, 0), (None, None, max(n, 1)), (None, None, n + 1),
                                (None, None, max(n - 1, 1)), (None, None, 0), (None, None, -1))])
        H("range-edges", labels, splits,
          [sel(Rg(*x)) for x in ((0, 0, 1), (0, n, 1), (0, n + 1, 1), (n - 1, -1, -1), (max(n - 1, 0), n, 1),
                                 (0, n, max(n, 1)), (n, 0, -1))])
        H("mask-edges", labels, splits,
          [sel({"t": "mask", "m": m}, via="index_select") for m in
           ([False] * n, [True] * n, [True] + [False] * (n - 1) if n else [], [False] * (n - 1) + [True] if n else [],
            [True] * max(n - 1, 0), [True] * (n + 1))])
    half_dn, half_up = math.nextafter(0.5, 0.0), math.nextafter(0.5, 1.0)
    for n in range(0, 7):
        labels = list(range(n))[::-1]
        steps = []
        for f in (0.5, 0.25, 0.75, half_dn, half_up, 0.0, 1.0, -0.5, 1.5, 1 / 3):
            steps.append(F(None, f))
            steps.append(F(f, None, via="index_select"))
        steps += [F(0.5, 0.5), F(0.75, 0.25), F(0.25, 0.75, st=2), F(0.0, 1.0)]
        H("float-ties", labels, [i % 3 for i in range(n)], steps)
    H("empty-then-ops", [3, 4, 5], [0, 1, 2],
      [sel(L([])), {"o": "shuffle", "p": 1, "ret": True, "form": "kw_true", "tseed": 1}, {"o": "split", "p": 1},
       F(None, 0.5, p=1), sel(L([]), p=1), sel(I(0), p=1), sel({"t": "mask", "m": []}, p=1), {"o": "read_tf", "p": 1},
       sel(S(None, None), p=1), {"o": "get_split", "p": 3, "name": "train"}, {"o": "shuffle", "p": 2, "ret": False,
                                                                           "form": "default", "tseed": 2}])
    for n in (0, 1, 2):
        H("shuffle-small", [i + 1 for i in range(n)], [i % 3 for i in range(n)],
          [{"o": "shuffle", "p": 0, "ret": True, "form": "kw_true", "tseed": 1},
           {"o": "shuffle", "p": 0, "ret": True, "form": "pos_true", "tseed": 2},
           {"o": "shuffle", "p": 1, "ret": False, "form": "default", "tseed": 3},
           {"o": "shuffle", "p": 3, "ret": True, "form": "kw_true", "tseed": 1}, {"o": "split", "p": 4}])
    for splits in ([0] * 4, [1] * 4, [2] * 4, [0, 1, 2], [2, 1, 0], [0, 0, 1, 1, 2, 2], [2, 2, 1, 1, 0, 0],
                   [1, 0, 0, 0], [0, 0, 0, 1], [2, 0, 0, 2], [1], [2], []):
        n = len(splits)
        H("split-shapes", [n - i for i in range(n)], splits,
          [{"o": "split", "p": 0}, {"o": "get_split", "p": 1, "name": "train"}, {"o": "get_split", "p": 1, "name": "val"},
           {"o": "split", "p": 3}, {"o": "get_split", "p": 0, "name": "test", "kw": True},
           {"o": "shuffle", "p": 0, "ret": True, "form": "kw_true", "tseed": 5}, {"o": "split", "p": 10}],
          sdtype=["int64", "uint8", "float64", "category"][n % 4])
    H("dup-rows-then-split", [5, 6, 7], [0, 1, 0],
      [sel(L([2, 2, 0, 0, 1, 2])), {"o": "split", "p": 1}, sel(L([0, 0], "tensor"), p=2),
       {"o": "get_split", "p": 5, "name": "train"}])
    for labels in ([1, 2, 3, 4], [3, 2, 1, 0], [7, 7, 7, 7], ["rid", "y", "s", "f2"], [4, 4, 4, 4], [-1, -2, -3, -4],
                   [0, 1, 2, 3]):
        H("label-edges", labels, [0, 1, 2, 0],
          [{"o": "split", "p": 0}, {"o": "shuffle", "p": 0, "ret": True, "form": "kw_true", "tseed": 3},
           {"o": "split", "p": 4}, sel(L([3, 0]), p=4), {"o": "get_split", "p": 8, "name": "train"}, sel(I(-1), p=0)],
          target=True, default_index=labels == [0, 1, 2, 3])
    H("repeat-same-op", [2, 0, 1], [0, 1, 0],
      [{"o": "mat", "p": 0, "form": "device_none_kw"}, {"o": "split", "p": 0}, {"o": "split", "p": 0},
       {"o": "get_split", "p": 0, "name": "train"}, {"o": "get_split", "p": 0, "name": "train"},
       {"o": "mat", "p": 1, "form": "plain"}, {"o": "mat", "p": 2, "form": "plain"},
       {"o": "mat", "p": 1, "form": "cache_save"}, {"o": "sel", "p": 1, "via": "getitem", "idx": {"t": "list", "l": [1, 1]}},
       {"o": "sel", "p": 2, "via": "getitem", "idx": {"t": "list", "l": [1, 1]}}],
      target=True, pre=[{"o": "col_select", "p": 0, "via": "method", "cols": ["rid"]},
                        {"o": "col_select", "p": 0, "via": "method", "cols": ["rid"]}])
    # (in repeat-same-op the root is materialized first by H's own "mat" step, then again, then the two col_select twins)
    for n in (0, 1):
        pre = [{"o": "read_tf", "p": 0}, {"o": "read_stats", "p": 0}, {"o": "read_conv", "p": 0}, sel(L([])),
               sel(S(None, None), via="index_select_kw"), {"o": "shuffle", "p": 0, "ret": True, "form": "kw_true", "tseed": 1},
               {"o": "get_split", "p": 0, "name": "train"}, {"o": "split", "p": 0}, F(None, 0.5)]
        H("gates-on-small", list(range(n)), [0] * n,
          [{"o": "col_select", "p": 0, "via": v, "cols": ["rid"]} for v in
           ("method", "method_kw", "method_str", "getitem", "getitem_str")] + [{"o": "read_tf", "p": 0},
                                                                              {"o": "read_conv", "p": 0}],
          target=True, pre=pre)
    H("max-size", list(range(11, -1, -1)), [i % 3 for i in range(12)],
      [{"o": "shuffle", "p": 0, "ret": True, "form": "kw_true", "tseed": 9}, sel(S(1, None, 1), p=1),
       F(0.25, 0.75, p=2), sel(L([4, 0, 0, -1], "tensor"), p=3), {"o": "split", "p": 4}, {"o": "split", "p": 2},
       sel(Rg(11, -1, -1), p=0), {"o": "get_split", "p": 11, "name": "val"}], target=True)

    pts = []

    def P(b, n, tr, vr, it, seed=7, form="kw"):
        pts.append({"b": b, "n": n, "tr": fhex(tr), "vr": fhex(vr), "include_test": it, "form": form, "np": False,
                    "seed": seed, "prior": 11 * len(pts) + 3})

    tiny, below1 = 5e-324, math.nextafter(1.0, 0.0)
    for n in (0, 1, 2):
        for tr, vr, it in ((0.8, 0.1, True), (0.5, 0.25, True), (1 / 3, 1 / 3, True), (0.5, 0.5, False), (0.6, 0.4, False),
                           (0.29, 0.7, True)):
            P("gen-n-small", n, tr, vr, it, form="defaults" if (tr, vr, it) == (0.8, 0.1, True) else "pos")
    for tr, vr in ((0.6, 0.4), (0.7, 0.3), (0.5, 0.5), (0.1, 0.9), (1.0, tiny), (0.29, 0.71)):
        for it in (True, False):
            P("gen-sum-one", 10, tr, vr, it)
    for vr in (half_dn, half_up, math.nextafter(half_dn, 0.0)):
        for it in (True, False):
            P("gen-sum-ulp", 9, 0.5, vr, it)
            P("gen-sum-ulp", 9, vr, 0.5, it, form="mixed")
    for n, tr in ((10, 0.5), (100, 0.29), (10, 0.7), (3, 0.1), (3, 1 / 3), (6, 1 / 3), (20, 0.15), (7, 1 / 7), (49, 1 / 49),
                  (1000, 0.001)):
        P("gen-product-edge", n, tr, 0.05, True)
        P("gen-product-edge", n, 0.05, tr, True, form="pos")
        P("gen-product-edge", n, tr, 1.0 - tr, False)
    for n, tr, vr in ((10, 0.1, 0.8999999999999999), (6, 1 / 6, 0.8333333333333333), (9, 0.1, 0.8999999999999999)):
        P("gen-empty-test-block", n, tr, vr, True)
        P("gen-empty-test-block", n, vr, tr, True)
    for tr, vr in ((tiny, tiny), (tiny, 0.5), (below1, tiny), (0.5, below1), (0.0, 0.5), (-0.0, 0.5), (0.5, -tiny),
                   (0.5, 0.0), (1.0, 0.5)):
        for it in (True, False):
            P("gen-ratio-extremes", 5, tr, vr, it)
    for seed in (0, 2 ** 32 - 1, 0):
        P("gen-seed-edges", 8, 0.5, 0.25, True, seed=seed)
        P("gen-seed-edges", 8, 0.5, 0.5, False, seed=seed, form="mixed")
    out += [{"k": "gen", "b": "gen", "pts": pts[i:i + BATCH]} for i in range(0, len(pts), BATCH)]
    return out


REQUIRED_SEED = 909_2026        # own constant: NOT the run's seed


def required_stream():
    """A fixed-seed stream of ordinary generated cases (tag "req"), the same in every run and tier: together with
    boundary_cases() it draws every kind / form / situation that sanity() requires, so that no requirement depends on
    the run's seed."""
    r = C.Rng(REQUIRED_SEED)
    hist = [dict(gen_hist(r, "quick"), req=True) for _ in range(130)]
    pts = gen_split_grid(r) + [gen_split_case(r) for _ in range(200)]
    return hist + [{"k": "gen", "req": True, "pts": pts[i:i + BATCH]} for i in range(0, len(pts), BATCH)]


BATCH = 10     # split-generator points per case (keeps the number of Coq case ids small)


def generate(rng, tier):
    nh, ng, batch = (520, 1500, BATCH) if tier == "quick" else (12000, 60000, 5 * BATCH)
    # deterministic part (independent of the run's seed and tier): everything sanity() requires is drawn here
    cases = boundary_cases() + required_stream()
    # the run's seed only drives the additional random stream
    cases += [gen_hist(rng, tier) for _ in range(nh)]
    pts = [gen_split_case(rng) for _ in range(ng)]
    cases += [{"k": "gen", "pts": pts[i:i + batch]} for i in range(0, len(pts), batch)]
    if tier == "thorough":
        cases += exhaustive_small(rng)
    return cases


def exhaustive_small(rng):
    """thorough tier: every float-slice cut on every length 0..12 for the FLOATS grid, and every
    (labels permutation, shuffle?, split) on 3 rows"""
    out = []
    for n in range(0, 13):
        for f in FLOATS:
            for side in ("a", "b"):
                st = {"o": "fslice", "p": 0, "via": "getitem", "a": None, "b": None, "s": None}
                st[side] = ["f", fhex(f)]
                out.append({"k": "hist", "lkind": "offset", "labels": [5 + i for i in range(n)],
                            "splits": [i % 3 for i in range(n)], "target": True,
                            "prog": [{"o": "mat", "p": 0}, st]})
    import itertools
    for labels in itertools.permutations(range(3)):
        for splits in itertools.product(range(3), repeat=3):
            for ts in range(3):
                out.append({"k": "hist", "lkind": "permuted", "labels": list(labels), "splits": list(splits),
                            "target": False,
                            "prog": [{"o": "mat", "p": 0}, {"o": "shuffle", "p": 0, "ret": True, "tseed": ts},
                                     {"o": "split", "p": 1}, {"o": "split", "p": 0}]})
    return out


# =========================================================================== implementation side
def build(case):
    import pandas as pd
    import torch_frame
    from torch_frame.data import Dataset
    n = len(case["labels"])
    data = {"rid": [float(i) for i in range(n)], "f2": [float(200 + i) for i in range(n)]}
    c2s = {"rid": torch_frame.numerical, "f2": torch_frame.numerical}
    if case["target"]:
        data["y"] = [float(100 + i) for i in range(n)]
        c2s["y"] = torch_frame.numerical
    import numpy as np
    labels = list(case["labels"])
    if case.get("default_index"):
        df = pd.DataFrame(data)                # pandas' own RangeIndex
    else:
        df = pd.DataFrame(data, index=pd.Index(labels) if any(isinstance(x, str) for x in labels)
                          else pd.Index(labels, dtype="int64"))
    sd = case.get("sdtype", "int64")
    sv = np.array([int(v) for v in case["splits"]], dtype="int64")
    if sd == "object":
        df["s"] = pd.Series([int(v) for v in sv], index=df.index, dtype=object)
    elif sd == "category":
        df["s"] = pd.Series(sv, index=df.index).astype("category")
    else:
        df["s"] = sv.astype(sd)
    return Dataset(df, c2s, target_col="y" if case["target"] else None, split_col="s")


def _ids(vals, off):
    out = []
    for v in vals:
        v = float(v) - off
        out.append(int(v) if v == int(v) else v)
    return out


def read_tf_ids(tf, into=None):
    """row ids carried by every column of a TensorFrame (+ y); (ids, problem)"""
    import torch_frame
    cands = []
    names = list(tf.col_names_dict.get(torch_frame.numerical, []))
    if names:
        feat = tf.feat_dict[torch_frame.numerical]
        for j, nm in enumerate(names):
            cands.append((nm, _ids(feat[:, j].tolist(), ID_COLS.get(nm, 0))))
    if tf.y is not None:
        cands.append(("y", _ids(tf.y.tolist(), ID_COLS["y"])))
    prob = None
    ids = cands[0][1] if cands else None
    for nm, v in cands:
        if v != ids:
            prob = f"TensorFrame columns disagree on row identity: {cands[0][0]}={ids} {nm}={v}"
    if ids is not None and tf.num_rows != len(ids):
        prob = f"TensorFrame.num_rows={tf.num_rows} but columns have {len(ids)} rows"
    if into is not None:
        into["tf_all"] = [[nm, v] for nm, v in cands]       # every cell of the TensorFrame, by column
    return ids, names, prob


def snapshot(d):
    df = d.df
    cols = [str(c) for c in df.columns]
    s = {"labels": [x if isinstance(x, str) else int(x) for x in df.index.tolist()], "cols": cols,
         "stypes": [str(c) for c in d.col_to_stype.keys()], "mat": bool(d.is_materialized),
         "target": d.target_col, "split_col": d.split_col, "len": len(d), "num_rows": int(d.num_rows),
         "rid": None, "split": None, "tf": None, "tf_all": None, "stat_cols": None, "prob": None}
    for j, c in enumerate(cols):            # by position: a column name may be repeated
        if c in ID_COLS:
            v = _ids(df.iloc[:, j].tolist(), ID_COLS[c])
            if s["rid"] is None:
                s["rid"] = v
            elif s["rid"] != v:
                s["prob"] = f"DataFrame columns disagree on row identity: {s['rid']} vs {c}={v}"
    if cols.count("s") == 1:
        s["split"] = [int(x) for x in df["s"].tolist()]
    if len(d) != len(s["labels"]):
        s["prob"] = f"len(dataset)={len(d)} but the frame has {len(s['labels'])} rows"
    if s["mat"]:
        ids, names, prob = read_tf_ids(d.tensor_frame, s)
        s["tf"], s["tf_cols"] = ids, names
        if prob:
            s["prob"] = prob
        s["stat_cols"] = [str(c) for c in d.col_stats.keys()]       # dict (insertion) order
    return s


def apply_step(parent, st, rec):
    import torch
    o = st["o"]
    def rows(ix):
        if st["via"] == "getitem":
            return parent[ix]
        return parent.index_select(index=ix) if st["via"] == "index_select_kw" else parent.index_select(ix)

    if o == "sel":
        ix = st["idx"]
        if ix["t"] == "tensor" and ix.get("dt") == "int32":
            return [rows(torch.tensor(ix["l"], dtype=torch.int32))]
        return [rows(R.to_py_index(ix))]
    if o == "fslice":
        return [rows(slice(bound_py(st["a"]), bound_py(st["b"]), st["s"]))]
    if o == "shuffle":
        torch.manual_seed(st["tseed"])
        form = st.get("form", "kw_true" if st["ret"] else "default")
        if form in ("kw_true", "pos_true"):
            d, perm = parent.shuffle(return_perm=True) if form == "kw_true" else parent.shuffle(True)
            rec["perm"] = [int(x) for x in perm.tolist()]
            return [d]
        return [parent.shuffle(return_perm=False) if form == "kw_false" else parent.shuffle()]
    if o == "get_split":
        return [parent.get_split(split=st["name"]) if st.get("kw") else parent.get_split(st["name"])]
    if o == "split":
        a, b, c = parent.split()
        return [a, b, c]
    if o == "col_select":
        cols = list(st["cols"])
        via = st["via"]
        if via == "method":
            return [parent.col_select(cols)]
        if via == "method_kw":
            return [parent.col_select(cols=cols)]
        if via == "getitem":
            return [parent[cols]]
        if via == "getitem_str":
            return [parent[cols[0]]]
        return [parent.col_select(cols[0])]
    raise ValueError(o)


def run(case):
    if case["k"] == "gen":
        return run_gen(case)
    import shutil
    import tempfile
    tmp = [None]

    def cache_path():
        if tmp[0] is None:
            tmp[0] = tempfile.mkdtemp(prefix="c09_", dir=C.BUILD)
        return os.path.join(tmp[0], f"cache{len(os.listdir(tmp[0]))}.pt")

    try:
        return _run_hist(case, cache_path)
    finally:
        if tmp[0] is not None:
            shutil.rmtree(tmp[0], ignore_errors=True)


def twin_of(d):
    """an independent dataset over a copy of the same frame and configuration"""
    from torch_frame.data import Dataset
    sc = d.split_col if d.split_col in d.df.columns else None
    return Dataset(d.df.copy(), dict(d.col_to_stype), target_col=d.target_col, split_col=sc)


def materialize_as(d, form, cache_path):
    import torch
    if form == "plain":
        return d.materialize()
    if form == "device_none_kw":
        return d.materialize(device=None, path=None, col_stats=None)
    if form == "device_str":
        return d.materialize(device="cpu")
    if form == "device_pos":
        return d.materialize(torch.device("cpu"))
    if form == "user_stats":
        if d.is_materialized:
            return d.materialize(col_stats=d.col_stats)
        return d.materialize(col_stats=twin_of(d).materialize().col_stats)
    if form == "cache_save":
        return d.materialize(path=cache_path())
    if form == "cache_load":
        p = cache_path()
        if not d.is_materialized:
            twin_of(d).materialize(path=p)          # writes the file this materialization then loads
        return d.materialize(None, p)
    raise ValueError(form)


def _run_hist(case, cache_path):
    nodes = [build(case)]
    snaps = [snapshot(nodes[0])]
    steps = []
    for st in case["prog"]:
        o, p = st["o"], st["p"]
        parent = nodes[p] if p < len(nodes) else None
        k = 3 if o == "split" else (1 if o in DERIVING else 0)
        if parent is None:
            nodes += [None] * k
            snaps += [None] * k
            steps.append({"skipped": True, "views": views_of(snaps)})
            continue
        rec = {"ok": True}
        new = []
        try:
            if o == "mat":
                r = materialize_as(parent, st.get("form", "plain"), cache_path)
                rec["returns_self"] = r is parent
            elif o == "read_conv":
                rec["conv"] = type(parent.convert_to_tensor_frame).__name__
            elif o == "read_tf":
                ids, names, prob = read_tf_ids(parent.tensor_frame)
                rec["tf"], rec["prob"] = ids, prob
            elif o == "read_stats":
                rec["stat_cols"] = sorted(str(c) for c in parent.col_stats.keys())
            else:
                new = apply_step(parent, st, rec)
        except Exception as ex:
            rec = {"ok": False, "exc": C.exc_name(ex), "msg": str(ex)[:200]}
            new = [None] * k
        # every dataset that existed before must be unchanged (materialize changes its receiver only)
        changed, aliased = [], []
        for i, (nd, sn) in enumerate(zip(nodes, snaps)):
            if nd is None:
                continue
            now = snapshot(nd)
            if now != sn:
                if o == "mat" and i == p and rec["ok"]:
                    snaps[i] = now
                    if any(now[f] != sn[f] for f in ("labels", "rid", "split", "cols", "stypes", "target",
                                                      "split_col", "len", "num_rows")):
                        changed.append(i)
                elif o == "mat" and all(now[f] == sn[f] for f in now if f != "stat_cols"):
                    # materialize(p) added keys to the col_stats dict a col_select relative shares with p:
                    # a source altering a derived dataset; tallied, not part of the property
                    aliased.append(i)
                    snaps[i] = now
                else:
                    changed.append(i)
        rec["changed"] = changed
        if aliased:
            rec["stats_aliased"] = aliased
        if o == "mat" and rec["ok"]:
            rec["nodes"] = [snaps[p]]
        elif rec["ok"] and k:
            rec["nodes"] = [snapshot(x) for x in new]
        nodes += new
        snaps += rec.get("nodes", [None] * k) if o != "mat" else []
        rec["views"] = views_of(snaps)      # col_stats keys of EVERY dataset after this step
        steps.append(rec)
    return {"steps": steps}


def views_of(snaps):
    return [None if (sn is None or not sn["mat"]) else sn["stat_cols"] for sn in snaps]


def run_gen(case):
    return {"pts": [run_gen_pt(pt) for pt in case["pts"]]}


def run_gen_pt(case):
    import numpy as np
    from torch_frame.utils.split import generate_random_split
    tr, vr = float.fromhex(case["tr"]), float.fromhex(case["vr"])
    n, it, form = case["n"], case["include_test"], case.get("form", "kw")
    if case.get("np"):
        n, tr, vr = np.int64(n), np.float64(tr), np.float64(vr)

    def call():
        if form == "pos":
            return generate_random_split(n, case["seed"], tr, vr, it)
        if form == "mixed":
            return generate_random_split(n, case["seed"], tr, include_test=it, val_ratio=vr)
        if form == "defaults":
            kw = {}
            if tr != 0.8:
                kw["train_ratio"] = tr
            if vr != 0.1:
                kw["val_ratio"] = vr
            if it is not True:
                kw["include_test"] = it
            return generate_random_split(n, case["seed"], **kw)
        return generate_random_split(length=n, seed=case["seed"], train_ratio=tr, val_ratio=vr, include_test=it)

    out = []
    for k in range(2):          # the same call under two different prior states of the global numpy RNG
        np.random.seed((case["prior"] + 7919 * k) % (2 ** 32))
        np.random.random(1 + (case["prior"] + k) % 5)
        try:
            a = call()
            out.append({"ok": True, "arr": [int(x) for x in a.tolist()], "dtype_kind": a.dtype.kind, "ndim": a.ndim})
        except Exception as ex:
            out.append({"ok": False, "exc": C.exc_name(ex)})
    # numpy's arrangement for (seed, n), measured on distinct payloads under yet another prior state
    np.random.seed((case["prior"] * 31 + 5) % (2 ** 32))
    np.random.random(3)
    np.random.seed(case["seed"])
    p = np.arange(case["n"])
    np.random.shuffle(p)
    return {"calls": out, "perm": [int(x) for x in p.tolist()], "words": mt_words(case["seed"], case["n"])}


def mt_words(seed, n):
    """the next_uint32() words numpy's seeded legacy generator hands out, as many as the shuffle of n items consumes
    (counted with the documented rejection rule; Model/NpShuffle.v recomputes the shuffle from them)"""
    import numpy as np
    if n < 2:
        return []
    words = [int(x) for x in np.random.RandomState(seed).randint(0, 2 ** 32, size=4 * n + 64, dtype=np.uint32)]
    used = 0
    for i in range(n - 1, 0, -1):
        mask = i
        for sh in (1, 2, 4, 8, 16, 32):
            mask |= mask >> sh
        while True:
            if used >= len(words):
                return words
            w = words[used]
            used += 1
            if (w & mask) <= i:
                break
    return words[:used]


# =========================================================================== oracle
def step_kind(st):
    o = st["o"]
    if o == "sel":
        return f"sel({st['idx']['t']})"
    if o == "col_select":
        return f"col_select[{st['via']}]"
    return o


def cmp_node(snap, want, kind, idx):
    """snapshot of a returned dataset vs the rows the property demands"""
    if snap.get("prob"):
        return dict(key=f"misaligned:{kind}", what=f"step {idx} {kind}: {snap['prob']}")
    rows = [[l, r] for l, r in zip(snap["labels"], snap["rid"])] if snap["rid"] is not None else None
    exp_rows = [[r[0], r[1]] for r in want["rows"]]
    if rows != exp_rows:
        return dict(key=f"wrong-rows:{kind}",
                    what=f"step {idx} {kind} returned rows (label, id) {rows}, the property demands {exp_rows}",
                    expected=exp_rows, observed=rows)
    if snap["split"] is not None and snap["split"] != [r[2] for r in want["rows"]]:
        return dict(key=f"wrong-rows:{kind}", what=f"step {idx} {kind}: split values {snap['split']} do not belong "
                    f"to the selected rows {exp_rows}", expected=[r[2] for r in want["rows"]], observed=snap["split"])
    if snap["mat"] != want["mat"]:
        return dict(key=f"materialized-flag:{kind}", what=f"step {idx} {kind}: is_materialized={snap['mat']}")
    if snap["mat"] and snap["tf"] != snap["rid"]:
        return dict(key=f"misaligned:{kind}",
                    what=f"step {idx} {kind}: TensorFrame rows {snap['tf']} are not the DataFrame rows {snap['rid']}",
                    expected=snap["rid"], observed=snap["tf"])
    if kind.startswith("col_select") or kind == "mat":
        if snap["cols"] != want["dfcols"] or snap["stypes"] != want["cols"]:
            return dict(key=f"wrong-cols:{kind}", what=f"step {idx} {kind}: columns df={snap['cols']} "
                        f"col_to_stype={snap['stypes']}, expected {want['dfcols']} / {want['cols']}",
                        expected=want["cols"], observed=[snap["cols"], snap["stypes"]])
        if want["target"] is not None and (want["target"] not in snap["cols"] or snap["target"] != want["target"]):
            return dict(key="target-dropped", what=f"step {idx} {kind} lost the target column")
    return None


def cmp_free(snap, par, kind, idx, cols_only=False):
    """A step whose result the property does not define (see ref_apply): only the invariant is judged - DataFrame and
    TensorFrame row-aligned, every row a row of the parent (with its own label and split value), flags and columns
    intact (for a column selection: same rows, the target kept, no invented column).  Returns (failure, new state)."""
    if snap.get("prob"):
        return dict(key=f"misaligned:{kind}", what=f"step {idx} {kind}: {snap['prob']}"), None
    if snap["rid"] is None:
        return dict(key=f"wrong-rows:{kind}", what=f"step {idx} {kind}: rows cannot be identified"), None
    byid = {}
    for r in par["rows"]:
        byid.setdefault(r[1], r)
    rows = []
    for i, (l, r) in enumerate(zip(snap["labels"], snap["rid"])):
        src = byid.get(r)
        if src is None or src[0] != l or (snap["split"] is not None and snap["split"][i] != src[2]):
            return dict(key=f"wrong-rows:{kind}", what=f"step {idx} {kind}: returned row (label {l!r}, id {r}) is not a "
                        f"row of the dataset it was taken from"), None
        rows.append(list(src))
    if snap["mat"] != par["mat"]:
        return dict(key=f"materialized-flag:{kind}", what=f"step {idx} {kind}: is_materialized={snap['mat']}"), None
    if snap["mat"] and snap["tf"] != snap["rid"]:
        return dict(key=f"misaligned:{kind}", what=f"step {idx} {kind}: TensorFrame rows {snap['tf']} are not the "
                    f"DataFrame rows {snap['rid']}", expected=snap["rid"], observed=snap["tf"]), None
    state = dict(par, rows=rows)
    if cols_only:
        if [r[1] for r in rows] != [r[1] for r in par["rows"]]:
            return dict(key=f"wrong-rows:{kind}", what=f"step {idx} {kind}: a column selection changed the rows"), None
        if par["target"] is not None and (par["target"] not in snap["cols"] or snap["target"] != par["target"]):
            return dict(key="target-dropped", what=f"step {idx} {kind} lost the target column"), None
        if any(c not in par["dfcols"] for c in snap["cols"]) or any(c not in par["cols"] for c in snap["stypes"]):
            return dict(key=f"wrong-cols:{kind}", what=f"step {idx} {kind}: invented columns {snap['cols']}"), None
        keys = list(snap["stypes"])
        state = dict(state, cols=keys, dfcols=list(snap["cols"]), has_split="s" in snap["cols"],
                     dup=par.get("dup", False) or len(set(snap["cols"])) != len(snap["cols"]))
    elif snap["cols"] != par["dfcols"] or snap["stypes"] != par["cols"]:
        return dict(key=f"wrong-cols:{kind}", what=f"step {idx} {kind}: a row selection changed the columns"), None
    return None, state


def step_is_free(st, parent_len):
    """the steps whose outcome the property leaves open (mirrors ref_apply); used to keep them out of the correspondence
    when the implementation did return a dataset"""
    o = st["o"]
    if o == "sel":
        ix = st["idx"]
        if ix["t"] == "mask":
            return parent_len is None or len(ix["m"]) != parent_len
        return ix["t"] == "slice" and ix["s"] is not None and ix["s"] <= 0
    if o == "fslice":
        return st["s"] is not None and st["s"] <= 0
    if o == "col_select":
        return any(c not in ("rid", "f2", "y") for c in st["cols"])
    return False


def oracle(case, obs):
    if "harness_exc" in obs:
        return dict(key="harness-exc", what="harness failed to run the case: " + obs["harness_exc"], tb=obs.get("tb"))
    if case["k"] == "gen":
        return oracle_gen(case, obs)
    ref = [root_state(case)]
    for idx, (st, g) in enumerate(zip(case["prog"], obs["steps"])):
        o, p = st["o"], st["p"]
        kind = step_kind(st)
        par = ref[p] if p < len(ref) else None
        k = 3 if o == "split" else (1 if o in DERIVING else 0)
        if g.get("skipped"):
            ref += [None] * k
            continue
        if par is None:
            return dict(key="harness-desync", what=f"step {idx}: harness ran an operation on a failed node")
        if g.get("changed"):
            return dict(key=f"source-modified:{kind}",
                        what=f"step {idx} {kind} on dataset #{p} altered existing dataset(s) #{g['changed']}")
        if o == "mat":
            if par.get("dup") and not par["mat"]:
                if g["ok"]:
                    par["mat"] = True
                continue                # a frame with a repeated column name: outside the property
            if not g["ok"]:
                return dict(key="raises:mat", what=f"step {idx}: materialize raised {g.get('exc')}: {g.get('msg')}")
            par["mat"] = True
            f = cmp_node(g["nodes"][0], par, "mat", idx)
            if f:
                return f
            continue
        if o in READS:
            if g["ok"] != par["mat"]:
                return dict(key=f"{'raises' if par['mat'] else 'no-raise'}:{o}",
                            what=f"step {idx} {o} on a{'' if par['mat'] else 'n un'}materialized dataset "
                                 f"{'raised ' + str(g.get('exc')) if par['mat'] else 'did not raise'}")
            if g["ok"] and o == "read_tf":
                if g.get("prob"):
                    return dict(key="misaligned:read_tf", what=f"step {idx}: {g['prob']}")
                if g["tf"] != [r[1] for r in par["rows"]]:
                    return dict(key="misaligned:read_tf", what=f"step {idx}: tensor_frame rows {g['tf']} are not the "
                                f"dataset's rows {[r[1] for r in par['rows']]}")
            if g["ok"] and o == "read_stats":
                missing = [c for c in par["cols"] if c not in g["stat_cols"]]
                if missing:
                    return dict(key="stats-missing", what=f"step {idx}: col_stats lacks columns {missing}")
            continue
        perm = g.get("perm")
        if o == "shuffle" and g["ok"] and perm is None:
            perm = infer_perm(par, g["nodes"][0])
            if perm is None:
                return dict(key="not-a-permutation:shuffle",
                            what=f"step {idx}: shuffle() did not return a permutation of its rows",
                            expected=sorted(r[1] for r in par["rows"]), observed=g["nodes"][0]["rid"])
        exp = ref_apply(par, st, perm=perm if g["ok"] else list(range(len(par["rows"]))))
        for j, e in enumerate(exp):
            if e[0] == "err":
                if g["ok"]:
                    return dict(key=f"no-raise:{kind}",
                                what=f"step {idx} {kind} returned a dataset where the property demands a raise ({e[1]})",
                                observed=g["nodes"][j])
                ref.append(None)
                continue
            if not g["ok"]:
                if e[0] in ("either", "free", "freecols"):
                    ref.append(None)
                    continue
                return dict(key=f"raises:{kind}",
                            what=f"step {idx} {kind} raised {g.get('exc')} ({g.get('msg')}) where the property demands "
                                 f"rows {[r[1] for r in e[1]['rows']]}", expected=[r[1] for r in e[1]["rows"]])
            if e[0] in ("free", "freecols"):
                f, state = cmp_free(g["nodes"][j], e[1], kind, idx, cols_only=e[0] == "freecols")
                if f:
                    return f
                ref.append(state)
                continue
            f = cmp_node(g["nodes"][j], e[1], kind, idx)
            if f:
                return f
            ref.append(dict(e[1], rows=list(e[1]["rows"])))
    if len(obs["steps"]) < len(case["prog"]):
        return dict(key="short-run", what="implementation run stopped early")
    return None


def infer_perm(par, snap):
    """a permutation that explains the shuffled rows (copies of the same original row are interchangeable)"""
    if snap["rid"] is None or len(snap["rid"]) != len(par["rows"]):
        return None
    used, perm = set(), []
    for r in snap["rid"]:
        for i, pr in enumerate(par["rows"]):
            if i not in used and pr[1] == r:
                used.add(i)
                perm.append(i)
                break
        else:
            return None
    return perm


def oracle_gen(case, obs):
    for k, (pt, o) in enumerate(zip(case["pts"], obs["pts"])):
        f = oracle_gen_pt(pt, o)
        if f:
            f["point"] = pt
            return f
    return None


def oracle_gen_pt(case, obs):
    n = case["n"]
    tr, vr = float.fromhex(case["tr"]), float.fromhex(case["vr"])
    it = case["include_test"]
    tag = "test" if it else "notest"
    if not (tr > 0.0 and vr > 0.0):
        must_reject = "a ratio is not positive"
    elif it and not (tr + vr < 1.0):
        must_reject = "the ratios leave no room for a test split"
    elif not it and (tr + vr) != 1.0:
        must_reject = "the ratios do not exactly fill the whole"
    else:
        must_reject = None
    a, b = obs["calls"]
    if must_reject:
        if a["ok"] or b["ok"]:
            return dict(key=f"no-reject:{tag}", what=f"generate_random_split accepted ratios ({tr}, {vr}) although "
                        f"{must_reject}", observed=a)
        return None
    if not a["ok"] or not b["ok"]:
        return dict(key=f"rejects-valid:{tag}", what=f"generate_random_split(n={n}, {tr}, {vr}) raised "
                    f"{a.get('exc') or b.get('exc')} on valid ratios")
    arr = a["arr"]
    tn = ref_floor(float(n) * tr)
    vn = ref_floor(float(n) * vr) if it else n - tn
    want = [0] * tn + [1] * vn + [2] * (n - tn - vn)
    if len(arr) != n or a["ndim"] != 1:
        return dict(key=f"wrong-length:{tag}", what=f"result has length {len(arr)}, expected {n}")
    if any(x not in (0, 1, 2) for x in arr):
        return dict(key=f"wrong-labels:{tag}", what=f"labels outside 0/1/2: {sorted(set(arr))}")
    if sorted(arr) != want:
        cnt = [arr.count(0), arr.count(1), arr.count(2)]
        return dict(key=f"wrong-counts:{tag}", what=f"n={n} ratios=({tr}, {vr}): counts {cnt}, expected "
                    f"{[tn, vn, n - tn - vn]} (floor of the double product)", expected=[tn, vn, n - tn - vn], observed=cnt)
    if arr != b["arr"]:
        return dict(key="not-seed-determined", what=f"same seed {case['seed']}, different prior global RNG state: "
                    "different arrangements", expected=arr, observed=b["arr"])
    if sorted(obs["perm"]) != list(range(n)):
        return dict(key="numpy-shuffle-not-perm", what="np.random.shuffle did not permute (trusted-base check)")
    return None


# =========================================================================== shrinking
def shrink(case):
    if case["k"] == "gen":
        pts = case["pts"]
        if len(pts) > 1:
            for pt in pts:
                yield dict(case, pts=[pt])
            return
        pt = pts[0]
        for n in (0, 1, 2, 3, pt["n"] // 2, pt["n"] - 1):
            if 0 <= n < pt["n"]:
                yield dict(case, pts=[dict(pt, n=n)])
        return
    prog = case["prog"]
    # drop one step (not the materialization of the root) if nothing refers to the datasets it creates
    first_id = []
    nid = 1
    for st in prog:
        first_id.append(nid)
        nid += 3 if st["o"] == "split" else (1 if st["o"] in DERIVING else 0)
    for k in range(len(prog) - 1, -1, -1):
        st = prog[k]
        cnt = 3 if st["o"] == "split" else (1 if st["o"] in DERIVING else 0)
        made = range(first_id[k], first_id[k] + cnt)
        if any(s["p"] in made for s in prog[k + 1:]):
            continue
        rest = []
        for s in prog[k + 1:]:
            rest.append(dict(s, p=s["p"] - cnt) if s["p"] >= first_id[k] + cnt else s)
        yield dict(case, prog=prog[:k] + rest)
    # re-parent a step onto its parent's parent (so that the intermediate step can be dropped next)
    owner = {}
    for k, st in enumerate(prog):
        cnt = 3 if st["o"] == "split" else (1 if st["o"] in DERIVING else 0)
        for j in range(cnt):
            owner[first_id[k] + j] = k
    for k, st in enumerate(prog):
        if st["p"] in owner and owner[st["p"]] < k:
            yield dict(case, prog=prog[:k] + [dict(st, p=prog[owner[st["p"]]]["p"])] + prog[k + 1:])
    n = len(case["labels"])
    if n > 1:
        for k in range(n - 1, -1, -1):
            yield dict(case, labels=case["labels"][:k] + case["labels"][k + 1:],
                       splits=case["splits"][:k] + case["splits"][k + 1:])
    if case["target"]:
        yield dict(case, target=False)


# =========================================================================== evidence helpers
def nontrivial_sig(case, obs):
    if case["k"] == "gen":
        sig = [[pt["n"], pt["tr"], pt["vr"], pt["include_test"], pt["seed"], o["calls"][0]["ok"]]
               for pt, o in zip(case["pts"], obs["pts"]) if pt["n"] > 0 or not o["calls"][0]["ok"]]
        return json.dumps(sig) if sig else None
    steps = obs.get("steps", [])
    sig, nontriv = [case["lkind"], len(case["labels"])], False
    for st, g in zip(case["prog"], steps):
        if g.get("skipped"):
            sig.append("skip")
            continue
        lens = [len(s["labels"]) for s in g.get("nodes", [])] if g["ok"] else None
        if not g["ok"] or (lens and any(lens)):
            nontriv = True
        sig.append((step_kind(st), st.get("via"), g["ok"], lens))
    return json.dumps(sig) if nontriv else None


def stats(cases, obss):
    d = {"hist": 0, "gen": 0, "ops": {}, "label_kinds": {}, "n_rows": {}, "prog_len": {}, "steps_raising": 0,
         "steps_total": 0, "cases_with_empty_result": 0, "cases_with_empty_split": 0, "tree_shaped": 0,
         "with_pre_phase": 0, "gen_rejected": 0, "gen_no_test": 0, "gen_floor_differs_from_exact": 0,
         "col_stats_aliasing_seen": 0, "repeated_column_requests": 0, "float_cut_differs_from_int": 0,
         "boundaries": {}, "forms": {}}       # how often each parameter form / entry point was drawn

    def form(k):
        d["forms"][k] = d["forms"].get(k, 0) + 1
   # gen* count split-generator points
    for c, o in zip(cases, obss):
        if c is None or o is None:
            continue
        if c["k"] == "gen":
            for pt, po in zip(c["pts"], o.get("pts", [])):
                d["gen"] += 1
                if pt.get("b"):
                    d["boundaries"][pt["b"]] = d["boundaries"].get(pt["b"], 0) + 1
                form("generate_random_split:" + pt.get("form", "kw"))
                if pt.get("np"):
                    form("generate_random_split:numpy-scalars")
                d["gen_rejected"] += 0 if po["calls"][0].get("ok") else 1
                d["gen_no_test"] += 0 if pt["include_test"] else 1
                tr = float.fromhex(pt["tr"])
                if tr > 0 and ref_floor(float(pt["n"]) * tr) != (Fraction(tr) * pt["n"]).__floor__():
                    d["gen_floor_differs_from_exact"] += 1
            continue
        d["hist"] += 1
        if c.get("b"):
            d["boundaries"][c["b"]] = d["boundaries"].get(c["b"], 0) + 1
        form("split-column-dtype:" + c.get("sdtype", "int64"))
        form("index:pandas-RangeIndex" if c.get("default_index") else "index:explicit")
        d["label_kinds"][c["lkind"]] = d["label_kinds"].get(c["lkind"], 0) + 1
        n = len(c["labels"])
        d["n_rows"][n] = d["n_rows"].get(n, 0) + 1
        d["prog_len"][len(c["prog"])] = d["prog_len"].get(len(c["prog"]), 0) + 1
        if len(set(c["splits"])) < 3:
            d["cases_with_empty_split"] += 1
        if c["prog"] and c["prog"][0]["o"] != "mat":
            d["with_pre_phase"] += 1
        last, tree, empty = 0, False, False
        nid = 0
        for st, g in zip(c["prog"], o.get("steps", [])):
            k = step_kind(st)
            d["ops"][k] = d["ops"].get(k, 0) + 1
            d["steps_total"] += 1
            if g.get("stats_aliased"):
                d["col_stats_aliasing_seen"] += 1
            if st["o"] in ("sel", "fslice"):
                form("rows:" + st["via"])
                if st["o"] == "sel" and st["idx"]["t"] == "tensor":
                    form("tensor:" + st["idx"].get("dt", "int64"))
            elif st["o"] == "shuffle":
                form("shuffle:" + st.get("form", "kw_true" if st["ret"] else "default"))
            elif st["o"] == "get_split":
                form("get_split:" + ("keyword" if st.get("kw") else "positional"))
            elif st["o"] == "col_select":
                form("col_select:" + st["via"])
            elif st["o"] == "mat":
                form("materialize:" + st.get("form", "plain"))
            if st["o"] == "col_select" and len(set(st["cols"])) != len(st["cols"]):
                d["repeated_column_requests"] += 1
            if st["o"] == "fslice":
                for b in (st["a"], st["b"]):
                    v = bound_py(b)
                    if isinstance(v, float) and math.isfinite(v) and any(
                            ref_round(v * float(m)) != int(v * float(m)) for m in range(0, 13)):
                        d["float_cut_differs_from_int"] += 1
                        break
            if not g.get("skipped") and not g["ok"]:
                d["steps_raising"] += 1
            cnt = 3 if st["o"] == "split" else (1 if st["o"] in DERIVING else 0)
            if cnt and st["p"] != nid and st["o"] != "mat":
                tree = True
            nid += cnt
            for s in g.get("nodes", []) if g.get("ok") else []:
                if not s["labels"]:
                    empty = True
        d["tree_shaped"] += tree
        d["cases_with_empty_result"] += empty
    return d


def sanity(cases, obss):
    """Fail-closed distribution check: a degenerate run must not report green.  Every requirement is evaluated on
    the DETERMINISTIC part of the run (boundary_cases() + required_stream(), tags "b" / "req"), which is the same under
    every seed and tier; the run's seed only adds cases on top."""
    det = [(c, o) for c, o in zip(cases, obss) if c is not None and o is not None and (c.get("b") or c.get("req"))]
    if not det:
        return ["the deterministic streams (boundary_cases, required_stream) are missing from the run"]
    d = stats([c for c, _ in det], [o for _, o in det])
    probs = []
    if d["hist"] == 0 or d["gen"] == 0:
        return [f"histories={d['hist']} generator points={d['gen']}"]
    for k in ("mat", "sel(int)", "sel(slice)", "sel(list)", "sel(range)", "sel(tensor)", "sel(mask)", "fslice",
              "shuffle", "get_split", "split", "read_tf", "read_stats"):
        if d["ops"].get(k, 0) == 0:
            probs.append(f"operation {k} never drawn")
    if not any(k.startswith("col_select") for k in d["ops"]):
        probs.append("col_select never drawn")
    for k in ("range", "offset", "permuted", "string", "dup_int", "dup_str", "sparse", "negative"):
        if d["label_kinds"].get(k, 0) == 0:
            probs.append(f"label kind {k} never drawn")
    if d["steps_raising"] > 0.5 * d["steps_total"]:
        probs.append(f"{d['steps_raising']} of {d['steps_total']} steps raise")
    if d["steps_raising"] == 0:
        probs.append("no illegal order / malformed index was drawn")
    for k, what in (("tree_shaped", "no tree-shaped history"), ("with_pre_phase", "no pre-materialization phase"),
                    ("cases_with_empty_result", "no history passes through an empty dataset"),
                    ("cases_with_empty_split", "no dataset with an empty split"),
                    ("float_cut_differs_from_int", "no fractional bound where round() and int() differ"),
                    ("gen_floor_differs_from_exact", "no (n, ratio) where the double product's floor differs from "
                                                     "the exact one"),
                    ("col_stats_aliasing_seen", "no materialize() that adds keys to a relative's statistics dict"),
                    ("repeated_column_requests", "no col_select with a repeated name"),
                    ("gen_no_test", "include_test=False never drawn")):
        if d[k] == 0:
            probs.append(what)
    if not (0.05 * d["gen"] <= d["gen_rejected"] <= 0.6 * d["gen"]):
        probs.append(f"{d['gen_rejected']} of {d['gen']} generator points rejected")
    need = (["rows:getitem", "rows:index_select", "rows:index_select_kw", "tensor:int64", "tensor:int32",
             "shuffle:kw_true", "shuffle:pos_true", "shuffle:default", "shuffle:kw_false",
             "get_split:keyword", "get_split:positional", "index:pandas-RangeIndex", "index:explicit",
             "generate_random_split:kw", "generate_random_split:pos", "generate_random_split:mixed",
             "generate_random_split:defaults", "generate_random_split:numpy-scalars"]
            + ["col_select:" + v for v in ("method", "method_kw", "method_str", "getitem", "getitem_str")]
            + ["materialize:" + f for f in MAT_FORMS]
            + ["split-column-dtype:" + t for t in ("int64", "int32", "uint8", "float64", "object", "category")])
    for k in need:
        if d["forms"].get(k, 0) == 0:
            probs.append(f"parameter form / entry point {k} never drawn")
    for b in REQUIRED_BOUNDARIES:
        if d["boundaries"].get(b, 0) == 0:
            probs.append(f"boundary stream {b} missing")
    if d["ops"].get("read_conv", 0) == 0:
        probs.append("operation read_conv never drawn")
    if 0 not in d["n_rows"] or max(d["n_rows"]) < 8:
        probs.append("row counts do not span 0..8+")
    return probs


# =========================================================================== Coq side
def coq_label(x):
    return f"LStr {C.cstr(x)}" if isinstance(x, str) else f"LInt {C.cz(x)}"


def coq_bound(b):
    if b is None:
        return "None"
    if b[0] == "i":
        return f"(Some (BInt {C.cz(b[1])}))"
    return f"(Some (BFloat {coq_float(b[1])}))"


def coq_steps(st, g):
    p = C.cnat(st["p"])
    o = st["o"]
    if o == "mat":
        mode = "Rebind" if st.get("form") in ("user_stats", "cache_load") else "InPlace"
        return [f"HOp {p} OMaterialize {mode}"]
    if o == "read_tf":
        return [f"HReadTF {p}"]
    if o in ("read_stats", "read_conv"):       # the same gate in the model
        return [f"HReadStats {p}"]
    if o in ("sel", "fslice"):
        if o == "sel":
            di = f"(DIdx {R.coq_index(st['idx'])})"
        else:
            di = f"(DSlice {coq_bound(st['a'])} {coq_bound(st['b'])} {C.copt(st['s'], C.cz)})"
        ops = [f"(OGetItem (KRows {di}))" if st["via"] == "getitem" else f"(OIndexSelect {di})"]
    elif o == "shuffle":
        perm = g.get("perm") or g.get("perm_inferred") or []
        ops = [f"(OShuffle {C.clist(perm, C.cnat)})"]
    elif o == "get_split":
        ops = [f"(OGetSplit {C.cstr(st['name'])})"]
    elif o == "split":
        ops = [f"(OGetSplit {C.cstr(nm)})" for nm in ("train", "val", "test")]
    elif o == "col_select":
        cols = C.clist(st["cols"], C.cstr)
        if st["via"] in ("method", "method_kw"):
            ops = [f"(OColSelect {cols})"]
        elif st["via"] == "getitem":
            ops = [f"(OGetItem (KStrs {cols}))"]
        elif st["via"] == "getitem_str":
            ops = [f"(OGetItem (KStr {C.cstr(st['cols'][0])}))"]
        else:
            ops = [f"(OColSelect [{C.cstr(st['cols'][0])}])"]
    else:
        raise ValueError(o)
    return [f"HOp {p} {x} InPlace" for x in ops]


def coq_views(v):
    return C.clist(v, lambda x: C.copt(x, lambda l: C.clist(l, C.cstr)))


def coq_node(s):
    if s.get("prob") or s["rid"] is None or any(not isinstance(r, int) or r < 0 for r in s["rid"]):
        raise ValueError("unreadable node")
    spl = s["split"]
    rows = C.clist(range(len(s["labels"])), lambda i: "(%s, %s, %s)" % (
        coq_label(s["labels"][i]), C.cnat(s["rid"][i]), "None" if spl is None else f"Some {C.cz(spl[i])}"))
    if s["mat"]:
        if s["tf"] is None or any(not isinstance(r, int) or r < 0 for r in s["tf"]):
            raise ValueError("unreadable tensor frame")
        t = f"(Some {C.clist(s['tf'], C.cnat)})"
    else:
        t = "None"
    return f"ONode {rows} {t} {C.clist(s['cols'], C.cstr)} {C.clist(s['stypes'], C.cstr)} {C.cbool(s['mat'])}"


def coq_term(case, obs):
    if case["k"] == "gen":
        return coq_term_gen(case, obs)
    if "steps" not in obs:
        return None
    n = len(case["labels"])
    rows = C.clist(range(n), lambda i: f"mkRow ({coq_label(case['labels'][i])}) {C.cnat(i)} {C.cz(case['splits'][i])}")
    cols = ["rid", "f2"] + (["y"] if case["target"] else [])
    d0 = (f"(fresh {rows} {C.clist(cols + ['s'], C.cstr)} {C.clist(cols, C.cstr)} "
          f"{C.copt('y' if case['target'] else None, C.cstr)} (Some {C.cstr('s')}))")
    prog, exp = [], []
    lens = [n]              # rows of every dataset as the implementation showed them (None: the call raised)
    try:
        for st, g in zip(case["prog"], obs["steps"]):
            o = st["o"]
            k = 3 if o == "split" else (1 if o in DERIVING else 0)
            g = dict(g)
            plen = lens[st["p"]] if st["p"] < len(lens) else None
            if not g.get("skipped") and g.get("ok") and step_is_free(st, plen):
                return None     # outcome left open by the property and not a raise: nothing to compare with the model
            if k:
                lens += [len(sn["labels"]) for sn in g["nodes"]] if (g.get("ok") and not g.get("skipped")) else [None] * k
            if o == "shuffle" and g.get("ok") and "perm" not in g:
                g["perm_inferred"] = infer_perm_from_obs(case, obs, st, g)
                if g["perm_inferred"] is None:
                    return None
            sub = coq_steps(st, g)
            prog += sub
            if g.get("skipped") or not g["ok"]:
                outs = ["OErr"] * max(k, 1)
            elif o == "read_tf":
                if g.get("prob") or g["tf"] is None:
                    return None
                outs = [f"OTF {C.clist(g['tf'], C.cnat)}"]
            elif o in ("read_stats", "read_conv"):
                outs = ["OOk"]
            else:
                outs = [coq_node(s) for s in g["nodes"]]
            # statistics keys of every dataset after the step; a split() is three model steps, and a
            # deriving step never changes an existing view, so the j-th sub-step sees the first n0+j+1 entries
            views = g["views"]
            for j, out in enumerate(outs):
                v = views if len(outs) == 1 else views[:len(views) - len(outs) + j + 1]
                exp.append(f"({out}, {coq_views(v)})")
    except ValueError:
        return None        # an unreadable observation: the oracle reports it
    return f"heap_case {d0} {C.clist(prog)} {C.clist(exp)}"


def infer_perm_from_obs(case, obs, st, g):
    """rows of the parent as the implementation showed them (node snapshots), to explain a shuffle()"""
    snaps = [{"rid": list(range(len(case["labels"])))}]
    for s2, g2 in zip(case["prog"], obs["steps"]):
        if s2 is st:
            break
        k = 3 if s2["o"] == "split" else (1 if s2["o"] in DERIVING else 0)
        if g2.get("skipped") or not g2["ok"]:
            snaps += [None] * k
        elif s2["o"] != "mat" and k:
            snaps += g2["nodes"]
    par = snaps[st["p"]] if st["p"] < len(snaps) else None
    if par is None or par["rid"] is None:
        return None
    return infer_perm({"rows": [[None, r, None] for r in par["rid"]]}, g["nodes"][0])


def coq_term_gen(case, obs):
    ts = [coq_term_gen_pt(pt, o) for pt, o in zip(case["pts"], obs["pts"])]
    ts = [t for t in ts if t is not None]
    return "(" + " && ".join(ts) + ")" if ts else None


def coq_term_gen_pt(case, obs):
    a = obs["calls"][0]
    exp = C.copt(a["arr"], lambda l: C.clist(l, C.cz)) if a["ok"] else "None"
    if a["ok"] and (a["ndim"] != 1):
        return None
    if a["ok"] and "words" in obs and (case["n"] <= 64 or case.get("b")) and (case["prior"] % 3 == 0 or case.get("b")):
        # (a third of the points with n <= 64 and every boundary point, to bound the size of the Coq terms)
        # numpy's shuffle recomputed by the model (Fisher-Yates + random_interval) from the raw word stream
        return (f"split_case_fy {C.clist(obs['words'], C.cz)} {C.cz(case['n'])} {C.cz(case['seed'])} "
                f"{coq_float(case['tr'])} {coq_float(case['vr'])} {C.cbool(case['include_test'])} {exp}")
    perm = C.clist(obs["perm"], C.cz)          # Z literals: unary nat literals of size 1000 are slow to parse
    return (f"split_case {perm} {C.cz(case['n'])} {C.cz(case['seed'])} {coq_float(case['tr'])} "
            f"{coq_float(case['vr'])} {C.cbool(case['include_test'])} {exp}")
