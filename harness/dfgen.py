"""Shared generator of raw DataFrames (JSON descriptions), builder of the pandas
objects, reader of TensorFrames into plain JSON, and the independent
cell-by-cell canonical encoder used as the direct oracle of C01-C04 (and as
input source of C11/C12).

A frame description:
  {"n": rows, "index": "range"|"offset"|"perm"|"string"|"dup",
   "cols": [ {"name", "stype", "dtype", "cells": [...], "sep": str|None, "fmt": str|None, "width": int} ... ],
   "target": name|None, "col_order": [names...]}
Cells are JSON values: None = missing.
"""
from __future__ import annotations

import datetime as dt
import math

import numpy as np
import pandas as pd
import torch

import torch_frame
from torch_frame import stype
from torch_frame.config.image_embedder import ImageEmbedder, ImageEmbedderConfig
from torch_frame.config.text_embedder import TextEmbedderConfig
from torch_frame.config.text_tokenizer import TextTokenizerConfig
from torch_frame.data import Dataset
from torch_frame.data.stats import StatType

WORDS = ["a", "b", "c", "dd", "e e", "", "é", "漢", "Z", "0", "x|y", "NaN", "none"]
TOKENS = ["a", "b", "c", "dd", "é", "z9", "Q"]
FMTS = ["%Y-%m-%d %H:%M:%S", "%Y-%m-%d", "%Y/%m/%d", "%d/%m/%Y", "%d/%m/%Y %H:%M:%S", None, "datetime64"]


# ------------------------------------------------------------------ generation
def dyadic(rng, lo=-64, hi=64, bits=3):
    return rng.randint(lo * (1 << bits), hi * (1 << bits)) / (1 << bits)


def miss(rng, p):
    return rng.chance(p)


def gen_col(rng, name, st, n, miss_p, for_target=False):
    col = {"name": name, "stype": st, "dtype": "object", "sep": None, "fmt": None, "width": None}
    all_missing = (not for_target) and rng.chance(0.04) and st in ("numerical", "categorical", "multicategorical",
                                                                    "sequence_numerical", "timestamp")
    mp = 1.0 if all_missing else miss_p
    if st == "numerical":
        col["dtype"] = "float"
        kind = rng.wpick([(5, "dyadic"), (2, "int"), (1, "const")])
        const = dyadic(rng)
        cells = []
        for _ in range(n):
            if miss(rng, mp):
                cells.append(None)
            elif not for_target and rng.chance(0.04):
                cells.append(rng.pick(["inf", "-inf"]))
            elif kind == "int":
                cells.append(float(rng.randint(-20, 20)))
            elif kind == "const":
                cells.append(const)
            else:
                cells.append(dyadic(rng))
        if for_target and all(c is None for c in cells):
            cells[0] = 1.0
        col["cells"] = cells
    elif st == "categorical":
        vk = rng.wpick([(5, "str"), (2, "int")])
        k = rng.randint(1, 5)
        pool = rng.sample(WORDS, k) if vk == "str" else rng.sample(range(-3, 12), k)
        if vk == "str":
            col["dtype"] = rng.pick(["object", "str"])
        else:
            col["dtype"] = "object"
        # skewed + tied frequencies
        weights = [rng.pick([1, 1, 2, 4]) for _ in pool]
        cells = [None if miss(rng, mp) else rng.wpick(list(zip(weights, pool))) for _ in range(n)]
        if for_target:
            # a classification target needs >= 2 classes and no missing labels
            pool2 = pool if len(pool) >= 2 else pool + (["tgtB"] if vk == "str" else [99])
            cells = [rng.pick(pool2) for _ in range(n)]
            if n >= 2:
                cells[0], cells[1] = pool2[0], pool2[1]
        col["cells"] = cells
        col["nan_kind"] = rng.pick(["none", "nan"])
    elif st == "multicategorical":
        use_sep = rng.chance(0.65)
        pool = rng.sample(TOKENS, rng.randint(1, 5))
        if use_sep:
            sep = rng.pick(["|", ","])
            col["sep"] = sep
            col["dtype"] = rng.pick(["object", "str"])
            cells = []
            for _ in range(n):
                if miss(rng, mp):
                    cells.append(None)
                    continue
                k = rng.wpick([(2, 0), (3, 1), (3, 2), (2, 3), (1, 4)])
                toks = [rng.pick(pool) for _ in range(k)]    # repeats allowed
                pad = lambda t: rng.pick(["", " ", "  "]) + t + rng.pick(["", " ", "\t"])  # noqa: E731
                s = sep.join(pad(t) for t in toks)
                if k == 0:
                    s = rng.pick(["", " ", "  "])
                cells.append(s)
        else:
            cells = []
            for _ in range(n):
                if miss(rng, mp):
                    cells.append(None)
                else:
                    k = rng.wpick([(2, 0), (3, 1), (3, 2), (2, 3)])
                    cells.append([rng.pick(pool) for _ in range(k)])
        col["cells"] = cells
        col["nan_kind"] = rng.pick(["none", "nan", "pynan"])
    elif st == "sequence_numerical":
        cells = []
        for _ in range(n):
            if miss(rng, mp):
                cells.append(None)
            else:
                k = rng.wpick([(1, 0), (3, 1), (3, 2), (2, 4)])
                cells.append([None if rng.chance(0.1) else dyadic(rng) for _ in range(k)])
        col["cells"] = cells
        col["nan_kind"] = rng.pick(["none", "nan"])
    elif st == "timestamp":
        fmt = rng.pick(FMTS)
        col["fmt"] = fmt
        cells = []
        for _ in range(n):
            if miss(rng, mp):
                cells.append(None)
            elif fmt not in (None, "datetime64") and rng.chance(0.08):
                # unparseable cells: plain garbage, or a NEAR MISS -- a well-formed date under the configured
                # format with something before/after it (strict parsing must reject it: it counts as missing)
                if rng.chance(0.5):
                    cells.append("garbage")
                else:
                    y = rng.randint(1990, 2030)
                    base = fmt_time([y, rng.randint(1, 12), rng.randint(1, 28), 0, 0, 0], fmt)
                    cells.append(rng.pick([base + "Z", base + " UTC", "on " + base, base + "!",
                                           base + (" 17:20:04" if "%H" not in fmt else ".250")]))
            else:
                y = rng.pick([rng.randint(1700, 2200), rng.randint(1990, 2030)])
                m = rng.randint(1, 12)
                d = rng.randint(1, [31, 29 if (y % 4 == 0 and (y % 100 != 0 or y % 400 == 0)) else 28, 31, 30, 31, 30,
                                    31, 31, 30, 31, 30, 31][m - 1])
                hh, mm, ss = (rng.randint(0, 23), rng.randint(0, 59), rng.randint(0, 59)) \
                    if fmt in ("%Y-%m-%d %H:%M:%S", "%d/%m/%Y %H:%M:%S", "datetime64", None) else (0, 0, 0)
                cells.append([y, m, d, hh, mm, ss])
        col["cells"] = cells
        if fmt not in (None, "datetime64"):
            # string-valued timestamp cells are held either as object or as pandas' native string dtype
            col["dtype"] = rng.pick(["object", "str"])
        if fmt == "datetime64":
            col["dtype"] = "datetime64"
            # a time format may still be configured for a column that already holds datetimes
            # (e.g. one col_to_time_format string for all timestamp columns); it must not matter
            col["cfg_fmt"] = rng.pick([None, "%Y-%m-%d %H:%M:%S", "%Y-%m-%d", "%Y/%m/%d", "%d/%m/%Y %H:%M:%S"])
    elif st == "embedding":
        w = rng.randint(1, 5)
        col["width"] = w
        col["cells"] = [[dyadic(rng, -8, 8) for _ in range(w)] for _ in range(n)]
    elif st in ("text_embedded", "image_embedded", "text_tokenized"):
        col["dtype"] = rng.pick(["object", "str"])
        col["cells"] = [None if miss(rng, mp) else rng.pick(WORDS) + rng.pick(["", " txt", "!"]) for _ in range(n)]
        col["batch_size"] = rng.pick([None, 1, 2, 3])
        col["nan_kind"] = rng.pick(["none", "nan"])
    else:
        raise ValueError(st)
    return col


def gen_frame(rng, stypes=None, n=None, with_target=None, index_kinds=None, target_missing=0.0):
    """target_missing: probability that the target column carries missing cells (unlabeled rows); off by default
    because several harnesses train on the target."""
    n = n if n is not None else rng.wpick([(1, 1), (2, 2), (3, 3), (4, rng.randint(4, 10))])
    all_st = ["numerical", "categorical", "multicategorical", "sequence_numerical", "timestamp", "embedding",
              "text_embedded", "image_embedded", "text_tokenized"]
    stypes = stypes or all_st
    k = rng.randint(1, min(6, len(stypes) + 2))
    chosen = [rng.pick(stypes) for _ in range(k)]
    miss_p = rng.pick([0.0, 0.1, 0.3, 0.5])
    pool = ["alpha", "beta", "gamma", "delta", "eps", "zeta", "eta", "theta", "iota", "kappa"]
    if rng.chance(0.3):
        # names mixing letter case, incl. case-only twins: the canonical order is Python's str order
        pool = pool + ["Alpha", "Beta", "ZETA", "Eta", "Kappa", "Zip", "age", "Age", "B2", "a_1"]
    names = rng.sample(pool, k + 1)
    cols = [gen_col(rng, names[i], st, n, miss_p) for i, st in enumerate(chosen)]
    target = None
    wt = rng.chance(0.6) if with_target is None else with_target
    if wt:
        tst = rng.pick(["numerical", "categorical"])
        cols.append(gen_col(rng, names[k], tst, n, 0.0, for_target=True))
        target = names[k]
        if target_missing and n >= 3 and rng.chance(target_missing):
            tc = cols[-1]["cells"]
            keep = 2 if tst == "categorical" else 1      # the first cells keep the classes / one usable value
            for i in range(keep, n):
                if rng.chance(0.4):
                    tc[i] = None
    order = [c["name"] for c in cols]
    rng.shuffle(order)
    return {"n": n, "index": rng.pick(index_kinds or ["range", "range", "offset", "perm", "string", "dup"]),
            "cols": cols, "target": target, "col_order": order}


# ------------------------------------------------------------------ building
def hash_vec(s: str, w: int = 3):
    """Deterministic small dyadic vector of a string (stub embedder output)."""
    h = 0
    for ch in s:
        h = (h * 131 + ord(ch)) % 1000003
    return [((h >> (3 * i)) % 64) / 8.0 for i in range(w)]


class StubTextEmbedder:
    def __init__(self, w=3):
        self.w = w
        self.calls = []

    def __call__(self, xs):
        self.calls.append(list(xs))
        return torch.tensor([hash_vec(str(x), self.w) for x in xs], dtype=torch.float32).reshape(len(xs), self.w)


class StubImageEmbedder(ImageEmbedder):
    def __init__(self, w=2):
        super().__init__()
        self.w = w
        self.calls = []

    def forward_retrieve(self, paths):      # bypass PIL: "images" are the path strings themselves
        return list(paths)

    def forward_embed(self, images):
        self.calls.append(list(images))
        return torch.tensor([hash_vec(str(x), self.w) for x in images], dtype=torch.float32).reshape(len(images), self.w)


class StubTokenizer:
    def __init__(self, fmt="list"):
        self.fmt = fmt
        self.calls = []

    def tok(self, s):
        ids = [ord(c) % 97 for c in str(s)][:6]
        return ids

    def __call__(self, xs):
        self.calls.append(list(xs))
        if self.fmt == "list":
            return [{"input_ids": torch.tensor(self.tok(x), dtype=torch.long),
                     "attention_mask": torch.ones(len(self.tok(x)), dtype=torch.long)} for x in xs]
        L = max([len(self.tok(x)) for x in xs] + [1])
        ids = torch.full((len(xs), L), -1, dtype=torch.long)
        am = torch.zeros((len(xs), L), dtype=torch.long)
        for i, x in enumerate(xs):
            t = self.tok(x)
            ids[i, :len(t)] = torch.tensor(t, dtype=torch.long)
            am[i, :len(t)] = 1
        return {"input_ids": ids, "attention_mask": am}


def fmt_time(cell, fmt):
    if cell is None or isinstance(cell, str):
        return cell          # missing, or an unparseable text shipped verbatim
    y, m, d, hh, mm, ss = cell
    if fmt == "%Y-%m-%d":
        return f"{y:04d}-{m:02d}-{d:02d}"
    if fmt == "%Y/%m/%d":
        return f"{y:04d}/{m:02d}/{d:02d}"
    if fmt == "%d/%m/%Y":
        return f"{d:02d}/{m:02d}/{y:04d}"
    if fmt == "%d/%m/%Y %H:%M:%S":
        return f"{d:02d}/{m:02d}/{y:04d} {hh:02d}:{mm:02d}:{ss:02d}"
    return f"{y:04d}-{m:02d}-{d:02d} {hh:02d}:{mm:02d}:{ss:02d}"


def missing_value(col):
    nk = col.get("nan_kind", "none")
    if nk == "nan":
        return np.nan
    if nk == "pynan":
        return float("nan")
    return None


def build_series(col):
    st, cells = col["stype"], col["cells"]
    mv = missing_value(col)
    if st == "numerical":
        vals = [np.nan if c is None else (float(c) if not isinstance(c, str) else float(c)) for c in cells]
        return pd.Series(vals, dtype=float)
    if st == "timestamp":
        if col["fmt"] == "datetime64":
            vals = [pd.NaT if c is None else pd.Timestamp(year=c[0], month=c[1], day=c[2], hour=c[3], minute=c[4],
                                                           second=c[5]) for c in cells]
            return pd.Series(vals, dtype="datetime64[us]")
        vals = [mv if c is None else fmt_time(c, col["fmt"]) for c in cells]
        return pd.Series(vals, dtype="str" if col["dtype"] == "str" else object)
    if st == "embedding":
        return pd.Series([list(c) for c in cells], dtype=object)
    if st == "sequence_numerical":
        return pd.Series([mv if c is None else [np.nan if x is None else x for x in c] for c in cells], dtype=object)
    vals = [mv if c is None else c for c in cells]
    if col["dtype"] == "str":
        return pd.Series(vals, dtype="str")
    return pd.Series(vals, dtype=object)


def index_labels(kind, n, rng_seed=0):
    if kind == "range":
        return None
    if kind == "offset":
        return list(range(100, 100 + n))
    if kind == "perm":
        l = list(range(n))
        C_rng = __import__("random").Random(rng_seed + n)
        C_rng.shuffle(l)
        return l
    if kind == "string":
        return [f"r{(i * 7) % (n + 3)}_{i}" for i in range(n)]
    if kind == "dup":
        return [(i // 2) + 5 for i in range(n)]
    raise ValueError(kind)


def build_df(desc, cols=None, index=None, col_order=None):
    data = {}
    by = {c["name"]: c for c in desc["cols"]}
    for name in (col_order or desc["col_order"]):
        if cols is not None and name not in cols:
            continue
        data[name] = build_series(by[name])
    df = pd.DataFrame(data)
    labels = index_labels(index or desc["index"], desc["n"])
    if labels is not None:
        df.index = labels
    return df


def build_dataset(desc, df=None, stubs=None, **kw):
    """Dataset over the described frame; returns (dataset, stubs)."""
    df = build_df(desc) if df is None else df
    col_to_stype = {c["name"]: getattr(torch_frame, c["stype"]) for c in desc["cols"] if c["name"] in df.columns}
    # the order of col_to_stype follows the frame's column order
    col_to_stype = {name: col_to_stype[name] for name in df.columns if name in col_to_stype}
    sep = {c["name"]: c["sep"] for c in desc["cols"] if c["stype"] == "multicategorical"}
    fmt = {c["name"]: (c.get("cfg_fmt") if c["fmt"] == "datetime64" else c["fmt"]) for c in desc["cols"]
           if c["stype"] == "timestamp"}
    stubs = stubs if stubs is not None else {}
    te, tt, ie = {}, {}, {}
    for c in desc["cols"]:
        if c["stype"] == "text_embedded":
            stubs.setdefault(c["name"], StubTextEmbedder(3))
            te[c["name"]] = TextEmbedderConfig(text_embedder=stubs[c["name"]], batch_size=c.get("batch_size"))
        elif c["stype"] == "image_embedded":
            stubs.setdefault(c["name"], StubImageEmbedder(2))
            ie[c["name"]] = ImageEmbedderConfig(image_embedder=stubs[c["name"]], batch_size=c.get("batch_size"))
        elif c["stype"] == "text_tokenized":
            stubs.setdefault(c["name"], StubTokenizer(c.get("tok_fmt", "list")))
            tt[c["name"]] = TextTokenizerConfig(text_tokenizer=stubs[c["name"]], batch_size=c.get("batch_size"))
    ds = Dataset(df, col_to_stype, target_col=desc["target"], col_to_sep=sep or None,
                 col_to_time_format=fmt or None, col_to_text_embedder_cfg=te or None,
                 col_to_text_tokenizer_cfg=tt or None, col_to_image_embedder_cfg=ie or None, **kw)
    return ds, stubs


# ------------------------------------------------------------ reading tensors
def fnum(x):
    if isinstance(x, float):
        if math.isnan(x):
            return None
        if math.isinf(x):
            return "inf" if x > 0 else "-inf"
    return x


def read_feat(feat):
    """TensorData -> rows x cols x cell (lists of JSON scalars)."""
    from torch_frame.data import MultiEmbeddingTensor, MultiNestedTensor
    if isinstance(feat, dict):
        return {k: read_feat(v) for k, v in feat.items()}
    if isinstance(feat, (MultiNestedTensor, MultiEmbeddingTensor)):
        return [[[fnum(v) for v in feat[i, j].tolist()] for j in range(feat.num_cols)] for i in range(feat.num_rows)]
    t = feat
    if t.dim() == 2:
        return [[[fnum(v)] for v in row] for row in t.tolist()]
    return [[[fnum(v) for v in cell] for cell in row] for row in t.tolist()]


def read_tf(tf):
    out = {"num_rows": tf.num_rows, "feats": {}, "names": {}, "y": None}
    for st, feat in tf.feat_dict.items():
        out["feats"][st.value] = read_feat(feat)
        out["names"][st.value] = list(tf.col_names_dict[st])
    if tf.y is not None:
        out["y"] = [fnum(v) for v in tf.y.tolist()]
    return out


def read_stats(col_stats):
    out = {}
    for col, d in col_stats.items():
        o = {}
        for k, v in d.items():
            if isinstance(v, torch.Tensor):
                v = v.tolist()
            elif isinstance(v, tuple):
                v = [list(v[0]), [int(x) for x in v[1]]]
            elif isinstance(v, list):
                v = [x.item() if hasattr(x, "item") else x for x in v]
            elif hasattr(v, "item"):
                v = v.item()
            if isinstance(v, float):
                v = fnum(v)
            if isinstance(v, list):
                v = [fnum(x) if isinstance(x, float) else x for x in v]
            o[k.value] = v
        out[col] = o
    return out


# --------------------------------------------------- canonical cell encoder
PY_WS = " \t\n\r\x0b\x0c\x1c\x1d\x1e\x1f\x85\xa0"


def tokens_of(cell, sep):
    """The set of tokens of a multicategorical cell (the property's wording)."""
    if cell is None:
        return None
    if isinstance(cell, list):
        return set(cell)
    if cell.strip() == "":
        return set()
    return {t.strip() for t in cell.split(sep)}


def f32(x):
    return float(np.float32(x))


def expected_cell(col, cell, stats, float_dtype="float32"):
    """Canonical encoding of one raw cell, given the column's statistics
    (category lists).  Returns a list of JSON scalars (the cell's vector)."""
    st = col["stype"]
    cast = f32 if float_dtype == "float32" else float
    if st == "numerical":
        if cell is None:
            return [None]
        if isinstance(cell, str):
            return [cell]
        return [cast(cell)]
    if st == "categorical":
        if cell is None:
            return [-1]
        cats = stats["COUNT"][0]
        for i, c in enumerate(cats):
            if c == cell and (isinstance(c, str) == isinstance(cell, str)):
                return [i]
        return [-1]
    if st == "multicategorical":
        toks = tokens_of(cell, col["sep"])
        if toks is None:
            return [-1]
        cats = stats["MULTI_COUNT"][0]
        return sorted(cats.index(t) for t in toks if t in cats)
    if st == "sequence_numerical":
        if cell is None:
            return []
        return [None if x is None else f32(x) for x in cell]
    if st == "timestamp":
        if cell is None or isinstance(cell, str):      # missing or unparseable text
            return [-1] * 7
        y, m, d, hh, mm, ss = cell
        wd = dt.date(y, m, d).weekday()
        return [y, m - 1, d - 1, wd, hh, mm, ss]
    if st == "embedding":
        return [cast(x) for x in cell]
    if st in ("text_embedded", "image_embedded"):
        s = "None" if cell is None and col.get("nan_kind", "none") == "none" and col["dtype"] == "object" else \
            ("nan" if cell is None else cell)
        return [f32(x) for x in hash_vec(s, 3 if st == "text_embedded" else 2)]
    raise ValueError(st)


def canon_sorted(cellvals, st):
    """multicategorical cells are sets: compare sorted."""
    if st == "multicategorical":
        return sorted(cellvals, key=lambda v: (v is None, v))
    return cellvals
