"""C13 — stype encoders are per-cell functions with documented missing-value semantics."""
from __future__ import annotations

import contextlib
import json
from fractions import Fraction

import torch

from harness import common as C
from harness import encoders as H

# CLAUSES of the property (properties.jsonl C13), the oracle keys that judge them, the generator kinds that exercise them
CLAUSES = [
    # statement
    "per-cell: embedding of (r, c) depends only on that cell, the parameters, that column's statistics "
    "-> keys leak:<cls>, same-cell-differs:<cls>, stats-leak:<cls>, affine-ref:<cls>; cases kind=enc with perts / "
    "stats_pert / probes",
    "permuting rows permutes the output -> key row-select:<cls>; cases kind=enc with sel (perm / subset / duplicates)",
    "no NA strategy: missing cell -> zero vector before any post-module -> key na-none-nonzero:<cls>; kind=enc, "
    "na=None, missing cells, both parameter modes, Tap post-module",
    "with a strategy: embedded as the replacement value of that column would be -> key na-strategy-mismatch:<cls>:<na>; "
    "kind=enc, na!=None, imputed twin",
    "senseless strategy/stype pairs rejected at construction -> keys inadmissible-strategy-accepted:<route>, "
    "admissible-strategy-rejected:..; kind=reject x 4 routes (direct, lazy, stypewise, model)",
    "encoding never modifies the tensors it is given -> key input-mutated:<cls>; every call of kind=enc "
    "(fresh tensors and views of larger tensors)",
    "total on its stype's inputs (function) -> keys raises:<cls>:<stage>, shape:<cls>, non-finite:<cls>; known: "
    "timestamp-na-none-missing-raises, timestamp-year-below-min-raises",
    # MUST-RAISE demands and the words of the statement that back them:
    "inadmissible-strategy-accepted:<route> <- 'strategy/stype combinations that make no sense are rejected at "
    "construction' (replacement values named by the statement: column mean / zero for numerical, zero for "
    "multicategorical, most frequent category, oldest/newest/median time; none for embeddings), on every "
    "construction route; no other raise is demanded anywhere in C13 (the *-raises keys classify raises where the "
    "statement wants a value)",
    # quantifier
    "all encoder classes x admissible NA strategies -> generate() cycles KINDS x NA_ADMISSIBLE; sanity()",
    "any missing pattern, values outside the training range, unseen categories (-1) -> gen_cell",
    "all cells (r, c), all replacement values -> perts drawn over all cells incl. to/from missing",
    "evaluation mode, any parameter initialisation -> params in {noise, reset}",
    # signature (every parameter the quantifier does not exclude, drawn away from its default): case['how']
    "constructor: positional vs keyword; post_module None / bare module / Sequential; mode, n_bins, out_size default "
    "and non-default; forward(feat) vs forward(feat, col_names); __call__ vs .forward; after .to('cpu') / .cpu(); "
    "input a fresh tensor vs a view / row-selection of a larger one -> stats()['how'], sanity()",
]

# ERROR_PATHS of torch_frame/nn/encoder/stype_encoder.py that C13 speaks about: every raise / assert / type or
# dtype special case, the generator kind that reaches it, the oracle key that notices its removal or change
ERROR_PATHS = [
    "get_na_mask float (isnan) vs integer (== -1) branch -> kind=enc numerical / categorical+timestamp with a "
    "strategy; na-strategy-mismatch, na-none-nonzero",
    "init_modules: five `raise ValueError` of the strategy/stype validation -> kind=reject x 4 routes; "
    "inadmissible-strategy-accepted:<route>, admissible-strategy-rejected",
    "init_modules: `raise ValueError('Unsupported NA strategy')` -> unreachable (the enum is exhaustive; generated "
    "table breaks the build when a member is added)",
    "init_modules: fill_values torch.stack (vector fills, timestamps) vs torch.tensor (scalar fills) -> kind=enc "
    "timestamp strategies / numerical+categorical strategies; na-strategy-mismatch",
    "reset_parameters: Sequential vs single post-module -> params=reset with post seq / seq_inplace / others "
    "(no clause observes the post-module's own initialisation)",
    "forward: col_names given, count mismatch `raise ValueError`; dict feat branch -> how.names in {True, wrong} "
    "(wrong: either outcome accepted, no clause); dict feats are LinearModelEncoder's (C12)",
    "post_forward: `raise RuntimeError` when the post-module changes the shape -> outside the quantifier "
    "(shape-preserving post-modules); post None vs module -> how.tap / post forms; post-module-form:<cls>",
    "na_forward: na_strategy None early return; Tensor / MultiEmbeddingTensor / MultiNestedTensor / else-raise "
    "dispatch; clone before fill -> every kind=enc; input-mutated, na-strategy-mismatch (MultiEmbeddingTensor + "
    "strategy is unreachable: rejected at construction)",
    "na_forward: ndim == 3 per-column loop vs 2-D torch.where, assert on widths -> timestamp vs numerical / "
    "categorical with a strategy; na-strategy-mismatch, leak, same-cell-differs",
    "MultiCategoricalEmbeddingEncoder.__init__: unknown mode `raise ValueError` -> not drawn (no clause); modes "
    "mean / sum / max all drawn",
    "LinearBucketEncoder `.float()` mask (hard-wired float32) -> f64=False for that class (ASSUMPTIONS)",
    "TimestampEncoder: assert TIME_TO_INDEX['YEAR'] == 0 (Props/C12 calendar_table_ok); feat.to(float32) -> f64 "
    "timestamp cases; positional / cyclic asserts -> known findings timestamp-*-raises",
    "PositionalEncoding / CyclicEncoding: odd out_size `raise ValueError` -> C12 lazy cases (bad_out)",
]

PROP = "C13"
HEADER = ("From Coq Require Import QArith.\n"
          "Require Import PF.Gen.Tables PF.Model.Encoders.")
MODEL_TARGETS = ["Model/Encoders.vo"]
SHARD = 40
RULE = ("one case = one configured encoder (class x admissible NA strategy or none x post-module x channels x "
        "float64/float32) on a small tensor of its stype with missing cells, out-of-range values and seeded random "
        "parameters, plus single-cell perturbations, a row selection and the imputed twin; distinct = distinct "
        "(class, options, NA, post, shape, missing pattern, perturbation kinds); non-trivial = the call returned "
        "and at least one cell is non-missing or one perturbation was measured; rejection cases: every class x "
        "every NA strategy")
TRUSTED = [
    "Coq 8.16.1 kernel + vm_compute",
    "hand-written model coq/Model/Encoders.v of stype_encoder.py (broadcasts, einsum patterns, column loops as "
    "written) over an abstract scalar structure with absorbing NaN; tied to /repo by this run's structural "
    "correspondence (raise/no-raise, zero pattern before the post-module, perturbation footprints, imputation "
    "equivalence) evaluated with exact rationals and model-side generic parameters",
    "modelled primitives: torch broadcasting of equal shapes, einsum, stack, bucketize, Embedding/EmbeddingBag "
    "with padding_idx (padding row zero, padding entries excluded from the reduction), nan_to_num on finite/NaN "
    "values; sin/cos/tanh uninterpreted; post-module an arbitrary per-cell map",
    "harness/c13.py + harness/encoders.py (generators, Tap post-module, black-box oracles in Fractions)",
]
ASSUMPTIONS = [
    "evaluation mode, CPU, float64 (float32 for LinearBucketEncoder, whose greater_mask is hard-wired float32, "
    "and for a share of the other cases); footprints compared bit-exactly within one batch shape, cross-batch "
    "comparisons with tolerance 1e-9 (float64) / 2e-4 (float32) relative",
    "parameter locality (column j reads its own parameter block) is a theorem (cell_fn_params_local); the "
    "implementation's gradient footprints of different columns are measured disjoint and compared with the model "
    "re-evaluated after changing every other block",
    "the output shape [batch, columns, channels] is a theorem (Props/C12.v encoder_output_shape) and compared with "
    "the implementation's on every case",
    "a strategy whose replacement value does not exist for the column -- default statistics of an entirely "
    "missing column (MOST_FREQUENT without any category, the timestamp strategies with all -1 time statistics) "
    "-- is outside the NA clause: for the missing cells of such a column a raise or any embedding is accepted, "
    "every other clause is still judged",
    "infinities are not modelled; non-mutation of the caller's tensors is observed by snapshots, not proved",
    "'any parameter initialisation' = any values of the learnable parameters with torch's padding rows "
    "(Embedding / EmbeddingBag padding_idx=0) zero, which is what construction and reset_parameters() guarantee: "
    "70% of the cases add seeded noise to every parameter and re-zero the padding rows, 30% use reset_parameters() "
    "alone (nothing re-zeroed by the harness); a user overwriting Embedding.weight[0] is outside the quantifier "
    "(hypothesis cell_shape_ok of na_none_zero)",
    "numeric agreement model vs implementation (1e-9, exact rationals) is checked for the affine encoders "
    "(Linear, Stack, Embedding, LinearEmbedding, bags in sum/mean mode) on the module's real parameters in "
    "float64; the other classes (bucket, periodic, ExcelFormer, timestamp, max bags) are tied structurally only",
    "the wrapper around user models (LinearModelEncoder) is excluded by the property itself",
]

KINDS = {  # class -> (stype, extra kw generator)
    "LinearEncoder": "numerical", "StackEncoder": "numerical", "LinearBucketEncoder": "numerical",
    "LinearPeriodicEncoder": "numerical", "ExcelFormerEncoder": "numerical",
    "EmbeddingEncoder": "categorical", "MultiCategoricalEmbeddingEncoder": "multicategorical",
    "LinearEmbeddingEncoder": "embedding", "TimestampEncoder": "timestamp",
}
MISSING_TS = [-1] * 7


# ------------------------------------------------------------------ generation
def dy(rng, lo=-16, hi=16, bits=2):
    return rng.randint(lo * (1 << bits), hi * (1 << bits)) / (1 << bits)


def gen_time(rng, ymin, ymax):
    return [rng.randint(ymin, ymax), rng.randint(0, 11), rng.randint(0, 30), rng.randint(0, 6), rng.randint(0, 23),
            rng.randint(0, 59), rng.randint(0, 59)]


def gen_stats(rng, st, allow_empty=False):
    """statistics of one column; the boundaries of every dimension are drawn deliberately: constant column,
    quantile ties (min == first quartile, median == max), one category, no category (multicategorical), a
    single fitted year, embedding width 1, and (allow_empty) the statistics of an entirely missing column"""
    if st == "numerical":
        if allow_empty and rng.chance(0.04):
            return {"MEAN": None, "STD": None, "QUANTILES": [None] * 5}      # compute_col_stats defaults
        q = sorted(dy(rng) for _ in range(5))
        tie = rng.random()
        if tie < 0.2:
            q = [q[0]] * 5                       # constant column
        elif tie < 0.3:
            q[1] = q[0]                          # min == first quartile
        elif tie < 0.4:
            q[2] = q[3] = q[4]                   # median == max
        return {"MEAN": dy(rng), "STD": 0.0 if q[0] == q[4] else abs(dy(rng, 0, 8)) + 0.25, "QUANTILES": q}
    if st == "categorical":
        if allow_empty and rng.chance(0.04):
            return {"COUNT": [[], []]}
        k = rng.randint(1, 4)
        return {"COUNT": [[f"c{i}" for i in range(k)], sorted((rng.randint(1, 9) for _ in range(k)), reverse=True)]}
    if st == "multicategorical":
        k = rng.randint(0, 4)                   # 0: a column of blank / missing cells only
        return {"MULTI_COUNT": [[f"t{i}" for i in range(k)],
                                sorted((rng.randint(1, 9) for _ in range(k)), reverse=True)]}
    if st == "timestamp":
        if allow_empty and rng.chance(0.04):
            return {"YEAR_RANGE": [-1, -1], "OLDEST_TIME": [-1] * 7, "MEDIAN_TIME": [-1] * 7, "NEWEST_TIME": [-1] * 7}
        ymin = rng.pick([1700, 1969, 1999, 2020])
        ymax = ymin + (0 if rng.chance(0.2) else rng.randint(0, 30))     # a single fitted year
        ts = sorted(gen_time(rng, ymin, ymax) for _ in range(3))
        return {"YEAR_RANGE": [ymin, ymax], "OLDEST_TIME": ts[0], "MEDIAN_TIME": ts[1], "NEWEST_TIME": ts[2]}
    if st == "embedding":
        return {"EMB_DIM": rng.randint(1, 3)}
    raise ValueError(st)


def gen_cell(rng, st, stats, miss_p, allow_bad=False):
    """one cell of a column with statistics `stats`; None-like encodings of a missing cell per stype"""
    if st == "numerical":
        if rng.chance(miss_p) or stats["MEAN"] is None:
            return None
        return rng.pick([dy(rng), dy(rng), stats["MEAN"], stats["QUANTILES"][rng.randint(0, 4)],
                         dy(rng, -4000, 4000, 0)])          # in range, on a boundary, far outside the training range
    if st == "categorical":
        if rng.chance(miss_p) or not stats["COUNT"][0]:
            return -1                                        # missing or unseen category
        return rng.randint(0, len(stats["COUNT"][0]) - 1)
    if st == "multicategorical":
        if rng.chance(miss_p):
            return [-1]
        k = len(stats["MULTI_COUNT"][0])
        n = rng.wpick([(2, 0), (3, 1), (3, 2), (1, 3)]) if k else 0
        vals = [rng.randint(0, k - 1) for _ in range(n)]
        if not rng.chance(0.15):
            vals = sorted(set(vals))                         # the mapper emits sets; duplicates at a low rate
        return vals
    if st == "timestamp":
        if rng.chance(miss_p) or stats["YEAR_RANGE"][0] < 0:
            return list(MISSING_TS)
        ymin, ymax = stats["YEAR_RANGE"]
        t = gen_time(rng, ymin, ymax + rng.pick([0, 0, 40]))  # also years after the fitted range
        if allow_bad:
            t[0] = ymin - rng.randint(1, 5)                   # below the fitted minimum (known finding)
        return t
    if st == "embedding":
        d = stats["EMB_DIM"]
        v = [dy(rng, -4, 4) for _ in range(d)]
        if rng.chance(miss_p):
            if rng.chance(0.5):
                v = [None] * d
            else:
                v[rng.randint(0, d - 1)] = None
        return v
    raise ValueError(st)


def is_missing(st, cell):
    if st == "numerical":
        return cell is None
    if st == "categorical":
        return cell == -1
    if st == "multicategorical":
        return cell == [-1]
    if st == "timestamp":
        return -1 in cell
    if st == "embedding":
        return any(v is None for v in cell)
    raise ValueError(st)


def gen_enc_case(rng, tier, cls=None):
    cls = cls or rng.pick(list(KINDS))
    st = KINDS[cls]
    ncols = rng.wpick([(2, 1), (4, 2), (2, 3)])
    B = rng.wpick([(1, 0), (2, 1), (4, 2), (4, 3), (2, 4)])
    ch = rng.randint(1, 3)
    na_opts = H.NA_ADMISSIBLE[st]
    na = rng.pick(na_opts)
    bad_year = False
    if cls == "TimestampEncoder":
        # NA None with missing cells / a year below the minimum are the documented limitation: low rate
        na = rng.pick([x for x in na_opts if x is not None]) if not rng.chance(0.08) else None
        bad_year = rng.chance(0.04)
    kw = {}
    if cls == "MultiCategoricalEmbeddingEncoder":
        kw["mode"] = rng.pick(["mean", "sum", "max"])
    if cls == "LinearPeriodicEncoder" and not rng.chance(0.2):
        kw["n_bins"] = rng.randint(1, 3)                  # else the default (16)
    if cls == "TimestampEncoder" and not rng.chance(0.2):
        kw["out_size"] = rng.pick([2, 4])                 # else the default (8)
    f64 = cls != "LinearBucketEncoder" and not rng.chance(0.2)
    how = {"ctor": rng.pick(["kw", "kw", "pos"]), "tap": not rng.chance(0.2),
           "names": rng.wpick([(5, False), (4, True), (1, "wrong")]),
           "entry": rng.pick(["call", "call", "forward"]), "move": rng.pick([None, None, "to", "cpu"]),
           "repr": rng.pick(["fresh", "fresh", "view"])}
    stats = [gen_stats(rng, st, allow_empty=True) for _ in range(ncols)]
    miss_p = rng.pick([0.0, 0.2, 0.4])
    if cls == "TimestampEncoder" and na is None and not rng.chance(0.5):
        miss_p = 0.0
    feat = [[gen_cell(rng, st, stats[j], miss_p) for j in range(ncols)] for _ in range(B)]
    if bad_year and B:
        r, j = rng.randrange(B), rng.randrange(ncols)
        feat[r][j] = gen_cell(rng, st, stats[j], 0.0, allow_bad=True)
    perts = []
    if B:
        for _ in range(rng.randint(1, 3)):
            r, j = rng.randrange(B), rng.randrange(ncols)
            mp = 0.3 if not (cls == "TimestampEncoder" and na is None) else 0.0
            perts.append([r, j, gen_cell(rng, st, stats[j], mp)])
    sel = [rng.randrange(B) for _ in range(rng.randint(0, B + 1))] if B else []
    stats_pert = None
    if B and st in ("numerical", "timestamp") and rng.chance(0.6):
        # another statistic for ONE column (same shapes, so the parameters stay the same)
        j = rng.randrange(ncols)
        s2 = gen_stats(rng, st)
        if st == "timestamp":
            lo = min(s2["YEAR_RANGE"][0], stats[j]["YEAR_RANGE"][0])      # keep every year in the domain
            s2["YEAR_RANGE"] = [lo - 1, max(s2["YEAR_RANGE"][1], stats[j]["YEAR_RANGE"][1])]
        stats_pert = [j, s2]
    post = rng.pick(H.POSTS)
    if not how["tap"]:
        post = None                                       # post_module=None: the output is the pre-post value
    return {"kind": "enc", "how": how, "cls": cls, "stype": st, "kw": kw, "na": na, "post": post, "channels": ch,
            "f64": f64, "stats": stats, "feat": feat, "ncols": ncols, "perts": perts, "sel": sel,
            "stats_pert": stats_pert if how["tap"] else None, "params": "reset" if rng.chance(0.3) else "noise",
            "seed": rng.randint(0, 10 ** 6)}


ROUTES = ["direct", "lazy", "stypewise", "model"]


def reject_cases():
    """every (encoder class, its stype, NA strategy or none) -- admissible or not -- by every construction
    route: direct (all arguments), lazy (Enc(na_strategy=s), then the three attributes assigned), deferred
    through StypeWiseFeatureEncoder, deferred through a model's stype_encoder_dict"""
    out = []
    for cls, st in KINDS.items():
        for na in [None] + H.ALL_NA:
            for route in ROUTES:
                out.append({"kind": "reject", "cls": cls, "stype": st, "na": na, "route": route})
    return out


REQUIRED_SEED = 1      # a constant, independent of VERIF_SEED and of the tier (sanity() holds on this stream)


def _stream(rng, tier, n):
    classes = list(KINDS)
    return [gen_enc_case(rng, tier, cls=classes[i % len(classes)] if i < 4 * len(classes) else None)
            for i in range(n)]


def below_min_cases():
    """TimestampEncoder on a batch in which ONE cell's year is below the column's fitted YEAR_RANGE[0] (by 1 and
    by 50; a year above the range is an ordinary input and is drawn by gen_cell), for every NA strategy incl. none
    and three batch shapes.  The cell itself is perturbed back into the range and the rows without it are
    selected, so the per-cell clause is judged directly: a raise (the unchanged tree: known finding) OR every
    other cell's embedding unchanged."""
    rng = C.Rng(77)
    out = []
    for na in H.NA_ADMISSIBLE["timestamp"]:
        for (B, ncols), below in zip([(2, 1), (3, 2), (4, 1)], [1, 50, 1]):
            stats = [gen_stats(rng, "timestamp") for _ in range(ncols)]
            feat = [[gen_cell(rng, "timestamp", stats[j], 0.0) for j in range(ncols)] for _ in range(B)]
            r, j = rng.randrange(B), rng.randrange(ncols)
            feat[r][j] = [stats[j]["YEAR_RANGE"][0] - below] + feat[r][j][1:]
            back = [stats[j]["YEAR_RANGE"][0]] + feat[r][j][1:]
            how = {"ctor": "kw", "tap": True, "names": False, "entry": "call", "move": None, "repr": "fresh"}
            out.append({"kind": "enc", "how": how, "cls": "TimestampEncoder", "stype": "timestamp",
                        "kw": {"out_size": 2}, "na": na, "post": None, "channels": 2, "f64": True, "stats": stats,
                        "feat": feat, "ncols": ncols, "perts": [[r, j, back]],
                        "sel": [i for i in range(B) if i != r], "stats_pert": None, "params": "noise",
                        "seed": 1000 + len(out)})
    return out


def required_cases():
    """The deterministic stream every requirement of sanity() is judged on: the full rejection table plus
    encoder cases from an own constant seed -- the same in both tiers and under every VERIF_SEED."""
    return [dict(c, required=True)
            for c in reject_cases() + below_min_cases() + _stream(C.Rng(REQUIRED_SEED), "quick", 320)]


def generate(rng, tier):
    n = 110 if tier == "quick" else 8000
    return required_cases() + _stream(rng, tier, n)


# ------------------------------------------------------------------------- run
def emb_dims(case):
    return [s["EMB_DIM"] for s in case["stats"]] if case["stype"] == "embedding" else None


def to_lib(case, cells):
    """the encoder input; how.repr == 'view': rows 1.. of a tensor / container with one more leading row
    (non-zero storage offset, shared storage) -- what row selection of a TensorFrame hands to an encoder"""
    if case.get("how", {}).get("repr") == "view" and cells:
        big = H.feat_to_lib(case["stype"], [cells[-1]] + cells, case["ncols"], emb_dims(case))
        return big[1:]
    return H.feat_to_lib(case["stype"], cells, case["ncols"], emb_dims(case))


HOW = {}        # the calling convention of the case being run (set by run_enc)


def call(enc, tap, feat):
    """(final output, value entering the post-module, input unchanged?)"""
    snap = H.snapshot(feat)
    is_tap = isinstance(tap, H.Tap)
    if is_tap:
        tap.seen = None
    f = enc.forward if HOW.get("entry") == "forward" else enc
    with torch.no_grad():
        if HOW.get("names"):
            ncols = feat.shape[1] if not isinstance(feat, dict) else None
            extra = 1 if HOW.get("names") == "wrong" else 0       # a col_names list of the wrong length
            out = f(feat, [f"col{j}" for j in range(ncols + extra)])
        else:
            out = f(feat)
    # without the tap (post_module None): the output IS the value before any post-module
    pre = tap.seen if is_tap else (out if tap is None else None)
    return out, pre, H.unchanged(feat, snap)


def changed_cells(a, b):
    """cells (r, c) whose vectors differ bit-for-bit"""
    if a.shape != b.shape:
        return None
    d = ~((a == b) | (torch.isnan(a) & torch.isnan(b)))
    d = d.reshape(d.shape[0], d.shape[1], -1).any(dim=-1)
    return [[int(r), int(c)] for r, c in d.nonzero().tolist()]


def replacement(case, j):
    """The documented replacement value of a missing cell of column j (independent table)."""
    st, na, s = case["stype"], case["na"], case["stats"][j]
    if st == "numerical":
        return s["MEAN"] if na == "MEAN" else 0.0
    if st == "categorical":
        return 0                                    # the most frequent category has index 0
    if st == "multicategorical":
        return [0]
    if st == "timestamp":
        return list(s[{"OLDEST_TIMESTAMP": "OLDEST_TIME", "NEWEST_TIMESTAMP": "NEWEST_TIME",
                       "MEDIAN_TIMESTAMP": "MEDIAN_TIME"}[na]])
    raise ValueError(st)


def impute(case, cells):
    return [[replacement(case, j) if is_missing(case["stype"], c) else c for j, c in enumerate(row)] for row in cells]


_DS = {}


def small_dataset(st):
    """a two-row materialized dataset with one feature column of the stype (cached)"""
    if st not in _DS:
        from harness import dfgen as G
        mk = {"numerical": [1.0, 2.0], "categorical": ["a", "b"], "multicategorical": [["a"], ["b"]],
              "timestamp": [[2000, 1, 2, 3, 4, 5], [2001, 1, 2, 3, 4, 5]], "embedding": [[1.0], [2.0]]}
        desc = {"n": 2, "index": "range", "target": None, "col_order": ["c"],
                "cols": [{"name": "c", "stype": st, "dtype": "float" if st == "numerical" else "object",
                          "cells": mk[st], "sep": None, "fmt": None, "width": 1}]}
        ds, _ = G.build_dataset(desc)
        ds.materialize()
        _DS[st] = ds
    return _DS[st]


def run_reject(case):
    """Does the route end in the encoder being rejected (ValueError) anywhere along it?"""
    from torch_frame.nn import encoder as E
    st, route = case["stype"], case.get("route", "direct")
    cls = getattr(E, case["cls"])
    kw = {"out_size": 2} if case["cls"] == "TimestampEncoder" else {}
    if case["na"] is not None or case["cls"] == "TimestampEncoder":
        kw["na_strategy"] = H.na_of(case["na"])
    ds = small_dataset(st)
    tf = ds.tensor_frame
    stype_ = H.st_of(st)
    stats_list = [ds.col_stats[nm] for nm in tf.col_names_dict[stype_]]
    built = None
    try:
        if route == "direct":
            built = cls(2, stats_list=stats_list, stype=stype_, **kw)
        elif route == "lazy":
            enc = cls(**kw)
            enc.stype = stype_
            enc.out_channels = 2
            enc.stats_list = stats_list
            built = enc
        elif route == "stypewise":
            enc = cls(**kw)
            E.StypeWiseFeatureEncoder(2, ds.col_stats, tf.col_names_dict, {stype_: enc})
            built = enc
        else:
            from torch_frame.nn.models import MLP
            enc = cls(**kw)
            MLP(channels=2, out_channels=1, num_layers=1, col_stats=ds.col_stats,
                col_names_dict=tf.col_names_dict, stype_encoder_dict={stype_: enc})
            built = enc
    except ValueError as ex:
        return {"raised": True, "exc": C.exc_name(ex), "msg": str(ex)[:200]}
    except Exception as ex:
        return {"raised": False, "other_exc": C.exc_name(ex), "msg": str(ex)[:200], "tb": C.fmt_exc()}
    # an accepted encoder must also be usable on the data
    try:
        built.eval()
        with torch.no_grad():
            out = built(tf.feat_dict[stype_], tf.col_names_dict[stype_])
        return {"raised": False, "runs": True, "shape": list(out.shape)}
    except Exception as ex:
        return {"raised": False, "runs": False, "run_exc": C.exc_name(ex), "msg": str(ex)[:200]}


def run(case):
    if case["kind"] == "reject":
        return run_reject(case)
    ctx = H.float64() if case["f64"] else contextlib.nullcontext()
    with ctx:
        return run_enc(case)


def set_params(case, enc):
    """'noise': seeded noise on every parameter, torch's padding rows re-zeroed; 'reset': the library's own
    reset_parameters() alone (nothing re-zeroed by the harness)."""
    if case.get("params", "noise") == "noise":
        H.randomize(enc, case["seed"])
    else:
        torch.manual_seed(case["seed"] + 1)
        enc.reset_parameters()


AFFINE = ("LinearEncoder", "StackEncoder", "EmbeddingEncoder", "LinearEmbeddingEncoder")


def numeric_class(case):
    return case["cls"] in AFFINE or (case["cls"] == "MultiCategoricalEmbeddingEncoder"
                                     and case["kw"]["mode"] in ("sum", "mean"))


def real_params(case, enc):
    """The module's own parameters (post-module excluded), as nested float lists, in the roles the model's
    constructors take them; None when they cannot be identified by shape (no alarm, only no numeric term)."""
    ps = [(n, p.detach()) for n, p in enc.named_parameters() if not n.startswith("post_module")]
    nc, ch, cls = case["ncols"], case["channels"], case["cls"]
    try:
        if cls == "StackEncoder":
            return {} if not ps else None
        if cls == "LinearEncoder":
            if len(ps) != 2 or any(tuple(p.shape) != (nc, ch) for _, p in ps):
                return None
            ps.sort(key=lambda q: "bias" in q[0])
            return {"w": ps[0][1].tolist(), "b": ps[1][1].tolist()}
        if cls == "EmbeddingEncoder":
            rows = sum(len(s_["COUNT"][0]) for s_ in case["stats"]) + 1
            if len(ps) != 1 or tuple(ps[0][1].shape) != (rows, ch):
                return None
            return {"table": ps[0][1].tolist()}
        if cls == "MultiCategoricalEmbeddingEncoder":
            if len(ps) != nc or any(p.dim() != 2 or p.shape[1] != ch for _, p in ps):
                return None
            return {"tables": [p.tolist() for _, p in ps]}
        if cls == "LinearEmbeddingEncoder":
            dims = [s_["EMB_DIM"] for s_ in case["stats"]]
            bias = [q for q in ps if "bias" in q[0]]
            ws = [q for q in ps if "bias" not in q[0]]
            if len(bias) != 1 or tuple(bias[0][1].shape) != (nc, ch) or [tuple(p.shape) for _, p in ws] != [(d, ch) for d in dims]:
                return None
            return {"ws": [p.tolist() for _, p in ws], "b": bias[0][1].tolist()}
    except Exception:
        return None
    return None


def densify(case):
    """the batch with every missing cell replaced by some valid non-missing cell of its column (None if a column
    has none): gradients are taken on it"""
    st = case["stype"]
    if st == "numerical" and any(s_["MEAN"] is None for s_ in case["stats"]):
        return None                  # NaN statistics of an entirely missing column: NaN everywhere
    out = []
    for row in case["feat"]:
        new = []
        for j, cell in enumerate(row):
            if not is_missing(st, cell):
                new.append(cell)
                continue
            s_ = case["stats"][j]
            if st == "numerical":
                new.append(0.5)
            elif st == "categorical":
                if not s_["COUNT"][0]:
                    return None
                new.append(0)
            elif st == "multicategorical":
                new.append([0] if s_["MULTI_COUNT"][0] else [])
            elif st == "timestamp":
                if s_["YEAR_RANGE"][0] < 0:
                    return None
                new.append(list(s_["OLDEST_TIME"]))
            else:
                new.append([0.5 if v is None else v for v in cell])
        out.append(new)
    if st == "timestamp" and any(c[0] < case["stats"][j]["YEAR_RANGE"][0] for r in out for j, c in enumerate(r)):
        return None
    return out


def run_enc(case):
    st = case["stype"]
    obs = {"stage": None}
    try:
        torch.manual_seed(case["seed"])
        how = case.get("how") or {}
        HOW.clear()
        HOW.update(how)
        enc, tap = H.build_encoder({"cls": case["cls"], "na": case["na"], "post": case["post"], "kw": case["kw"]},
                                   case["channels"], [H.stats_to_lib(s) for s in case["stats"]], st,
                                   ctor=how.get("ctor", "kw"), tap=how.get("tap", True))
        set_params(case, enc)
        if how.get("move") == "to":
            enc = enc.to("cpu")
        elif how.get("move") == "cpu":
            enc = enc.cpu()
        enc.eval()
    except Exception as ex:
        return {"ok": False, "stage": "construct", "exc": C.exc_name(ex), "msg": str(ex)[:300], "tb": C.fmt_exc()}
    feat = to_lib(case, case["feat"])
    try:
        out, pre, same = call(enc, tap, feat)
    except Exception as ex:
        return {"ok": False, "stage": "call", "exc": C.exc_name(ex), "msg": str(ex)[:300], "tb": C.fmt_exc()}
    if case["f64"] and numeric_class(case):
        obs["real_params"] = real_params(case, enc)
    obs.update(ok=True, shape=list(out.shape), pre_shape=list(pre.shape), dtype=str(out.dtype),
               finite=bool(torch.isfinite(out).all()), mutated=not same,
               pre=pre.tolist(), zeros=[[bool((pre[r, c] == 0).all()) for c in range(pre.shape[1])]
                                        for r in range(pre.shape[0])])
    # single-cell perturbations: footprint on the final output and before the post-module
    foot = []
    for r, j, v in case["perts"]:
        cells = [list(row) for row in case["feat"]]
        cells[r][j] = v
        try:
            o2, p2, same2 = call(enc, tap, to_lib(case, cells))
            foot.append({"cell": [r, j], "out": changed_cells(out, o2), "pre": changed_cells(pre, p2),
                         "mutated": not same2})
        except Exception as ex:
            foot.append({"cell": [r, j], "exc": C.exc_name(ex), "msg": str(ex)[:200]})
    obs["foot"] = foot
    # parameter footprints by gradient: the parameters that out[:, j] depends on, for different columns j,
    # are disjoint (column j reads its own parameter block only); post-module parameters are shared by design
    if case["feat"] and case["ncols"] > 1 and how.get("tap", True):
        try:
            ps = [p_ for n_, p_ in enc.named_parameters() if not n_.startswith("post_module")]
            dense = densify(case)        # no missing cell: NaN * 0 in autograd would smear over every block
            if ps and dense is not None:
                tap.seen = None
                o_g = enc(to_lib(case, dense))
                feet = []
                for j in range(case["ncols"]):
                    gs = torch.autograd.grad(o_g[:, j].sum(), ps, retain_graph=True, allow_unused=True)
                    fp = set()
                    for pi, g in enumerate(gs):
                        if g is not None:
                            nz = (g.reshape(g.shape[0], -1) != 0).any(dim=1).nonzero().flatten().tolist()
                            fp |= {(pi, int(r)) for r in nz}
                    feet.append(fp)
                obs["param_disjoint"] = all(not (feet[a] & feet[b]) for a in range(len(feet))
                                            for b in range(a + 1, len(feet)))
        except Exception as ex:
            obs["param_exc"] = C.exc_name(ex) + ": " + str(ex)[:120]
    # the same post-module handed over bare (not wrapped in the recording Tap): same output
    if case["post"] is not None and how.get("tap", True):
        try:
            torch.manual_seed(case["seed"])
            encb, _ = H.build_encoder({"cls": case["cls"], "na": case["na"], "post": case["post"], "kw": case["kw"]},
                                      case["channels"], [H.stats_to_lib(s) for s in case["stats"]], st, tap=False)
            encb.load_state_dict({k.replace("post_module.inner.", "post_module."): v
                                  for k, v in enc.state_dict().items()})
            encb.eval()
            ob, _, sameb = call(encb, None, to_lib(case, case["feat"]))
            obs["bare"] = {"equal": bool(H.same(ob, out)), "mutated": not sameb}
        except Exception as ex:
            obs["bare"] = {"exc": C.exc_name(ex), "msg": str(ex)[:200]}
    # row selection (permutation / subset / duplicates): another batch, so a tolerance
    if case["feat"]:
        try:
            o3, p3, same3 = call(enc, tap, to_lib(case, [case["feat"][i] for i in case["sel"]]))
            ref = out[case["sel"]] if case["sel"] else out[:0]
            obs["sel"] = {"shape_ok": list(o3.shape) == list(ref.shape),
                          "err": float(reldiff(o3, ref)) if list(o3.shape) == list(ref.shape) else None,
                          "mutated": not same3}
        except Exception as ex:
            obs["sel"] = {"exc": C.exc_name(ex), "msg": str(ex)[:200]}
    # NA strategy: the twin with every missing cell replaced by the documented replacement
    if case["na"] is not None:
        try:
            o4, p4, _ = call(enc, tap, to_lib(case, impute(case, case["feat"])))
            obs["na_equal"] = bool(H.same(o4, out) and H.same(p4, pre))
            obs["na_err"] = float(reldiff(p4, pre))
        except Exception as ex:
            obs["na_equal"] = False
            obs["na_exc"] = C.exc_name(ex)
    # another statistic for one column, same parameters: only that column's embeddings may change
    if case.get("stats_pert"):
        j, s2 = case["stats_pert"]
        try:
            torch.manual_seed(case["seed"])
            st2 = [s2 if k == j else s for k, s in enumerate(case["stats"])]
            enc2, tap2 = H.build_encoder({"cls": case["cls"], "na": case["na"], "post": case["post"], "kw": case["kw"]},
                                         case["channels"], [H.stats_to_lib(s) for s in st2], st)
            set_params(case, enc2)
            enc2.eval()
            o5, p5, _ = call(enc2, tap2, to_lib(case, case["feat"]))
            cc = changed_cells(pre, p5)
            obs["stats_cols"] = None if cc is None else sorted({c for _, c in cc})
        except Exception as ex:
            obs["stats_exc"] = C.exc_name(ex) + ": " + str(ex)[:150]
    # same cell value in the same column -> same embedding (per-cell function), tolerance only
    dup_err = 0.0
    for j in range(case["ncols"]):
        seen = {}
        for r, row in enumerate(case["feat"]):
            k = json.dumps(row[j])
            if k in seen:
                dup_err = max(dup_err, float(reldiff(pre[r, j], pre[seen[k], j])))
            else:
                seen[k] = r
    obs["dup_err"] = dup_err
    # black-box affine reference (exact Fractions) for the affine encoders: probes in single-row batches
    if case["cls"] in ("LinearEncoder", "StackEncoder", "LinearEmbeddingEncoder"):
        try:
            obs["probe"] = probes(case, enc, tap)
        except Exception as ex:
            obs["probe"] = {"exc": C.exc_name(ex), "msg": str(ex)[:200]}
    return obs


def reldiff(a, b):
    if a.numel() == 0:
        return 0.0
    return ((a - b).abs() / (1.0 + a.abs() + b.abs())).max().item()


def probes(case, enc, tap):
    """Outputs (before the post-module) for single-row probe batches: all-zero input and unit inputs."""
    st = case["stype"]
    nc = case["ncols"]
    if st == "numerical":
        p0 = call(enc, tap, to_lib(case, [[0.0] * nc]))[1][0].tolist()
        p1 = call(enc, tap, to_lib(case, [[1.0] * nc]))[1][0].tolist()
        return {"f0": p0, "f1": [p1]}
    dims = emb_dims(case)
    p0 = call(enc, tap, to_lib(case, [[[0.0] * d for d in dims]]))[1][0].tolist()
    units = []
    for k in range(max(dims)):
        row = [[1.0 if i == k else 0.0 for i in range(d)] for d in dims]
        units.append(call(enc, tap, to_lib(case, [row]))[1][0].tolist())
    return {"f0": p0, "f1": units}


# ---------------------------------------------------------------------- oracle
def no_replacement(case, j):
    """The strategy's replacement value does not exist for column j: default statistics of an entirely missing
    column (no most frequent category; no oldest / newest / median time).  Such a (strategy, column) pair is
    outside the NA clause: a missing cell there may raise or get any embedding."""
    s_, na = case["stats"][j], case["na"]
    if case["stype"] == "categorical":
        return na == "MOST_FREQUENT" and not s_["COUNT"][0]
    if case["stype"] == "timestamp":
        return na is not None and s_["YEAR_RANGE"][0] < 0
    return False


def outside_na_clause(case, cells):
    """does this batch hold a missing cell in a column whose replacement value does not exist?"""
    return any(is_missing(case["stype"], cell) and no_replacement(case, j)
               for row in cells for j, cell in enumerate(row))


def expected_finding(case):
    """The documented upstream limitation (DESIGN.md D10): returns the key if this input is of that kind."""
    if case["cls"] != "TimestampEncoder":
        return None
    batches = [case["feat"]]
    for cells in batches:
        for row in cells:
            for j, cell in enumerate(row):
                if is_missing("timestamp", cell):
                    if case["na"] is None:
                        return "timestamp-na-none-missing-raises"
                elif cell[0] < case["stats"][j]["YEAR_RANGE"][0]:
                    return "timestamp-year-below-min-raises"
    return None


def tol(case):
    return 1e-9 if case["f64"] else 2e-4


def oracle(case, obs):
    if "harness_exc" in obs:
        return dict(key="harness-exc", what="harness failed: " + obs["harness_exc"], tb=obs.get("tb"))
    cls = case["cls"]
    if case["kind"] == "reject":
        admissible = case["na"] in H.NA_ADMISSIBLE[case["stype"]]
        route = case.get("route", "direct")
        if obs.get("other_exc"):
            return dict(key=f"raises:{cls}:construct:{route}", what=f"{cls}(na_strategy={case['na']}) on "
                        f"{case['stype']} by the {route} route raised {obs['other_exc']}: {obs['msg']}",
                        observed=obs.get("tb"))
        if admissible and obs["raised"]:
            return dict(key=f"admissible-strategy-rejected:{cls}:{case['na']}",
                        what=f"{cls}(na_strategy={case['na']}) on {case['stype']} ({route} route) raised "
                             f"{obs.get('exc')}: {obs.get('msg')}", expected="constructs", observed=obs)
        if not admissible and not obs["raised"]:
            return dict(key=f"inadmissible-strategy-accepted:{route}",
                        what=f"{cls}(na_strategy={case['na']}) on {case['stype']} columns was accepted by the "
                             f"{route} construction route (the table of valid pairs demands a ValueError on every "
                             f"route); afterwards a call {'runs' if obs.get('runs') else 'fails with ' + str(obs.get('run_exc'))}",
                        expected="ValueError", observed=obs)
        if admissible and not obs.get("runs") and not (cls == "TimestampEncoder" and case["na"] is None):
            return dict(key=f"raises:{cls}:call:{route}", what=f"{cls}(na_strategy={case['na']}) accepted by the "
                        f"{route} route but a call raised {obs.get('run_exc')}: {obs.get('msg')}")
        return None
    if (case.get("how") or {}).get("names") == "wrong" and not obs["ok"] and obs["stage"] == "call":
        return None              # a col_names list of the wrong length: no clause demands a raise or a value
    known = expected_finding(case)
    carved = outside_na_clause(case, case["feat"])
    if not obs["ok"] and carved and obs["stage"] == "call":
        return None              # outside the NA clause: a raise is accepted, nothing else is observable
    if not obs["ok"]:
        if known is not None and obs["stage"] == "call":
            why = {"timestamp-na-none-missing-raises": "with a missing timestamp",
                   "timestamp-year-below-min-raises": "with a year below the fitted minimum"}[known]
            return dict(key=known, what=f"{cls}(na_strategy={case['na']}) raised {obs['exc']} on a batch {why}",
                        expected="an embedding per cell", observed=dict(exc=obs["exc"], msg=obs["msg"]))
        return dict(key=f"raises:{cls}:{obs['stage']}", what=f"{cls} raised {obs['exc']} at {obs['stage']}: {obs['msg']}",
                    expected="an embedding per cell", observed=obs.get("tb"))
    B, nc, ch = len(case["feat"]), case["ncols"], case["channels"]
    if obs["shape"] != [B, nc, ch] or obs["pre_shape"] != [B, nc, ch]:
        return dict(key=f"shape:{cls}", what=f"output shape {obs['shape']} for a [{B}, {nc}] input with {ch} channels",
                    expected=[B, nc, ch], observed=obs["shape"])
    if not obs["finite"]:
        return dict(key=f"non-finite:{cls}", what="output contains NaN/inf")
    if obs["mutated"] or any(f.get("mutated") for f in obs["foot"]) or obs.get("sel", {}).get("mutated"):
        return dict(key=f"input-mutated:{cls}", what=f"{cls}.forward modified the tensor it was given")
    # footprints: only the perturbed cell's embedding may change
    for (pr, pj, pv), f in zip(case["perts"], obs["foot"]):
        if "exc" in f and is_missing(case["stype"], pv) and no_replacement(case, pj):
            continue             # the perturbed cell is outside the NA clause
        if "exc" in f:
            return dict(key=f"raises:{cls}:perturbed", what=f"{cls} raised {f['exc']} after changing cell {f['cell']}: "
                                                            f"{f['msg']}", observed=f)
        for where in ("out", "pre"):
            extra = [c for c in (f[where] or []) if c != f["cell"]]
            if f[where] is None or extra:
                return dict(key=f"leak:{cls}", what=f"changing cell {f['cell']} changed the embedding of cells {extra} "
                                                    f"({'final output' if where == 'out' else 'before the post-module'})",
                            expected=[f["cell"]], observed=f[where])
    bare = obs.get("bare")
    if bare is not None:
        if "exc" in bare:
            return dict(key=f"raises:{cls}:call", what=f"{cls} with the bare post-module {case['post']} raised "
                                                      f"{bare['exc']}: {bare['msg']}", expected="an embedding per cell")
        if bare["mutated"]:
            return dict(key=f"input-mutated:{cls}", what=f"{cls}.forward (post-module {case['post']}) modified the "
                                                         "tensor it was given")
        if not bare["equal"]:
            return dict(key=f"post-module-form:{cls}", what=f"{cls}: the output differs when the post-module "
                                                            f"{case['post']} is wrapped in a recording identity")
    s = obs.get("sel")
    if s is not None:
        if "exc" in s:
            return dict(key=f"raises:{cls}:row-selection", what=f"{cls} raised {s['exc']} on rows {case['sel']}: {s['msg']}")
        if not s["shape_ok"] or s["err"] > tol(case):
            return dict(key=f"row-select:{cls}", what=f"encoding rows {case['sel']} differs from selecting those rows of "
                                                      f"the full encoding (relative difference {s['err']})",
                        expected="equal", observed=s)
    if case.get("stats_pert") and "stats_exc" not in obs:
        j = case["stats_pert"][0]
        if obs.get("stats_cols") is None or any(c != j for c in obs["stats_cols"]):
            return dict(key=f"stats-leak:{cls}", what=f"replacing the statistics of column {j} only (same parameters) "
                                                      f"changed the embeddings of columns {obs.get('stats_cols')}",
                        expected=[j], observed=obs.get("stats_cols"))
    if obs["dup_err"] > tol(case):
        return dict(key=f"same-cell-differs:{cls}", what=f"two cells of one column with the same value got different "
                                                         f"embeddings (relative difference {obs['dup_err']})")
    # NA semantics
    if case["na"] is None:
        for r, row in enumerate(case["feat"]):
            for j, cell in enumerate(row):
                if is_missing(case["stype"], cell) and not obs["zeros"][r][j]:
                    return dict(key=f"na-none-nonzero:{cls}",
                                what=f"missing cell ({r}, {j}) without NA strategy is not embedded as the zero vector "
                                     f"before the post-module", expected=[0.0] * ch, observed=obs["pre"][r][j])
    elif not carved:
        if not obs.get("na_equal", False):
            return dict(key=f"na-strategy-mismatch:{cls}:{case['na']}",
                        what=f"with na_strategy={case['na']} missing cells are not embedded like the replacement value "
                             f"of their own column (relative difference {obs.get('na_err')}, {obs.get('na_exc')})",
                        expected="bit-identical encodings", observed=obs.get("na_err"))
    # exact affine reference
    p = obs.get("probe")
    if p is not None:
        if "exc" in p:
            return dict(key=f"raises:{cls}:probe", what=f"{cls} raised {p['exc']} on a probe batch: {p['msg']}")
        bad = affine_check(case, obs, p)
        if bad is not None:
            return bad
    return None


def affine_check(case, obs, p):
    st = case["stype"]
    cells = impute(case, case["feat"]) if case["na"] is not None else case["feat"]
    F = Fraction
    t = F(tol(case))
    for r, row in enumerate(cells):
        for j, cell in enumerate(row):
            if is_missing(st, cell):
                continue                                   # zero vector, checked above
            f0 = [F(v) for v in p["f0"][j]]
            xs = [cell] if st == "numerical" else cell
            pred = list(f0)
            scale = [abs(v) for v in f0]
            for k, x in enumerate(xs):
                fk = [F(v) for v in p["f1"][0 if st == "numerical" else k][j]]
                for c in range(len(pred)):
                    pred[c] += F(x) * (fk[c] - f0[c])
                    scale[c] += abs(F(x)) * (abs(fk[c]) + abs(f0[c]))
            got = [F(v) for v in obs["pre"][r][j]]
            for c in range(len(pred)):
                if abs(got[c] - pred[c]) > t * (1 + scale[c]):
                    return dict(key=f"affine-ref:{case['cls']}",
                                what=f"cell ({r}, {j}) = {cell}: embedding channel {c} is {float(got[c])!r}, the exact "
                                     f"affine extrapolation from single-row probe batches of column {j} gives "
                                     f"{float(pred[c])!r}", expected=float(pred[c]), observed=float(got[c]))
    return None


# ------------------------------------------------------------------- shrinking
def drop_col(case, j):
    return dict(case, ncols=case["ncols"] - 1, stats=case["stats"][:j] + case["stats"][j + 1:],
                feat=[row[:j] + row[j + 1:] for row in case["feat"]],
                perts=[[r, c - (c > j), v] for r, c, v in case["perts"] if c != j],
                stats_pert=(None if not case.get("stats_pert") or case["stats_pert"][0] == j
                            else [case["stats_pert"][0] - (case["stats_pert"][0] > j), case["stats_pert"][1]]))


def drop_row(case, i):
    return dict(case, feat=case["feat"][:i] + case["feat"][i + 1:],
                perts=[[r - (r > i), c, v] for r, c, v in case["perts"] if r != i],
                sel=[k - (k > i) for k in case["sel"] if k != i])


def shrink(case):
    if case["kind"] != "enc":
        return
    for k in range(len(case["perts"])):
        yield dict(case, perts=case["perts"][:k] + case["perts"][k + 1:])
    if case["sel"]:
        yield dict(case, sel=[])
    for i in range(len(case["feat"])):
        yield drop_row(case, i)
    if case["ncols"] > 1:
        for j in range(case["ncols"]):
            yield drop_col(case, j)
    if case["post"] is not None:
        yield dict(case, post=None)
    if case["channels"] > 1:
        yield dict(case, channels=1)


def nontrivial_sig(case, obs):
    if case["kind"] == "reject":
        return json.dumps(["reject", case["cls"], case["na"], case.get("route"), obs.get("raised")])
    if not obs.get("ok"):
        return json.dumps(["raise", case["cls"], case["na"], obs.get("stage")])
    st = case["stype"]
    miss = [[is_missing(st, c) for c in row] for row in case["feat"]]
    if not case["feat"] and not case["perts"]:
        return None
    return json.dumps([case["cls"], case["kw"], case["na"], case["post"], case["channels"], case["f64"], miss,
                       [[r, c, is_missing(st, v)] for r, c, v in case["perts"]], len(case["sel"])])


def stats(cases, obss):
    d = {"classes": {}, "na": {}, "post": {}, "rows": {}, "cols": {}, "f64": 0, "raised": 0, "missing_cells": 0,
         "cells": 0, "perturbations": 0, "perturbations_effective": 0, "reject_cases": 0, "total": 0,
         "param_modes": {}, "numeric_terms": {}, "missing_embedding_reset_mode": 0, "how": {}, "kw_defaults": 0,
         "inplace_post_by_class": {}, "boundaries": {}}
    for c, o in zip(cases, obss):
        if c is None:
            continue
        d["total"] += 1
        if c["kind"] == "reject":
            d["reject_cases"] += 1
            continue
        d["classes"][c["cls"]] = d["classes"].get(c["cls"], 0) + 1
        d["na"][str(c["na"])] = d["na"].get(str(c["na"]), 0) + 1
        d["post"][str(c["post"])] = d["post"].get(str(c["post"]), 0) + 1
        d["rows"][len(c["feat"])] = d["rows"].get(len(c["feat"]), 0) + 1
        d["cols"][c["ncols"]] = d["cols"].get(c["ncols"], 0) + 1
        d["f64"] += bool(c["f64"])
        d["raised"] += not o.get("ok", False)
        if c["post"] in H.INPLACE_POSTS:
            d["inplace_post_by_class"][c["cls"]] = d["inplace_post_by_class"].get(c["cls"], 0) + 1
        bd = d["boundaries"]

        def hit(name, cond):
            bd[name] = bd.get(name, 0) + bool(cond)
        hit("channels=1", c["channels"] == 1)
        hit("one column", c["ncols"] == 1)
        hit("one row", len(c["feat"]) == 1)
        hit("empty batch", len(c["feat"]) == 0)
        for s_ in c["stats"]:
            if c["stype"] == "numerical":
                q = s_["QUANTILES"]
                hit("numerical: entirely missing column", s_["MEAN"] is None)
                hit("numerical: constant column", q[0] is not None and q[0] == q[4])
                hit("numerical: min == first quartile", q[0] is not None and q[0] == q[1] and q[0] != q[4])
                hit("numerical: median == max", q[0] is not None and q[2] == q[4] and q[0] != q[4])
            elif c["stype"] == "categorical":
                hit("categorical: one category", len(s_["COUNT"][0]) == 1)
                hit("categorical: entirely missing column", len(s_["COUNT"][0]) == 0)
            elif c["stype"] == "multicategorical":
                hit("multicategorical: no category", len(s_["MULTI_COUNT"][0]) == 0)
                hit("multicategorical: one category", len(s_["MULTI_COUNT"][0]) == 1)
            elif c["stype"] == "timestamp":
                hit("timestamp: single fitted year", s_["YEAR_RANGE"][0] == s_["YEAR_RANGE"][1] >= 0)
                hit("timestamp: entirely missing column", s_["YEAR_RANGE"][0] < 0)
            elif c["stype"] == "embedding":
                hit("embedding: width 1", s_["EMB_DIM"] == 1)
        for k, v in (c.get("how") or {}).items():
            d["how"][f"{k}={v}"] = d["how"].get(f"{k}={v}", 0) + 1
        d["kw_defaults"] += (c["cls"] == "LinearPeriodicEncoder" and "n_bins" not in c["kw"]) or \
                            (c["cls"] == "TimestampEncoder" and "out_size" not in c["kw"])
        d["param_modes"][c.get("params", "noise")] = d["param_modes"].get(c.get("params", "noise"), 0) + 1
        if o.get("real_params") is not None:
            d["numeric_terms"][c["cls"]] = d["numeric_terms"].get(c["cls"], 0) + 1
        if (c.get("params") == "reset" and c["na"] is None and c["stype"] in ("categorical", "multicategorical")
                and any(is_missing(c["stype"], cell) for row in c["feat"] for cell in row)):
            d["missing_embedding_reset_mode"] += 1
        for row in c["feat"]:
            for cell in row:
                d["cells"] += 1
                d["missing_cells"] += is_missing(c["stype"], cell)
        for f in (o.get("foot") or []):
            d["perturbations"] += 1
            d["perturbations_effective"] += bool(f.get("pre"))
    return d


def sanity(cases, obss):
    """Fail-closed distribution check: every class, every admissible strategy, both parameter modes, missing
    cells, empty batches and effective perturbations must be drawn; raising cases stay a small minority."""
    # judged on the deterministic required stream alone (seed-independent by construction)
    req = [(c, o) for c, o in zip(cases, obss) if c is not None and c.get("required")]
    cases, obss = [c for c, _ in req], [o for _, o in req]
    d = stats(cases, obss)
    probs = []
    n = d["total"] - d["reject_cases"]
    for cls in KINDS:
        if d["classes"].get(cls, 0) == 0:
            probs.append(f"encoder class {cls} never drawn")
    for na in ["None"] + H.ALL_NA:
        if d["na"].get(na, 0) == 0:
            probs.append(f"NA strategy {na} never drawn")
    for mode in ("noise", "reset"):
        if d["param_modes"].get(mode, 0) == 0:
            probs.append(f"parameter mode {mode} never drawn")
    if d["reject_cases"] < len(KINDS) * (len(H.ALL_NA) + 1) * len(ROUTES):
        probs.append("strategy / stype rejection table not enumerated")
    if n and d["raised"] > 0.2 * n:
        probs.append(f"{d['raised']} of {n} encoder cases raise")
    if d["missing_cells"] == 0 or d["rows"].get(0, 0) == 0:
        probs.append("no missing cell / no empty batch drawn")
    if d["perturbations"] and d["perturbations_effective"] < 0.5 * d["perturbations"]:
        probs.append("fewer than half of the single-cell perturbations changed anything")
    if n >= 200:
        for hv in ("ctor=kw", "ctor=pos", "tap=True", "tap=False", "names=True", "names=False", "names=wrong",
                   "entry=call",
                   "entry=forward", "move=None", "move=to", "move=cpu", "repr=fresh", "repr=view"):
            if d["how"].get(hv, 0) == 0:
                probs.append(f"calling convention {hv} never drawn")
        if d["kw_defaults"] == 0:
            probs.append("default n_bins / out_size never drawn")
        for cls in KINDS:
            if d["inplace_post_by_class"].get(cls, 0) == 0:
                probs.append(f"no in-place post-module drawn for {cls}")
        for p_ in H.POSTS:
            if d["post"].get(str(p_), 0) == 0:
                probs.append(f"post-module form {p_} never drawn")
        for name, cnt in d["boundaries"].items():
            if cnt == 0:
                probs.append(f"boundary never drawn: {name}")
    if n >= 200 and d["missing_embedding_reset_mode"] == 0:
        probs.append("missing categorical / multicategorical cell never encoded with reset_parameters() alone")
    if n >= 200 and not d["numeric_terms"]:
        probs.append("no numeric (real-parameter) correspondence term was produced: parameters not identifiable")
    return probs


# -------------------------------------------------------------------- Coq side
def q_of(v):
    return H.cx(None if v is None else Fraction(v))


def coq_stats(st, s):
    nan = "XNaN"
    zl = lambda l: C.clist(l, C.cz)  # noqa: E731
    if st == "numerical":
        return (f"(qcs {q_of(s['MEAN'])} {q_of(s['STD'])} {C.clist(s['QUANTILES'], q_of)} 0%nat 0%Z [] [] [] 0%nat)")
    if st == "categorical":
        return f"(qcs {nan} {nan} [] {len(s['COUNT'][0])}%nat 0%Z [] [] [] 0%nat)"
    if st == "multicategorical":
        return f"(qcs {nan} {nan} [] {len(s['MULTI_COUNT'][0])}%nat 0%Z [] [] [] 0%nat)"
    if st == "timestamp":
        return (f"(qcs {nan} {nan} [] 0%nat {C.cz(s['YEAR_RANGE'][0])} {zl(s['OLDEST_TIME'])} {zl(s['NEWEST_TIME'])} "
                f"{zl(s['MEDIAN_TIME'])} 0%nat)")
    return f"(qcs {nan} {nan} [] 0%nat 0%Z [] [] [] {s['EMB_DIM']}%nat)"


def coq_encoder(case):
    cls, nc, ch = case["cls"], case["ncols"], case["channels"]
    n = lambda k: f"{k}%nat"  # noqa: E731
    if cls == "LinearEncoder":
        return f"(ELinear QS (gmat 0 0 {n(nc)} {n(ch)}) (gmat 1 0 {n(nc)} {n(ch)}))"
    if cls == "StackEncoder":
        return "(EStack QS)"
    if cls == "ExcelFormerEncoder":
        return ("(EExcel QS " + " ".join(f"(gmat {k} 0 {n(nc)} {n(ch)})" for k in range(4)) + ")")
    if cls == "LinearPeriodicEncoder":
        nb = case["kw"].get("n_bins", 16)
        return (f"(EPeriodic QS (gmat 0 0 {n(nc)} {n(nb)}) " +
                C.clist(range(nc), lambda j: f"gmat 4 {j} {n(2 * nb)} {n(ch)}") + ")")
    if cls == "LinearBucketEncoder":
        return (f"(EBucket QS " + C.clist(range(nc), lambda j: f"gmat 5 {j} 4%nat {n(ch)}") +
                f" (gmat 1 0 {n(nc)} {n(ch)}))")
    if cls == "EmbeddingEncoder":
        tot = sum(len(s["COUNT"][0]) for s in case["stats"]) + 1
        return f"(EEmbedding QS (gtable 0 {n(tot)} {n(ch)}))"
    if cls == "MultiCategoricalEmbeddingEncoder":
        mode = {"mean": "BagMean", "sum": "BagSum", "max": "BagMax"}[case["kw"]["mode"]]
        return (f"(EBags QS {mode} " + C.clist(range(nc), lambda j: f"gtable {j + 1} "
                                               f"{n(max(len(case['stats'][j]['MULTI_COUNT'][0]), 1) + 1)} {n(ch)}") + ")")
    if cls == "LinearEmbeddingEncoder":
        return ("(ELinEmb QS " + C.clist(range(nc), lambda j: f"gmat 6 {j} {n(case['stats'][j]['EMB_DIM'])} {n(ch)}") +
                f" (gmat 1 0 {n(nc)} {n(ch)}))")
    if cls == "TimestampEncoder":
        out = case["kw"].get("out_size", 8)
        w = C.clist(range(nc), lambda j: C.clist(range(7), lambda k: f"gmat 8 {7 * j + k} {n(out)} {n(ch)}"))
        return f"(ETimestamp QS {n(out // 2)} (gvec 7 0 0 {n(out // 2)}) {w} (gmat 1 0 {n(nc)} {n(ch)}))"
    raise ValueError(cls)


def qmat(m):
    return C.clist(m, lambda row: C.clist(row, lambda v: H.cq(Fraction(v))))


def coq_encoder_real(case, rp):
    cls = case["cls"]
    if cls == "StackEncoder":
        return "(EStack QS)"
    if cls == "LinearEncoder":
        return f"(ELinear QS {qmat(rp['w'])} {qmat(rp['b'])})"
    if cls == "EmbeddingEncoder":
        return f"(EEmbedding QS {qmat(rp['table'])})"
    if cls == "MultiCategoricalEmbeddingEncoder":
        mode = {"mean": "BagMean", "sum": "BagSum"}[case["kw"]["mode"]]
        return f"(EBags QS {mode} {C.clist(rp['tables'], qmat)})"
    if cls == "LinearEmbeddingEncoder":
        return f"(ELinEmb QS {C.clist(rp['ws'], qmat)} {qmat(rp['b'])})"
    raise ValueError(cls)


def coq_input(case, cells):
    st = case["stype"]
    if st == "numerical":
        return "(InNum QS " + C.clist(cells, lambda row: C.clist(row, q_of)) + ")"
    if st == "categorical":
        return "(InIdx QS " + C.clist(cells, lambda row: C.clist(row, C.cz)) + ")"
    if st == "multicategorical":
        return "(InBag QS " + C.clist(cells, lambda row: C.clist(row, lambda c: C.clist(c, C.cz))) + ")"
    if st == "timestamp":
        return "(InTime QS " + C.clist(cells, lambda row: C.clist(row, lambda c: C.clist(c, C.cz))) + ")"
    return "(InEmb QS " + C.clist(cells, lambda row: C.clist([v for c in row for v in c], q_of)) + ")"


def coq_term(case, obs):
    if "harness_exc" in obs:
        return None
    if case["kind"] == "reject":
        return f"check_reject {H.cstype(case['stype'])} {H.cna(case['na'])} {C.cbool(obs['raised'])}"
    if not obs.get("ok") and obs.get("stage") != "call":
        return None
    if not obs.get("ok") and (case.get("how") or {}).get("names") == "wrong":
        return None              # the model does not take col_names; nothing to compare
    cfg = (f"(qconfig {coq_encoder(case)} {C.clist(case['stats'], lambda s: coq_stats(case['stype'], s))} "
           f"{case['channels']}%nat {H.cna(case['na'])})")
    x = coq_input(case, case["feat"])
    if not obs.get("ok"):
        return f"check_enc true {cfg} {x} true (0%nat, 0%nat, 0%nat) [] [] None"
    perts = []
    for (r, j, v), f in zip(case["perts"], obs["foot"]):
        if "exc" in f or f.get("pre") is None:
            continue
        cells = [list(row) for row in case["feat"]]
        cells[r][j] = v
        perts.append(f"({coq_input(case, cells)}, {C.clist(f['pre'], lambda c: f'({c[0]}%nat, {c[1]}%nat)')})")
    imp = "None" if case["na"] is None else f"(Some {coq_input(case, impute(case, case['feat']))})"
    zeros = C.clist(obs["zeros"], lambda row: C.clist(row, C.cbool))
    strict = C.cbool(case.get("params", "noise") == "noise")
    shp = "(" + ", ".join(f"{int(v)}%nat" for v in obs["pre_shape"]) + ")"
    term = f"check_enc {strict} {cfg} {x} false {shp} {zeros} {C.clist(perts)} {imp}"
    if obs.get("param_disjoint") is not None:
        term = f"(({term}) && check_param_local {cfg} {x} {C.cbool(obs['param_disjoint'])})"
    rp = obs.get("real_params")
    if rp is not None:
        cfg2 = (f"(qconfig {coq_encoder_real(case, rp)} "
                f"{C.clist(case['stats'], lambda s_: coq_stats(case['stype'], s_))} {case['channels']}%nat "
                f"{H.cna(case['na'])})")
        pre = C.clist(obs["pre"], lambda row: C.clist(row, lambda v: C.clist(v, lambda f: H.cq(Fraction(f)))))
        term = f"(({term}) && check_num {cfg2} {x} {pre})"
    return term
